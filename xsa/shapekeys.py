"""Finding keys that express "the construct the rule expects was not found where it expects it".

They were observed to fire on behaviour-preserving refactorings written by independent agents (DESIGN.md §11), and no
confirmed breaking change in /verif/seeded depends on them.  A *new* finding with one of these keys is therefore not
positive evidence of a violation: the run reports it as ANALYSIS-ERROR ("cannot decide: shape not recognised", exit 2)
instead of VIOLATION (exit 1).  Entries of /verif/known_findings.json are matched before this table is consulted, so a
listed finding is still printed as KNOWN-FINDING.  Keys are (rule id, key prefix up to the first colon)."""

SHAPE_KEYS: set[tuple[str, str]] = {
    ("C07.R3", "assert"),
    ("C09.R1", "unknown-form"),
    ("C09.R2", "base-guard-unrecognised"),
    ("C15.R2", "operand-flow-unrecognised"),
    ("C19.R2", "duplicate-push-unrecognised"),
    ("C19.R2", "pop-guard-unrecognised"),
    ("C24.R3", "meet-unrecognised"),
    ("C25.R4", "run-loop-unrecognised"),
    ("C24.R2", "preds-source-unrecognised"),
    ("C09.R2", "no-merge-result"),
    ("C09.R2", "merge-bookkeeping"),
    ("C09.R2", "unknown-result"),
    ("C10.R1", "count-not-checked"),
    ("C11.R2", "insertion-not-each"),
    ("C11.R2", "modification-not-each"),
    ("C11.R2", "retype-notify"),
    ("C11.R3", "user-listener-dropped"),
    ("C11.R3", "walker-handler-missing"),
    ("C13.R2", "new-erase-site"),
    ("C13.R2", "unguarded-erase"),
    ("C13.R4", "entry-block"),
    ("C15.R3", "cmpf"),
    ("C15.R3", "cmpi-missing"),
    ("C18.R1", "bool-form"),
    ("C19.R1", "free-of-non-definition"),
    ("C19.R3", "no-exclusion"),
    ("C20.R1", "scratch-not-designated"),
    ("C20.R4", "result-twice"),
    ("C23.R3", "blocks-precreated"),
    ("C23.R3", "ops-between-phis"),
    ("C24.R3", "entry-init"),
    ("C24.R3", "others-init"),
    ("C29.R1", "descent-without-table-check"),
    ("C29.R1", "private-check-wrong-op"),
    ("C29.R2", "advance"),
    ("C29.R2", "start"),
    ("C29.R2", "trait"),
}

# rule <prop>.M1 (xsa/memo_rule.py): a new memoisation site that passes the decidable tests (key completeness, float keys,
# mutated cached results) is "cannot decide", because staleness is not decided
SHAPE_KEYS |= {(f"C{n:02d}.M1", k) for n in range(1, 30) for k in ("unreviewed-cache", "unreviewed-visited-mark")}
