"""Local-heap case analysis for the intrusive doubly linked lists of xdsl/ir/core.py (C01.R1s)."""

from __future__ import annotations


def check_c01(idx, rep, tier: str) -> None:  # filled in below
    return
