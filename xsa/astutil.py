"""AST helpers shared by the rules."""

from __future__ import annotations

import ast
from typing import Callable, Iterable, Iterator

from .srcindex import dotted

FUNC_NODES = (ast.FunctionDef, ast.AsyncFunctionDef, ast.Lambda, ast.ClassDef)


def unparse(node: ast.AST) -> str:
    return ast.unparse(node)


def walk_local(node: ast.AST, include_root: bool = True) -> Iterator[ast.AST]:
    """ast.walk that does not descend into nested function / class definitions or lambdas."""
    stack = [node]
    first = True
    while stack:
        n = stack.pop()
        if not first and isinstance(n, FUNC_NODES):
            continue
        if include_root or not first:
            yield n
        first = False
        stack.extend(reversed(list(ast.iter_child_nodes(n))))


def calls_in(node: ast.AST, local: bool = True) -> list[ast.Call]:
    it = walk_local(node) if local else ast.walk(node)
    return [n for n in it if isinstance(n, ast.Call)]


def call_name(call: ast.Call) -> str:
    return dotted(call.func)


def call_attr(call: ast.Call) -> str | None:
    """Last component of the callee: f(...) -> 'f', a.b.c(...) -> 'c'."""
    f = call.func
    if isinstance(f, ast.Attribute):
        return f.attr
    if isinstance(f, ast.Name):
        return f.id
    return None


def names_in(node: ast.AST) -> set[str]:
    return {n.id for n in ast.walk(node) if isinstance(n, ast.Name)}


def attr_chain(node: ast.AST) -> str | None:
    """'self.a.b' for pure Name/Attribute chains, else None."""
    parts = []
    while isinstance(node, ast.Attribute):
        parts.append(node.attr)
        node = node.value
    if isinstance(node, ast.Name):
        parts.append(node.id)
        return ".".join(reversed(parts))
    return None


def assigned_targets(st: ast.stmt) -> list[ast.expr]:
    out: list[ast.expr] = []

    def flat(t: ast.expr) -> None:
        if isinstance(t, (ast.Tuple, ast.List)):
            for e in t.elts:
                flat(e)
        elif isinstance(t, ast.Starred):
            flat(t.value)
        else:
            out.append(t)

    if isinstance(st, ast.Assign):
        for t in st.targets:
            flat(t)
    elif isinstance(st, (ast.AugAssign, ast.AnnAssign)):
        if not (isinstance(st, ast.AnnAssign) and st.value is None):
            flat(st.target)
    elif isinstance(st, (ast.For, ast.AsyncFor)):
        flat(st.target)
    elif isinstance(st, (ast.With, ast.AsyncWith)):
        for it in st.items:
            if it.optional_vars is not None:
                flat(it.optional_vars)
    return out


def attr_stores(fn: ast.AST) -> list[tuple[ast.Attribute, ast.stmt]]:
    """All `X.attr = ...` / `X.attr += ...` / `del X.attr` stores inside fn (local)."""
    out = []
    for n in walk_local(fn):
        if isinstance(n, (ast.Assign, ast.AugAssign, ast.AnnAssign, ast.For, ast.With)):
            for t in assigned_targets(n):
                if isinstance(t, ast.Attribute):
                    out.append((t, n))
        elif isinstance(n, ast.Delete):
            for t in n.targets:
                if isinstance(t, ast.Attribute):
                    out.append((t, n))
    return out


def parent_map(root: ast.AST) -> dict[int, ast.AST]:
    pm: dict[int, ast.AST] = {}
    for n in ast.walk(root):
        for c in ast.iter_child_nodes(n):
            pm[id(c)] = n
    return pm


def enclosing_stmt(pm: dict[int, ast.AST], node: ast.AST) -> ast.stmt:
    n = node
    while not isinstance(n, ast.stmt):
        n = pm[id(n)]
    return n


def _terminates(body: list[ast.stmt]) -> bool:
    """Does this block never fall through (ends in return/raise/continue/break on every path)?"""
    if not body:
        return False
    last = body[-1]
    if isinstance(last, (ast.Return, ast.Raise, ast.Continue, ast.Break)):
        return True
    if isinstance(last, ast.If):
        return _terminates(last.body) and _terminates(last.orelse)
    if isinstance(last, ast.Expr) and isinstance(last.value, ast.Call):
        nm = call_attr(last.value)
        if nm in ("raise_error", "_raise_error"):  # NoReturn helpers of the parsers
            return True
    if isinstance(last, ast.With):
        return _terminates(last.body)
    if isinstance(last, ast.Match):
        has_default = any(
            isinstance(c.pattern, ast.MatchAs) and c.pattern.pattern is None and c.guard is None for c in last.cases
        )
        return has_default and all(_terminates(c.body) for c in last.cases)
    return False


def _nested_exit_test(st: ast.If):
    """`if a: if b: <terminating block>` (no else anywhere, nothing else in the outer bodies) leaves exactly when
    `a and b` holds: the combined test, or None when `st` is not of that shape (a plain `if a: <exit>` included)."""
    tests = [st.test]
    cur = st
    while not cur.orelse and len(cur.body) == 1 and isinstance(cur.body[0], ast.If):
        cur = cur.body[0]
        tests.append(cur.test)
    if len(tests) < 2 or cur.orelse or not _terminates(cur.body):
        return None
    # a walrus in an inner test binds only when the outer tests held: the conjunction has the same evaluation order
    return ast.copy_location(ast.BoolOp(op=ast.And(), values=tests), st)


def guards_of(fn: ast.AST, target: ast.AST) -> list[tuple[ast.expr, bool]]:
    """Conditions the evaluation of `target` is (syntactically) control dependent on inside fn:
    (test, True)  — target is in the true branch of `if test` / `while test` / `assert test` passed,
    (test, False) — target is in the else branch, or follows `if test: <terminating block>`.
    Also handles `a and b` short-circuit inside a single expression (left operands guard right ones)
    and conditional expressions.  Order: outermost first."""
    pm = parent_map(fn)
    out: list[tuple[ast.expr, bool]] = []
    node = target
    while id(node) in pm:
        par = pm[id(node)]
        # expression-level guards
        if isinstance(par, ast.BoolOp):
            idx = next(i for i, v in enumerate(par.values) if v is node)
            for v in par.values[:idx]:
                out.append((v, isinstance(par.op, ast.And)))
        elif isinstance(par, ast.IfExp):
            if node is par.body:
                out.append((par.test, True))
            elif node is par.orelse:
                out.append((par.test, False))
        elif isinstance(par, (ast.ListComp, ast.SetComp, ast.GeneratorExp, ast.DictComp)):
            # element is guarded by the ifs of the generators
            if node in ([getattr(par, "elt", None), getattr(par, "key", None), getattr(par, "value", None)]):
                for g in par.generators:
                    for c in g.ifs:
                        out.append((c, True))
        # statement-level guards
        if isinstance(node, ast.stmt) or isinstance(par, (ast.If, ast.While)):
            for fld in ("body", "orelse", "finalbody"):
                blk = getattr(par, fld, None)
                if isinstance(blk, list) and node in blk:
                    i = blk.index(node)
                    # earlier siblings that are terminating ifs / asserts
                    for prev in blk[:i]:
                        if isinstance(prev, ast.If):
                            nested = _nested_exit_test(prev)
                            if nested is not None:
                                out.append((nested, False))
                            elif _terminates(prev.body) and not _terminates(prev.orelse):
                                out.append((prev.test, False))
                            elif prev.orelse and _terminates(prev.orelse) and not _terminates(prev.body):
                                out.append((prev.test, True))
                        elif isinstance(prev, ast.Assert):
                            out.append((prev.test, True))
                    if isinstance(par, (ast.If, ast.While)):
                        if fld == "body":
                            out.append((par.test, True))
                        elif fld == "orelse" and isinstance(par, ast.If):
                            out.append((par.test, False))
            if isinstance(par, ast.match_case) and node in par.body:
                pass
            if isinstance(par, ast.ExceptHandler):
                pass
        node = par
    out.reverse()
    return out


def conjuncts(test: ast.expr, polarity: bool) -> list[tuple[ast.expr, bool]]:
    """Facts implied by `test` evaluating to `polarity`, as (atom, truth) pairs (NNF, conjunctive part)."""
    if isinstance(test, ast.UnaryOp) and isinstance(test.op, ast.Not):
        return conjuncts(test.operand, not polarity)
    if isinstance(test, ast.BoolOp):
        if isinstance(test.op, ast.And) and polarity:
            return [c for v in test.values for c in conjuncts(v, True)]
        if isinstance(test.op, ast.Or) and not polarity:
            return [c for v in test.values for c in conjuncts(v, False)]
        return [(test, polarity)]
    if isinstance(test, ast.NamedExpr):
        return [(test, polarity)] + conjuncts(test.value, polarity)
    return [(test, polarity)]


def guard_facts(fn: ast.AST, target: ast.AST) -> list[tuple[ast.expr, bool]]:
    out = []
    for t, pol in guards_of(fn, target):
        out.extend(conjuncts(t, pol))
    return out


def const_value(node: ast.AST):
    if isinstance(node, ast.Constant):
        return node.value
    if isinstance(node, ast.UnaryOp) and isinstance(node.op, ast.USub) and isinstance(node.operand, ast.Constant):
        return -node.operand.value
    raise ValueError("not a constant")


def is_const(node: ast.AST) -> bool:
    try:
        const_value(node)
        return True
    except ValueError:
        return False


def find_stmts(fn: ast.AST, pred: Callable[[ast.AST], bool]) -> list[ast.AST]:
    return [n for n in walk_local(fn) if pred(n)]


def returns_of(fn: ast.AST) -> list[ast.Return]:
    return [n for n in walk_local(fn) if isinstance(n, ast.Return)]


def first_line(node: ast.AST) -> int:
    return getattr(node, "lineno", 0)


def contains(outer: ast.AST, inner: ast.AST) -> bool:
    return any(n is inner for n in ast.walk(outer))


def any_call(node: ast.AST, names: Iterable[str]) -> bool:
    s = set(names)
    return any(call_attr(c) in s for c in calls_in(node, local=False))


def expand_value_calls(mi, text: str, depth: int = 2) -> str:
    """In the expression `text`, replace every call `g(args)` of a module-level function g of module `mi` whose return
    statements all return the same expression over its parameters by that expression (arguments substituted).  Used to
    look through small validating helpers (`_common_region(a, b)` -> `a.parent`): only the *value* is of interest."""
    import copy

    from .cfg import CFG
    from .dataflow import resolved_text

    if depth <= 0:
        return text
    try:
        tree = ast.parse(text, mode="eval")
    except SyntaxError:
        return text

    class T(ast.NodeTransformer):
        def visit_Call(self, node: ast.Call):
            self.generic_visit(node)
            if isinstance(node.func, ast.Name) and node.func.id in mi.functions and not node.keywords:
                g = mi.functions[node.func.id].raw_node
                params = [a.arg for a in g.args.args]
                if len(params) != len(node.args):
                    return node
                cfg = CFG(g)
                vals = {resolved_text(cfg, r.value, cfg.node_of(r)) for r in ast.walk(g) if isinstance(r, ast.Return) and r.value is not None}
                if len(vals) != 1:
                    return node
                body = ast.parse(next(iter(vals)), mode="eval").body
                sub = dict(zip(params, node.args))

                class S(ast.NodeTransformer):
                    def visit_Name(self, n: ast.Name):
                        return copy.deepcopy(sub[n.id]) if n.id in sub else n

                return S().visit(body)
            return node

    return ast.unparse(ast.fix_missing_locations(T().visit(tree)))


def resolved_guard_facts(fn: ast.AST, cfg, node: ast.AST) -> list[tuple[str, bool]]:
    """guard_facts as texts, after replacing single-definition locals by what they stand for (a hoisted condition
    `ok = a and b; if ok:` yields the facts `a`, `b`) and splitting the result into conjuncts again."""
    from .dataflow import resolved_text

    out: list[tuple[str, bool]] = []
    for t, pol in guard_facts(fn, node):
        try:
            txt = resolved_text(cfg, t, cfg.node_of(node))
            e = ast.parse(txt, mode="eval").body
        except Exception:
            out.append((unparse(t), pol))
            continue
        for c, p in conjuncts(e, pol):
            out.append((unparse(c), p))
        if unparse(t) != txt:
            out.append((unparse(t), pol))
    return out


_CFG_CACHE: dict[int, object] = {}


def text_facts(fn: ast.AST, node: ast.AST) -> list[tuple[str, bool]]:
    """The guards of `node` as (text, polarity): both as written and with single-definition locals resolved
    (`resolved_guard_facts`).  Rules that look facts up by text use this so that a condition hoisted into a local, or
    produced by inlining a predicate helper, is still found."""
    from .cfg import CFG

    key = id(fn)
    cfg = _CFG_CACHE.get(key)
    if cfg is None or getattr(cfg, "fn", None) is not fn:
        try:
            cfg = CFG(fn)  # type: ignore[arg-type]
        except Exception:
            return [(unparse(t), p) for t, p in guard_facts(fn, node)]
        _CFG_CACHE[key] = cfg
    plain = [(unparse(t), p) for t, p in guard_facts(fn, node)]
    try:
        res = resolved_guard_facts(fn, cfg, node)
    except Exception:
        res = []
    seen = set()
    out = []
    for x in plain + res:
        if x not in seen:
            seen.add(x)
            out.append(x)
    return out


def range_bounds(facts: list[tuple[str, bool]], var: str) -> tuple[bool, set[str]]:
    """What the guard facts say about an index variable: (known >= 0, set of texts X with `var <= X` known).
    Recognises both spellings and polarities of the comparisons, chained comparisons and `var in range(X)`."""
    import re as _re

    nonneg = False
    upper: set[str] = set()
    v = _re.escape(var)
    for txt, pol in facts:
        try:
            e = ast.parse(txt, mode="eval").body
        except SyntaxError:
            continue
        if isinstance(e, ast.Compare) and isinstance(e.ops[0], ast.In) and len(e.ops) == 1 and unparse(e.left) == var:
            c = e.comparators[0]
            if pol and isinstance(c, ast.Call) and unparse(c.func) == "range" and len(c.args) == 1:
                nonneg = True
                a = unparse(c.args[0])
                upper.add(a[:-4] if a.endswith(" + 1") else f"{a} - 1")
            continue
        if not isinstance(e, ast.Compare):
            continue
        terms = [e.left] + list(e.comparators)
        pairs = [(terms[i], e.ops[i], terms[i + 1]) for i in range(len(e.ops))]
        if len(pairs) > 1 and not pol:
            continue  # a false chained comparison is a disjunction
        for l, op, r in pairs:
            lt, rt = unparse(l), unparse(r)
            # normalise to  var OP other
            if rt == var and lt != var:
                flip = {ast.Lt: ast.Gt, ast.LtE: ast.GtE, ast.Gt: ast.Lt, ast.GtE: ast.LtE}
                if type(op) not in flip:
                    continue
                lt, rt, op = rt, lt, flip[type(op)]()
            if lt != var:
                continue
            k = type(op)
            if not pol:
                neg = {ast.Lt: ast.GtE, ast.LtE: ast.Gt, ast.Gt: ast.LtE, ast.GtE: ast.Lt}
                if k not in neg:
                    continue
                k = neg[k]
            if k is ast.GtE and rt == "0" or k is ast.Gt and rt == "-1":
                nonneg = True
            elif k is ast.LtE:
                upper.add(rt)
            elif k is ast.Lt:
                upper.add(rt[:-4] if rt.endswith(" + 1") else f"{rt} - 1")
    return nonneg, upper


def norm_fact(t: ast.AST | str, pol: bool) -> tuple[str, bool]:
    """Canonical (text, polarity) of an atomic fact: negative comparison operators are expressed by polarity
    (`x is not None`:T == `x is None`:F, `a != b`:T == `a == b`:F, `k not in s`:T == `k in s`:F) and `not e` is
    unwrapped."""
    if isinstance(t, str):
        try:
            t = ast.parse(t, mode="eval").body
        except SyntaxError:
            return t, pol  # type: ignore[return-value]
    while isinstance(t, ast.UnaryOp) and isinstance(t.op, ast.Not):
        t, pol = t.operand, not pol
    if isinstance(t, ast.Compare) and len(t.ops) == 1:
        swap = {ast.IsNot: ast.Is, ast.NotEq: ast.Eq, ast.NotIn: ast.In}
        k = type(t.ops[0])
        if k in swap:
            t = ast.Compare(left=t.left, ops=[swap[k]()], comparators=t.comparators)
            pol = not pol
    return unparse(t), pol


def norm_facts(facts) -> set[tuple[str, bool]]:
    out = set()
    for t, p in facts:
        if not isinstance(t, str):
            for c, q in conjuncts(t, p):
                out.add(norm_fact(c, q))
        else:
            try:
                e = ast.parse(t, mode="eval").body
            except SyntaxError:
                out.add((t, p))
                continue
            for c, q in conjuncts(e, p):
                out.add(norm_fact(c, q))
    return out



def quant_canon(t: ast.AST | str, pol: bool) -> tuple[str, bool] | None:
    """Canonical form of a quantified fact over one generator: `all(E for v in S)`, `any(E for v in S)` under either
    polarity, with `not` pushed inside and the bound variable renamed `_q`:
        all(not P):T  ==  any(P):F   ->  ("all((not P for _q in S))", True)
        any(P):T      ==  all(not P):F -> ("any((P for _q in S))", True)
    None when the fact is not of that shape."""
    if isinstance(t, str):
        try:
            t = ast.parse(t, mode="eval").body
        except SyntaxError:
            return None
    while isinstance(t, ast.UnaryOp) and isinstance(t.op, ast.Not):
        t, pol = t.operand, not pol
    if not (isinstance(t, ast.Call) and isinstance(t.func, ast.Name) and t.func.id in ("all", "any") and len(t.args) == 1 and isinstance(t.args[0], (ast.GeneratorExp, ast.ListComp)) and len(t.args[0].generators) == 1 and not t.args[0].generators[0].ifs and isinstance(t.args[0].generators[0].target, ast.Name)):
        return None
    g = t.args[0].generators[0]
    elt = t.args[0].elt
    neg = False
    while isinstance(elt, ast.UnaryOp) and isinstance(elt.op, ast.Not):
        elt, neg = elt.operand, not neg
    q = t.func.id
    if not pol:  # not all(E) == any(not E) ; not any(E) == all(not E)
        q = "any" if q == "all" else "all"
        neg = not neg
    import copy

    class R(ast.NodeTransformer):
        def visit_Name(self, node: ast.Name):
            return ast.copy_location(ast.Name(id="_q" if node.id == g.target.id else node.id, ctx=node.ctx), node)

    e2 = unparse(R().visit(copy.deepcopy(elt)))
    return (f"{q}(({'not ' if neg else ''}{e2} for _q in {unparse(g.iter)}))", True)



def loop_quant_facts(fn: ast.AST, node: ast.AST) -> set[tuple[str, bool]]:
    """Quantified facts established by *search loops* before `node` (canonical form of quant_canon):
        for v in S:            for v in S:
            if P: return           if P: break
        <node>                 else:
                                   <node>
    both establish all((not P for _q in S)) at <node>."""
    pm = parent_map(fn)
    out: set[tuple[str, bool]] = set()

    def single_if(loop: ast.For):
        body = [s for s in loop.body if not (isinstance(s, ast.Expr) and isinstance(s.value, ast.Constant))]
        if len(body) == 1 and isinstance(body[0], ast.If) and not body[0].orelse and isinstance(loop.target, ast.Name):
            return body[0]
        return None

    def fact_of(loop: ast.For, test: ast.expr):
        gen = ast.GeneratorExp(elt=test, generators=[ast.comprehension(target=loop.target, iter=loop.iter, ifs=[], is_async=0)])
        call = ast.Call(func=ast.Name(id="any", ctx=ast.Load()), args=[gen], keywords=[])
        return quant_canon(ast.fix_missing_locations(call), False)

    n = node
    while id(n) in pm:
        par = pm[id(n)]
        # for-else
        if isinstance(par, ast.For) and any(n is o for o in par.orelse):
            i_ = single_if(par)
            if i_ is not None and i_.body and isinstance(i_.body[-1], ast.Break):
                qc = fact_of(par, i_.test)
                if qc:
                    out.add(qc)
        for fld in ("body", "orelse", "finalbody"):
            blk = getattr(par, fld, None)
            if isinstance(blk, list) and any(n is b for b in blk):
                idx_ = next(i for i, b in enumerate(blk) if b is n)
                for prev in blk[:idx_]:
                    if isinstance(prev, ast.For) and not prev.orelse:
                        i_ = single_if(prev)
                        if i_ is not None and i_.body and isinstance(i_.body[-1], (ast.Return, ast.Raise)):
                            qc = fact_of(prev, i_.test)
                            if qc:
                                out.add(qc)
        n = par
    return out


def subst_chain_aliases(fn: ast.AST, text: str) -> str:
    """`text` (an expression) with every local of `fn` that is stored exactly once, by `x = <attribute chain>`, replaced by
    that chain (`default_value = d.default_value` ... `default_value is None`  ->  `d.default_value is None`)."""
    stores: dict[str, int] = {}
    for n in walk_local(fn):
        if isinstance(n, ast.Name) and isinstance(n.ctx, (ast.Store, ast.Del)):
            stores[n.id] = stores.get(n.id, 0) + 1
    alias: dict[str, ast.expr] = {}
    for st in walk_local(fn):
        if isinstance(st, ast.Assign) and len(st.targets) == 1 and isinstance(st.targets[0], ast.Name) and stores.get(st.targets[0].id) == 1:
            v = st.value
            while isinstance(v, ast.Attribute):
                v = v.value
            if isinstance(st.value, ast.Attribute) and isinstance(v, ast.Name):
                alias[st.targets[0].id] = st.value
    if not alias:
        return text
    try:
        e = ast.parse(text, mode="eval")
    except SyntaxError:
        return text

    class T(ast.NodeTransformer):
        def visit_Name(self, node: ast.Name):
            if isinstance(node.ctx, ast.Load) and node.id in alias:
                import copy

                return copy.deepcopy(alias[node.id])
            return node

    return ast.unparse(T().visit(e))


def inline_chain_aliases(fn: ast.AST) -> ast.AST:
    """A copy of `fn` in which every local stored exactly once by `x = <attribute chain>` is replaced, where it is read,
    by that chain (`lhs = self.data` ... `lhs == rhs`  ->  `self.data == other.data`)."""
    import copy

    stores: dict[str, int] = {}
    for n in walk_local(fn):
        if isinstance(n, ast.Name) and isinstance(n.ctx, (ast.Store, ast.Del)):
            stores[n.id] = stores.get(n.id, 0) + 1
    alias: dict[str, ast.expr] = {}
    for st in walk_local(fn):
        if isinstance(st, ast.Assign) and len(st.targets) == 1:
            tg, v = st.targets[0], st.value
            pairs = [(tg, v)] if isinstance(tg, ast.Name) else list(zip(tg.elts, v.elts)) if isinstance(tg, ast.Tuple) and isinstance(v, ast.Tuple) and len(tg.elts) == len(v.elts) else []
            for t_, v_ in pairs:
                root = v_
                while isinstance(root, ast.Attribute):
                    root = root.value
                if isinstance(t_, ast.Name) and stores.get(t_.id) == 1 and isinstance(v_, ast.Attribute) and isinstance(root, ast.Name):
                    alias[t_.id] = v_
    if not alias:
        return fn

    class T(ast.NodeTransformer):
        def visit_Name(self, node: ast.Name):
            if isinstance(node.ctx, ast.Load) and node.id in alias:
                return copy.deepcopy(alias[node.id])
            return node

    return ast.fix_missing_locations(T().visit(copy.deepcopy(fn)))


def dewalrus(text: str) -> str:
    """`(x := E) is None`  ->  `x is None`: the fact is about the bound name"""
    if ":=" not in text:
        return text
    try:
        e = ast.parse(text, mode="eval")
    except SyntaxError:
        return text

    class T(ast.NodeTransformer):
        def visit_NamedExpr(self, node: ast.NamedExpr):
            return ast.Name(id=node.target.id, ctx=ast.Load())

    return ast.unparse(ast.fix_missing_locations(T().visit(e)))


def alpha_text(frag) -> str:
    """Source text of a statement / expression / list of statements with every name that is *bound inside the fragment*
    (assignment, loop, comprehension, with/except/walrus targets) renamed `_a0, _a1, ...` in order of first occurrence:
    two fragments that differ only in the spelling of their own local names have the same alpha_text.  Names bound
    elsewhere (parameters, self, outer locals, globals) keep their spelling."""
    import copy

    nodes = list(frag) if isinstance(frag, (list, tuple)) else [frag]
    nodes = [copy.deepcopy(n) for n in nodes]
    order: list[str] = []

    class Collect(ast.NodeVisitor):
        def visit_Name(self, n: ast.Name):
            if isinstance(n.ctx, (ast.Store, ast.Del)) and n.id not in order:
                order.append(n.id)

        def visit_ExceptHandler(self, n: ast.ExceptHandler):
            if n.name and n.name not in order:
                order.append(n.name)
            self.generic_visit(n)

        def visit_MatchAs(self, n: ast.MatchAs):
            if n.name and n.name not in order:
                order.append(n.name)
            self.generic_visit(n)

    # source order: ast.walk is breadth-first, NodeVisitor.generic_visit is depth-first in field order; for
    # comprehensions the generators come after the element in field order, so visit them first
    class Ordered(Collect):
        def _comp(self, n):
            for g in n.generators:
                self.visit(g)
            for fld in ("elt", "key", "value"):
                if hasattr(n, fld):
                    self.visit(getattr(n, fld))

        visit_ListComp = visit_SetComp = visit_GeneratorExp = visit_DictComp = _comp

        def visit_Assign(self, n: ast.Assign):
            self.visit(n.value)
            for t in n.targets:
                self.visit(t)

        def visit_NamedExpr(self, n: ast.NamedExpr):
            self.visit(n.value)
            self.visit(n.target)

    for n in nodes:
        Ordered().visit(n)
    ren = {nm: f"_a{i}" for i, nm in enumerate(order)}

    class R(ast.NodeTransformer):
        def visit_Name(self, n: ast.Name):
            if n.id in ren:
                n.id = ren[n.id]
            return n

        def visit_ExceptHandler(self, n: ast.ExceptHandler):
            if n.name in ren:
                n.name = ren[n.name]
            self.generic_visit(n)
            return n

        def visit_MatchAs(self, n: ast.MatchAs):
            if n.name in ren:
                n.name = ren[n.name]
            self.generic_visit(n)
            return n

    return "\n".join(ast.unparse(ast.fix_missing_locations(R().visit(n))) for n in nodes)


def alpha_same(frag, expected_src: str) -> bool:
    """frag (node or list of statements) equals the statements / expression written in `expected_src` up to the spelling
    of the names bound inside it"""
    try:
        exp = ast.parse(expected_src).body
    except SyntaxError:
        return False
    if not isinstance(frag, (list, tuple)) and isinstance(frag, ast.expr) and len(exp) == 1 and isinstance(exp[0], ast.Expr):
        exp = [exp[0].value]
    return alpha_text(frag) == alpha_text(exp)


def canon_locals(fn: ast.AST, node: ast.AST) -> str:
    """Text of `node` with the local variables of `fn` (names stored in fn that are not parameters) replaced by `_v0, _v1,
    ...` in order of first appearance in `node`: a key built from it does not change when locals are renamed."""
    import copy

    a = fn.args  # type: ignore[attr-defined]
    params = {x.arg for x in a.posonlyargs + a.args + a.kwonlyargs} | ({a.vararg.arg} if a.vararg else set()) | ({a.kwarg.arg} if a.kwarg else set())
    stored = {n.id for n in ast.walk(fn) if isinstance(n, ast.Name) and isinstance(n.ctx, (ast.Store, ast.Del))} - params
    order: list[str] = []
    for n in ast.walk(node):
        if isinstance(n, ast.Name) and n.id in stored and n.id not in order:
            order.append(n.id)
    # ast.walk is breadth-first: order by position in the source text instead
    order.sort(key=lambda nm: min((getattr(n, "lineno", 0), getattr(n, "col_offset", 0)) for n in ast.walk(node) if isinstance(n, ast.Name) and n.id == nm))
    ren = {nm: f"_v{i}" for i, nm in enumerate(order)}

    class R(ast.NodeTransformer):
        def visit_Name(self, n: ast.Name):
            if n.id in ren:
                return ast.copy_location(ast.Name(id=ren[n.id], ctx=n.ctx), n)
            return n

    return ast.unparse(R().visit(copy.deepcopy(node)))


def rename_locals(fn: ast.AST, mapping: dict[str, str]) -> ast.AST:
    """A copy of `fn` with the local names `mapping` renamed (all Name / handler / pattern occurrences)."""
    import copy

    if not mapping or all(a == b for a, b in mapping.items()):
        return fn
    new = copy.deepcopy(fn)
    for n in ast.walk(new):
        if isinstance(n, ast.Name) and n.id in mapping:
            n.id = mapping[n.id]
        elif isinstance(n, ast.ExceptHandler) and n.name in mapping:
            n.name = mapping[n.name]
        elif isinstance(n, (ast.MatchAs, ast.MatchStar)) and n.name in mapping:
            n.name = mapping[n.name]
    return new


def roles_by_definition(fn: ast.AST, roles: dict[str, str]) -> dict[str, str]:
    """For rules written against the roles of a function's locals: {actual local name: role name} for every role whose
    defining expression (a regex on the source text of the value of a plain / annotated assignment at any depth) is matched
    by exactly one local.  `{role}` inside a pattern refers to the local already found for an earlier role.  A role is
    left out when no local (or several locals) match; a role whose name is used by a *different* local is left out too."""
    import re as _re

    found: dict[str, str] = {}  # role -> actual
    binds: list[tuple[str, str]] = []
    for st in walk_local(fn):
        if isinstance(st, ast.Assign) and len(st.targets) == 1 and isinstance(st.targets[0], ast.Name):
            binds.append((st.targets[0].id, ast.unparse(st.value)))
        elif isinstance(st, ast.AnnAssign) and isinstance(st.target, ast.Name) and st.value is not None:
            binds.append((st.target.id, ast.unparse(st.value)))
    all_locals = {n.id for n in ast.walk(fn) if isinstance(n, ast.Name) and isinstance(n.ctx, ast.Store)}
    for role, pat in roles.items():
        p = pat
        for r0, a0 in found.items():
            p = p.replace("{" + r0 + "}", _re.escape(a0))
        if "{" in _re.sub(r"\{\d+(,\d*)?\}", "", p) and _re.search(r"\{[a-z_]+\}", p):
            continue  # refers to a role that was not found
        names = {nm for nm, v in binds if _re.fullmatch(p, v)}
        if len(names) == 1:
            found[role] = next(iter(names))
    out = {}
    for role, actual in found.items():
        if role != actual and role in all_locals and role not in found.values():
            continue  # the role name is taken by another local: renaming would merge two variables
        out[actual] = role
    # a swap (a->b, b->a) is fine; a chain a->b where b is an actual local not itself renamed was excluded above
    return out


def dispatch_tables(fn: ast.AST) -> list[tuple[str, dict[str, list[ast.stmt]], list[ast.stmt] | None, ast.AST]]:
    """Every dispatch on one subject written in `fn`, whether as a `match` over value patterns or as an if / elif chain
    (or a run of `if S == V: <exit>` statements) comparing one subject with values:
        (subject text, {value text: body}, default body or None, node)
    A subject that is a local bound once (`k = op.kind`) is reported by the expression it stands for.  Patterns that are
    not plain values are keyed `pattern:<text>`; a case with a guard is keyed `<value> if <guard>`."""
    binds: dict[str, list[ast.expr]] = {}
    for n in ast.walk(fn):
        if isinstance(n, ast.Assign) and len(n.targets) == 1 and isinstance(n.targets[0], ast.Name):
            binds.setdefault(n.targets[0].id, []).append(n.value)
        elif isinstance(n, ast.AnnAssign) and isinstance(n.target, ast.Name) and n.value is not None:
            binds.setdefault(n.target.id, []).append(n.value)
        elif isinstance(n, ast.NamedExpr):
            binds.setdefault(n.target.id, []).append(n.value)

    def subj_text(e: ast.expr) -> str:
        if isinstance(e, ast.Name) and len(binds.get(e.id, [])) == 1 and not isinstance(binds[e.id][0], ast.Constant):
            return unparse(binds[e.id][0])
        return unparse(e)

    def atoms(test: ast.expr):
        """[(subject expr, [value exprs])] for a test `S == V`, `V == S`, `S is V`, `S in (V, ...)` or an `or` of those on
        one subject; None otherwise"""
        parts = test.values if isinstance(test, ast.BoolOp) and isinstance(test.op, ast.Or) else [test]
        subj = None
        vals: list[ast.expr] = []
        for p_ in parts:
            if not (isinstance(p_, ast.Compare) and len(p_.ops) == 1):
                return None
            l_, o_, r_ = p_.left, p_.ops[0], p_.comparators[0]
            if isinstance(o_, (ast.Eq, ast.Is)):
                const_l = isinstance(l_, ast.Constant) or (isinstance(l_, ast.Attribute) and unparse(l_)[:1].isupper())
                s_, v_ = (r_, [l_]) if const_l and not isinstance(r_, ast.Constant) else (l_, [r_])
            elif isinstance(o_, ast.In) and isinstance(r_, (ast.Tuple, ast.List, ast.Set)):
                s_, v_ = l_, list(r_.elts)
            else:
                return None
            if subj is not None and unparse(subj) != unparse(s_):
                return None
            subj = s_
            vals.extend(v_)
        return (subj, vals) if subj is not None else None

    out = []
    in_chain: set[int] = set()

    def chain(stmts: list[ast.stmt], i: int, s0: str, table: dict, members: list[int]):
        """follow a dispatch on subject s0 from stmts[i]; returns the default block (or None)"""
        while i < len(stmts):
            st = stmts[i]
            a_ = atoms(st.test) if isinstance(st, ast.If) else None
            if a_ is None or unparse(a_[0]) != s0:
                return stmts[i:]
            members.append(id(st))
            for v_ in a_[1]:
                table.setdefault(unparse(v_), st.body)
            if st.orelse:
                return chain(st.orelse, 0, s0, table, members)
            if not _terminates(st.body):
                return None if i + 1 >= len(stmts) else stmts[i + 1 :]
            i += 1
        return None

    for n in ast.walk(fn):
        if isinstance(n, ast.Match):
            table: dict[str, list[ast.stmt]] = {}
            default = None
            for c in n.cases:
                pats = c.pattern.patterns if isinstance(c.pattern, ast.MatchOr) else [c.pattern]
                for p_ in pats:
                    if isinstance(p_, ast.MatchAs) and p_.pattern is None and p_.name is None and c.guard is None:
                        default = c.body
                        continue
                    key = unparse(p_.value) if isinstance(p_, ast.MatchValue) else ("None" if isinstance(p_, ast.MatchSingleton) and p_.value is None else "pattern:" + unparse(p_))
                    if c.guard is not None:
                        key += " if " + unparse(c.guard)
                    table.setdefault(key, c.body)
            out.append((subj_text(n.subject), table, default, n))
    for blk_owner in ast.walk(fn):
        for fld in ("body", "orelse", "finalbody"):
            blk = getattr(blk_owner, fld, None)
            if not (isinstance(blk, list) and blk and isinstance(blk[0], ast.stmt)):
                continue
            for i, st in enumerate(blk):
                if not isinstance(st, ast.If) or id(st) in in_chain:
                    continue
                a0 = atoms(st.test)
                if a0 is None:
                    continue
                table = {}
                members: list[int] = []
                default = chain(blk, i, unparse(a0[0]), table, members)
                if len(members) >= 2:
                    in_chain.update(members)
                    out.append((subj_text(a0[0]), table, default, st))
    return out


def canon_cmp(e) -> str:
    """Text of an expression with every single comparison written with `<` / `<=` (`a > b` -> `b < a`, `a >= b` ->
    `b <= a`): for matching facts whatever way round they were spelled.  (Matching aid only: the operands of the
    comparisons the rules look at are names, attribute chains and constants.)"""
    import copy

    if isinstance(e, str):
        try:
            e = ast.parse(e, mode="eval").body
        except SyntaxError:
            return e

    class T(ast.NodeTransformer):
        def visit_Compare(self, node: ast.Compare):
            self.generic_visit(node)
            if len(node.ops) == 1 and isinstance(node.ops[0], (ast.Gt, ast.GtE)):
                return ast.copy_location(ast.Compare(left=node.comparators[0], ops=[ast.Lt() if isinstance(node.ops[0], ast.Gt) else ast.LtE()], comparators=[node.left]), node)
            return node

    return ast.unparse(ast.fix_missing_locations(T().visit(copy.deepcopy(e))))
