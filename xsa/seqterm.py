"""Symbolic sequence terms: the value of an expression that builds a tuple / list out of slices of other sequences.

`(*xs[:i], v, *xs[i + 1:])`, `tuple(chain(xs[:i], [v], xs[i + 1:]))`, `xs[:i] + (v,) + xs[i + 1:]` and
`l = list(xs); l[i] = v; tuple(l)` all denote the same sequence; rules about "the tuple is rebuilt around position i"
compare the normal form computed here instead of the source text.

A normal form is a tuple of segments:
    ("all", base)             every element of `base`
    ("slice", base, lo, hi)   base[lo:hi] (lo / hi are canonical source texts or None)
    ("elem", text)            one element
Local names are resolved through their single reaching definition (dataflow.reaching_defs); a name bound to a list copy
that is point-updated (`l[k] = v`) on every path between the copy and the use is folded into the normal form."""

from __future__ import annotations

import ast
import copy

from .astutil import unparse, walk_local
from .cfg import CFG
from .dataflow import reaching_defs

Seg = tuple
WRAPPERS = {"tuple", "list", "SSAValues", "iter", "reversed_not"}  # identity on the element sequence
CHAINS = {"chain", "itertools.chain"}


def _txt(e: ast.AST | None) -> str | None:
    return None if e is None else unparse(e)


def point_update(segs: tuple[Seg, ...], k: str, v: str) -> tuple[Seg, ...] | None:
    if len(segs) == 1 and segs[0][0] == "all":
        b = segs[0][1]
        return (("slice", b, None, k), ("elem", v), ("slice", b, f"{k} + 1", None))
    return None


class SeqEval:
    def __init__(self, fn: ast.AST, cfg: CFG | None = None, elem_resolve: bool = False):
        self.fn = fn
        self.cfg = cfg or CFG(fn)  # type: ignore[arg-type]
        self.elem_resolve = elem_resolve

    # -- names ----------------------------------------------------------------------------------------------------
    def _name(self, n: ast.Name, at: int, depth: int) -> tuple[Seg, ...] | None:
        defs = reaching_defs(self.cfg, n.id, at)
        if len(defs) != 1 or defs[0][0] == self.cfg.entry or defs[0][1] is None or depth <= 0:
            return (("all", n.id),)
        nid, val = defs[0]
        segs = self.eval(val, nid, depth - 1)
        if segs is None:
            return (("all", n.id),)
        # point updates l[k] = v between the definition and the use (must lie on every path)
        ups = []
        for st in walk_local(self.fn):
            if isinstance(st, ast.Assign) and len(st.targets) == 1 and isinstance(st.targets[0], ast.Subscript):
                t = st.targets[0]
                if isinstance(t.value, ast.Name) and t.value.id == n.id and not isinstance(t.slice, ast.Slice):
                    sn = self.cfg.node_of(st)
                    if sn in self.cfg.reachable(nid) and at in self.cfg.reachable(sn):
                        if self.cfg.path_avoiding(nid, at, lambda x, sn=sn: x.id == sn) is not None:
                            return None  # conditional update: not a fixed shape
                        ups.append((st.lineno, unparse(t.slice), self._elem(st.value, sn)))
        # l.insert(k, v) between the copy and the use
        for st in walk_local(self.fn):
            if isinstance(st, ast.Expr) and isinstance(st.value, ast.Call) and isinstance(st.value.func, ast.Attribute) and st.value.func.attr == "insert" and isinstance(st.value.func.value, ast.Name) and st.value.func.value.id == n.id and len(st.value.args) == 2:
                sn = self.cfg.node_of(st)
                if sn in self.cfg.reachable(nid) and at in self.cfg.reachable(sn):
                    if self.cfg.path_avoiding(nid, at, lambda x, sn=sn: x.id == sn) is not None:
                        return None
                    ups.append((st.lineno, ("insert", unparse(st.value.args[0])), self._elem(st.value.args[1], sn)))
        for _, k, v in sorted(ups, key=lambda u: u[0]):
            if isinstance(k, tuple) and k[0] == "insert":
                segs = inserted_at(segs[0][1], k[1], v) if len(segs) == 1 and segs[0][0] == "all" else None
            else:
                segs = point_update(segs, k, v)
            if segs is None:
                return None
        return segs

    def _elem(self, e: ast.AST, at: int) -> str:
        if self.elem_resolve and isinstance(e, ast.Name):
            defs = reaching_defs(self.cfg, e.id, at)
            if len(defs) == 1 and defs[0][0] != self.cfg.entry and defs[0][1] is not None and isinstance(defs[0][1], (ast.Name, ast.Attribute)):
                return unparse(defs[0][1])
        return unparse(e)

    def _bound(self, e: ast.AST | None, at: int) -> str | None:
        """Canonical text of a slice bound; local names with one plain definition are substituted."""
        if e is None:
            return None
        from .dataflow import _Subst

        r = _Subst(self.cfg, at, 4).visit(copy.deepcopy(e))
        return unparse(ast.fix_missing_locations(r))

    # -- expressions ----------------------------------------------------------------------------------------------
    def eval(self, e: ast.AST, at: int | None = None, depth: int = 6) -> tuple[Seg, ...] | None:
        if at is None:
            at = self.cfg.node_of(e)
        if isinstance(e, ast.Name):
            return self._name(e, at, depth)
        if isinstance(e, ast.Attribute):
            return (("all", unparse(e)),)
        if isinstance(e, (ast.Tuple, ast.List)):
            out: list[Seg] = []
            for x in e.elts:
                if isinstance(x, ast.Starred):
                    s = self.eval(x.value, at, depth)
                    if s is None:
                        return None
                    out.extend(s)
                else:
                    out.append(("elem", self._elem(x, at)))
            return tuple(out)
        if isinstance(e, ast.Call):
            f = unparse(e.func)
            if f in WRAPPERS and len(e.args) == 1 and not e.keywords:
                return self.eval(e.args[0], at, depth)
            if f in CHAINS and not e.keywords:
                out = []
                for a in e.args:
                    s = self.eval(a, at, depth)
                    if s is None:
                        return None
                    out.extend(s)
                return tuple(out)
            return None
        if isinstance(e, ast.BinOp) and isinstance(e.op, ast.Add):
            l, r = self.eval(e.left, at, depth), self.eval(e.right, at, depth)
            return None if l is None or r is None else l + r
        if isinstance(e, ast.Subscript) and isinstance(e.slice, ast.Slice) and e.slice.step is None:
            b = self.eval(e.value, at, depth)
            lo, hi = self._bound(e.slice.lower, at), self._bound(e.slice.upper, at)
            if b is not None and len(b) == 3 and b[0][0] == "slice" and b[0][2] is None and b[1][0] == "elem" and hi is None:
                # (X[:k] + [v] + REST)[k + 1:] == REST ;  [k:] == [v] + REST   (0 <= k <= len(X) is the caller's obligation)
                k = b[0][3]
                if lo == f"{k} + 1":
                    return (b[2],)
                if lo == k:
                    return (b[1], b[2])
            if b is None or len(b) != 1 or b[0][0] != "all":
                return None
            if lo in ("0",):
                lo = None
            if lo is None and hi is None:
                return b
            return (("slice", b[0][1], lo, hi),)
        return None


def show(segs: tuple[Seg, ...] | None) -> str:
    if segs is None:
        return "<not a sequence term>"
    parts = []
    for s in segs:
        if s[0] == "all":
            parts.append(s[1])
        elif s[0] == "slice":
            parts.append(f"{s[1]}[{s[2] or ''}:{s[3] or ''}]")
        else:
            parts.append(f"[{s[1]}]")
    return " + ".join(parts) or "()"


def replaced_at(base: str, k: str, v: str) -> tuple[Seg, ...]:
    return (("slice", base, None, k), ("elem", v), ("slice", base, f"{k} + 1", None))


def inserted_at(base: str, k: str, v: str) -> tuple[Seg, ...]:
    return (("slice", base, None, k), ("elem", v), ("slice", base, k, None))


def removed_at(base: str, k: str) -> tuple[Seg, ...]:
    return (("slice", base, None, k), ("slice", base, f"{k} + 1", None))
