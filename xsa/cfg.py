"""Statement-level control-flow graph for one function.

Nodes: simple statements; the test of if/while; the head of for; with-enter; match subject and
one node per case pattern; except-handler entry.  Exits: EXIT (return / fall-through) and RAISE
(explicit raise / failed assert that no enclosing try catches).  Implicit exceptions are modelled
only inside `try` bodies (every node of the body may jump to each handler).
"""

from __future__ import annotations

import ast
from dataclasses import dataclass, field
from typing import Callable

from .astutil import FUNC_NODES, call_attr
from .srcindex import AnalysisError

NORETURN_CALLS = {"raise_error", "_raise_error"}


@dataclass
class Node:
    id: int
    kind: str  # stmt | test | for | with | match | case | handler | entry | exit | raise
    ast: ast.AST | None
    stmt: ast.AST | None = None  # enclosing compound statement for test/for/with nodes

    @property
    def lineno(self) -> int:
        return getattr(self.ast, "lineno", 0) if self.ast is not None else 0

    def text(self) -> str:
        if self.ast is None:
            return f"<{self.kind}>"
        try:
            s = ast.unparse(self.ast)
        except Exception:
            s = "?"
        s = s.split("\n")[0]
        return f"{self.kind}@{self.lineno}: {s[:90]}"


@dataclass
class _Ctx:
    break_to: list[int] = field(default_factory=list)
    continue_to: list[int] = field(default_factory=list)
    handlers: list[list[int]] = field(default_factory=list)  # stack of handler-entry node ids
    finallies: list[list[int]] = field(default_factory=list)  # per enclosing try/finally: the `return` nodes that leave through it


class CFG:
    def __init__(self, fn: ast.FunctionDef | ast.AsyncFunctionDef):
        self.fn = fn
        self.nodes: list[Node] = []
        self.succ: dict[int, list[tuple[int, str | None]]] = {}
        self.pred: dict[int, list[int]] = {}
        self.owner: dict[int, int] = {}  # id(ast node) -> cfg node id
        self.entry = self._new("entry", None)
        self.exit = self._new("exit", None)
        self.raise_exit = self._new("raise", None)
        ctx = _Ctx()
        tails = self._block(fn.body, [(self.entry, None)], ctx)
        for t, lab in tails:
            self._edge(t, self.exit, lab)

    # ------------------------------------------------------------------ construction
    def _new(self, kind: str, a: ast.AST | None, stmt: ast.AST | None = None) -> int:
        n = Node(len(self.nodes), kind, a, stmt)
        self.nodes.append(n)
        self.succ[n.id] = []
        self.pred[n.id] = []
        if a is not None:
            self._own(a, n.id)
        return n.id

    def _own(self, a: ast.AST, nid: int) -> None:
        """Map `a` and its sub-expressions to cfg node nid (heads only for compound statements)."""
        if isinstance(a, (ast.For, ast.AsyncFor)):
            roots: list[ast.AST] = [a.target, a.iter]
        elif isinstance(a, (ast.With, ast.AsyncWith)):
            roots = list(a.items)
        elif isinstance(a, ast.ExceptHandler):
            roots = [a.type] if a.type is not None else []
        else:
            roots = [a]
        self.owner.setdefault(id(a), nid)
        for r in roots:
            for x in ast.walk(r):
                self.owner.setdefault(id(x), nid)

    def _edge(self, a: int, b: int, label: str | None = None) -> None:
        if (b, label) not in self.succ[a]:
            self.succ[a].append((b, label))
            self.pred[b].append(a)

    def _connect(self, tails: list[tuple[int, str | None]], b: int) -> None:
        for t, lab in tails:
            self._edge(t, b, lab)

    def _raise_targets(self, ctx: _Ctx) -> list[int]:
        if ctx.handlers:
            return ctx.handlers[-1] + ([] if self._catches_all(ctx) else [self.raise_exit])
        return [self.raise_exit]

    def _catches_all(self, ctx: _Ctx) -> bool:
        return False

    def _block(self, body: list[ast.stmt], tails, ctx: _Ctx):
        for st in body:
            tails = self._stmt(st, tails, ctx)
        return tails

    def _stmt(self, st: ast.stmt, tails, ctx: _Ctx):
        if not tails:
            # unreachable code: still build nodes so that lookups work, but leave them unconnected
            pass
        if isinstance(st, ast.If):
            t = self._new("test", st.test, st)
            self.owner.setdefault(id(st), t)
            self._connect(tails, t)
            self._maybe_exc(t, ctx)
            a = self._block(st.body, [(t, "T")], ctx)
            b = self._block(st.orelse, [(t, "F")], ctx) if st.orelse else [(t, "F")]
            return a + b
        if isinstance(st, ast.While):
            t = self._new("test", st.test, st)
            self.owner.setdefault(id(st), t)
            self._connect(tails, t)
            self._maybe_exc(t, ctx)
            ctx.break_to.append(-1)
            ctx.continue_to.append(t)
            brk_mark = len(self._breaks)
            body_tails = self._block(st.body, [(t, "T")], ctx)
            self._connect(body_tails, t)
            ctx.break_to.pop()
            ctx.continue_to.pop()
            breaks = self._breaks[brk_mark:]
            del self._breaks[brk_mark:]
            is_true = isinstance(st.test, ast.Constant) and st.test.value is True
            out = [] if is_true else [(t, "F")]
            if st.orelse and not is_true:
                out = self._block(st.orelse, out, ctx)
            return out + [(b, None) for b in breaks]
        if isinstance(st, (ast.For, ast.AsyncFor)):
            h = self._new("for", st, st)
            # the head owns target and iter only
            self._connect(tails, h)
            self._maybe_exc(h, ctx)
            ctx.break_to.append(-1)
            ctx.continue_to.append(h)
            brk_mark = len(self._breaks)
            body_tails = self._block(st.body, [(h, "T")], ctx)
            self._connect(body_tails, h)
            ctx.break_to.pop()
            ctx.continue_to.pop()
            breaks = self._breaks[brk_mark:]
            del self._breaks[brk_mark:]
            out = [(h, "F")]
            if st.orelse:
                out = self._block(st.orelse, out, ctx)
            return out + [(b, None) for b in breaks]
        if isinstance(st, (ast.With, ast.AsyncWith)):
            w = self._new("with", st, st)
            self._connect(tails, w)
            self._maybe_exc(w, ctx)
            return self._block(st.body, [(w, None)], ctx)
        if isinstance(st, ast.Try) or st.__class__.__name__ == "TryStar":
            hentries = []
            for h in st.handlers:
                hentries.append(self._new("handler", h, st))
            if st.finalbody:
                ctx.finallies.append([])
            ctx.handlers.append(hentries)
            first_mark = len(self.nodes)
            body_tails = self._block(st.body, tails, ctx)
            ctx.handlers.pop()
            # any node created in the body may raise into each handler; so may the state before the body
            for nid in range(first_mark, len(self.nodes)):
                if self.nodes[nid].kind in ("stmt", "test", "for", "with", "match", "case") and _may_raise(self.nodes[nid]):
                    for he in hentries:
                        self._edge(nid, he, "exc")
            for t, _ in tails:
                pass
            else_tails = self._block(st.orelse, body_tails, ctx) if st.orelse else body_tails
            out = list(else_tails)
            for h, he in zip(st.handlers, hentries):
                out += self._block(h.body, [(he, None)], ctx)
            if st.finalbody:
                # finally is executed on the normal path and by every `return` of the body / handlers (one shared copy
                # of the final body: its tails continue after the try and, when a return came through, also leave the
                # function -- an over-approximation of the paths).  Exceptional paths through finally are not modelled.
                leaving = ctx.finallies.pop()
                out = self._block(st.finalbody, out + [(r, None) for r in leaving], ctx)
                if leaving:
                    if ctx.finallies:
                        ctx.finallies[-1].extend(t for t, _ in out)
                    else:
                        for t, lab in out:
                            self._edge(t, self.exit, lab)
            return out
        if isinstance(st, ast.Match):
            m = self._new("match", st.subject, st)
            self.owner.setdefault(id(st), m)
            self._connect(tails, m)
            self._maybe_exc(m, ctx)
            out = []
            prev: list[tuple[int, str | None]] = [(m, None)]
            exhaustive = False
            for c in st.cases:
                cn = self._new("case", c.pattern, st)
                if c.guard is not None:
                    self._own(c.guard, cn)
                self._connect(prev, cn)
                out += self._block(c.body, [(cn, "T")], ctx)
                prev = [(cn, "F")]
                if c.guard is None and isinstance(c.pattern, ast.MatchAs) and c.pattern.pattern is None:
                    exhaustive = True
                    prev = []
            return out + prev
        # ---- simple statements
        if isinstance(st, (ast.FunctionDef, ast.AsyncFunctionDef, ast.ClassDef)):
            n = self._new("stmt", None)
            self.nodes[n].ast = st
            self.owner[id(st)] = n
            self._connect(tails, n)
            return [(n, None)]
        n = self._new("stmt", st)
        self._connect(tails, n)
        if isinstance(st, ast.Return):
            self._maybe_exc(n, ctx)
            if ctx.finallies:
                ctx.finallies[-1].append(n)
            else:
                self._edge(n, self.exit)
            return []
        if isinstance(st, ast.Raise):
            for tgt in self._raise_targets(ctx):
                self._edge(n, tgt, "exc")
            return []
        if isinstance(st, ast.Break):
            self._breaks.append(n)
            return []
        if isinstance(st, ast.Continue):
            self._edge(n, ctx.continue_to[-1])
            return []
        if isinstance(st, ast.Assert):
            for tgt in self._raise_targets(ctx):
                self._edge(n, tgt, "assert")
            return [(n, None)]
        if isinstance(st, ast.Expr) and isinstance(st.value, ast.Call) and call_attr(st.value) in NORETURN_CALLS:
            for tgt in self._raise_targets(ctx):
                self._edge(n, tgt, "exc")
            return []
        self._maybe_exc(n, ctx)
        return [(n, None)]

    _breaks: list[int] = []

    def __new__(cls, *a, **k):
        o = super().__new__(cls)
        o._breaks = []
        return o

    def _maybe_exc(self, n: int, ctx: _Ctx) -> None:
        # edges to handlers are added in bulk by the Try case
        return

    # ------------------------------------------------------------------ queries
    def node_of(self, a: ast.AST) -> int:
        nid = self.owner.get(id(a))
        if nid is None:
            raise AnalysisError(f"AST node at line {getattr(a, 'lineno', '?')} not found in CFG of {self.fn.name}")
        return nid

    def reachable(self, src: int, avoid: Callable[[Node], bool] | None = None, follow_exc: bool = True) -> set[int]:
        """Nodes reachable from src (src excluded unless on a cycle) without passing THROUGH a node
        for which avoid() holds (such nodes are reached but not expanded)."""
        seen: set[int] = set()
        stack = [src]
        first = True
        while stack:
            n = stack.pop()
            if not first:
                if n in seen:
                    continue
                seen.add(n)
                if avoid is not None and avoid(self.nodes[n]):
                    continue
            first = False
            for m, lab in self.succ[n]:
                if not follow_exc and lab in ("exc", "assert"):
                    continue
                if m not in seen:
                    stack.append(m)
        return seen

    def path_avoiding(self, src: int, dst: int, avoid: Callable[[Node], bool], follow_exc: bool = True,
                      edge_ok: Callable[[int, int, str | None], bool] | None = None) -> list[int] | None:
        """A path src -> dst on which no intermediate node satisfies avoid (BFS, shortest), or None."""
        from collections import deque

        prev: dict[int, int | None] = {src: None}
        q = deque([src])
        while q:
            n = q.popleft()
            for m, lab in self.succ[n]:
                if not follow_exc and lab in ("exc", "assert"):
                    continue
                if edge_ok is not None and not edge_ok(n, m, lab):
                    continue
                if m == dst:
                    path = [m, n]
                    while prev[path[-1]] is not None:
                        path.append(prev[path[-1]])
                    return path[::-1]
                if m in prev:
                    continue
                if avoid(self.nodes[m]):
                    continue
                prev[m] = n
                q.append(m)
        return None

    def describe(self, path: list[int]) -> list[str]:
        return [self.nodes[n].text() for n in path]

    def stmt_nodes(self) -> list[Node]:
        return [n for n in self.nodes if n.kind not in ("entry", "exit", "raise")]


def _may_raise(n: Node) -> bool:
    """Can evaluating this node raise (for the purpose of try/except edges)?  Plain name/attribute
    loads and stores, constants and identity tests cannot; calls, subscripts, arithmetic, raise,
    assert, iteration can."""
    a = n.ast
    if a is None:
        return False
    if n.kind in ("for", "with", "match", "case"):
        return True
    for x in ast.walk(a):
        if isinstance(x, (ast.Call, ast.Subscript, ast.BinOp, ast.Raise, ast.Assert, ast.Await, ast.Yield, ast.YieldFrom, ast.Delete, ast.Starred)):
            return True
    return False


def node_has_call(n: Node, names: set[str]) -> bool:
    if n.ast is None:
        return False
    root = n.ast
    if n.kind == "for":
        roots = [root.target, root.iter]  # type: ignore[attr-defined]
    elif n.kind == "with":
        roots = [i.context_expr for i in root.items]  # type: ignore[attr-defined]
    elif n.kind == "handler":
        roots = []
    else:
        roots = [root]
    for r in roots:
        for x in ast.walk(r):
            if isinstance(x, ast.Call) and call_attr(x) in names:
                return True
    return False
