"""Canonical polynomial form of integer expressions (+, -, *, unary -, integer literals, opaque atoms).

Two expressions that are equal as polynomials over their atoms get the same normal form, whatever the order of the
operands, the bracketing or the distribution of products.  Floor division, modulo, calls, attributes and subscripts
are atoms (their operands are canonicalised recursively, so `(a - b) // c` and `(-b + a) // c` are the same atom)."""

from __future__ import annotations

import ast
from fractions import Fraction

Poly = dict  # monomial (sorted tuple of atom texts) -> integer coefficient


def _add(a: Poly, b: Poly, k: int = 1) -> Poly:
    out = dict(a)
    for m, c in b.items():
        out[m] = out.get(m, 0) + k * c
        if out[m] == 0:
            del out[m]
    return out


def _mul(a: Poly, b: Poly) -> Poly:
    out: Poly = {}
    for m1, c1 in a.items():
        for m2, c2 in b.items():
            m = tuple(sorted(m1 + m2))
            out[m] = out.get(m, 0) + c1 * c2
            if out[m] == 0:
                del out[m]
    return out


def show(p: Poly) -> str:
    if not p:
        return "0"
    parts = []
    for m, c in sorted(p.items()):
        body = "*".join(m)
        parts.append(f"{c}" if not m else (body if c == 1 else f"{c}*{body}"))
    return " + ".join(parts)


def poly(e: ast.AST) -> Poly:
    if isinstance(e, ast.Constant) and isinstance(e.value, int) and not isinstance(e.value, bool):
        return {(): e.value} if e.value else {}
    if isinstance(e, ast.UnaryOp) and isinstance(e.op, ast.USub):
        return _add({}, poly(e.operand), -1)
    if isinstance(e, ast.UnaryOp) and isinstance(e.op, ast.UAdd):
        return poly(e.operand)
    if isinstance(e, ast.BinOp):
        if isinstance(e.op, ast.Add):
            return _add(poly(e.left), poly(e.right))
        if isinstance(e.op, ast.Sub):
            return _add(poly(e.left), poly(e.right), -1)
        if isinstance(e.op, ast.Mult):
            return _mul(poly(e.left), poly(e.right))
        if isinstance(e.op, (ast.FloorDiv, ast.Mod)):
            op = "//" if isinstance(e.op, ast.FloorDiv) else "%"
            return {(f"(({show(poly(e.left))}) {op} ({show(poly(e.right))}))",): 1}
    if isinstance(e, ast.Call) and isinstance(e.func, ast.Name) and e.func.id == "len" and len(e.args) == 1:
        return {(f"len({ast.unparse(e.args[0])})",): 1}
    return {(ast.unparse(e),): 1}


def canon(text_or_node) -> str:
    e = ast.parse(text_or_node, mode="eval").body if isinstance(text_or_node, str) else text_or_node
    return show(poly(e))


def equal(a, b) -> bool:
    return canon(a) == canon(b)
