"""C22 — RISC-V backend: lowering-table agreement, abstract evaluation of the comparison templates
over a finite outcome space, branch folding tables, constant materialisation guard, prologue/epilogue pairing."""

from __future__ import annotations

import ast
import re

from ..astutil import alpha_same, call_attr, calls_in, guard_facts, unparse, walk_local
from ..cfg import CFG
from ..dataflow import reaching_defs, resolved_text
from ..report import Finding, Report
from ..srcindex import AnalysisError, Index, raw_funcs
from .c15 import _str_list

LOW = "xdsl/backend/riscv/lowering/convert_arith_to_riscv.py"
AR = "xdsl/dialects/arith.py"
CF = "xdsl/dialects/riscv_cf.py"
PE = "xdsl/backend/riscv/prologue_epilogue_insertion.py"

# reference table: arith op -> RV32IM(FD) instruction class (RISC-V unprivileged ISA, chapters 2, 7, 11, 12)
INT_TABLE = {"AddiOp": "AddOp", "SubiOp": "SubOp", "MuliOp": "MulOp", "DivUIOp": "DivuOp", "DivSIOp": "DivOp", "RemUIOp": "RemuOp", "RemSIOp": "RemOp",
             "AndIOp": "AndOp", "OrIOp": "OrOp", "XOrIOp": "XorOp", "ShLIOp": "SllOp", "ShRUIOp": "SrlOp", "ShRSIOp": "SraOp"}
FLOAT_TABLE = {"AddfOp": "FAdd", "SubfOp": "FSub", "MulfOp": "FMul", "DivfOp": "FDiv", "MinimumfOp": "FMin", "MaximumfOp": "FMax"}

# finite outcome spaces
INT_OUT = frozenset({("eq", "eq"), ("lt", "lt"), ("lt", "gt"), ("gt", "lt"), ("gt", "gt")})  # (signed order, unsigned order)
FLT_OUT = frozenset({"lt", "eq", "gt", "un_l", "un_r", "un_b"})


def int_expected(mn: str) -> frozenset:
    if mn == "eq":
        return frozenset(o for o in INT_OUT if o[0] == "eq")
    if mn == "ne":
        return frozenset(o for o in INT_OUT if o[0] != "eq")
    i = 0 if mn[0] == "s" else 1
    rel = {"lt": {"lt"}, "le": {"lt", "eq"}, "gt": {"gt"}, "ge": {"gt", "eq"}}[mn[1:]]
    return frozenset(o for o in INT_OUT if o[i] in rel)


def flt_expected(mn: str) -> frozenset:
    if mn == "false":
        return frozenset()
    if mn == "true":
        return FLT_OUT
    if mn == "ord":
        return frozenset({"lt", "eq", "gt"})
    if mn == "uno":
        return frozenset({"un_l", "un_r", "un_b"})
    rel = {"eq": {"eq"}, "ne": {"lt", "gt"}, "lt": {"lt"}, "le": {"lt", "eq"}, "gt": {"gt"}, "ge": {"gt", "eq"}}[mn[1:]]
    return frozenset(rel | ({"un_l", "un_r", "un_b"} if mn[0] == "u" else set()))


class Unknown(Exception):
    pass


def eval_case(body: list[ast.stmt], space: frozenset, lhs_name: str = "lhs", rhs_name: str = "rhs") -> frozenset:
    """Abstractly evaluate the instruction construction of one `case` into the set of outcomes on which
    the produced i1 is 1."""
    env: dict[str, object] = {lhs_name: "L", rhs_name: "R"}

    def ev(e: ast.AST):
        if isinstance(e, ast.Name):
            if e.id not in env:
                raise Unknown(e.id)
            return env[e.id]
        if isinstance(e, ast.NamedExpr):
            v = ev(e.value)
            env[e.target.id] = v  # type: ignore[attr-defined]
            return v
        if isinstance(e, ast.Constant):
            return e.value
        if isinstance(e, ast.Attribute):
            return "ZERO" if unparse(e).endswith("Registers.ZERO") else "ATTR:" + unparse(e)
        if isinstance(e, ast.Call):
            nm = unparse(e.func).split(".")[-1]
            args = [ev(a) for a in e.args]
            if nm == "GetRegisterOp":
                return "ZERO" if args and args[0] == "ZERO" else "REG"
            if nm == "LiOp":
                return space if args[0] == 1 else frozenset() if args[0] == 0 else (_ for _ in ()).throw(Unknown("li"))
            if nm in ("SltOp", "SltuOp"):
                i = 0 if nm == "SltOp" else 1
                if args[:2] == ["L", "R"]:
                    return frozenset(o for o in space if o[i] == "lt")
                if args[:2] == ["R", "L"]:
                    return frozenset(o for o in space if o[i] == "gt")
                if nm == "SltuOp" and args[0] == "ZERO" and args[1] == "XOR":
                    return frozenset(o for o in space if o[0] != "eq")
                raise Unknown(unparse(e))
            if nm == "XorOp" and set(args[:2]) == {"L", "R"}:
                return "XOR"
            if nm == "SltiuOp" and args[0] == "XOR" and args[1] == 1:
                return frozenset(o for o in space if o[0] == "eq")
            if nm == "XoriOp" and isinstance(args[0], frozenset) and args[1] == 1:
                return space - args[0]
            if nm in ("OrOp", "AndOp") and all(isinstance(a, frozenset) for a in args[:2]):
                return (args[0] | args[1]) if nm == "OrOp" else (args[0] & args[1])
            m = re.fullmatch(r"F(eq|lt|le)[SD]Op", nm)
            if m:
                rel = {"eq": {"eq"}, "lt": {"lt"}, "le": {"lt", "eq"}}[m.group(1)]
                a, b = args[0], args[1]
                if (a, b) == ("L", "R"):
                    return frozenset(rel)
                if (a, b) == ("R", "L"):
                    return frozenset({"lt": "gt", "gt": "lt", "eq": "eq"}[x] for x in rel)
                if (a, b) == ("L", "L") and m.group(1) == "eq":
                    return frozenset(space - {"un_l", "un_b"})
                if (a, b) == ("R", "R") and m.group(1) == "eq":
                    return frozenset(space - {"un_r", "un_b"})
                raise Unknown(unparse(e))
            raise Unknown(unparse(e))
        raise Unknown(unparse(e))

    result = None
    for s in body:
        if isinstance(s, ast.Assign) and isinstance(s.targets[0], ast.Name):
            env[s.targets[0].id] = ev(s.value)
        elif isinstance(s, ast.Expr) and isinstance(s.value, ast.Call) and unparse(s.value.func) == "rewriter.replace":
            lst = s.value.args[1]
            if not isinstance(lst, (ast.List, ast.Tuple)) or not lst.elts:
                raise Unknown(unparse(lst))
            vals = [ev(x) for x in lst.elts]
            result = vals[-1]
        elif isinstance(s, ast.Raise):
            raise Unknown("raise")
        else:
            raise Unknown(unparse(s)[:40])
    if not isinstance(result, frozenset):
        raise Unknown("no result")
    return result


def _specialise(body: list[ast.stmt], env: dict[str, ast.expr], tables: dict[str, dict]) -> list[ast.stmt]:
    """Partial evaluation of a case body for one key of a literal table: `T[p]` -> the row, literal tuple unpacking
    bound into the environment, constant conditional expressions / if statements folded."""
    import copy

    env = dict(env)

    class Sub(ast.NodeTransformer):
        def visit_Subscript(self, node: ast.Subscript):
            self.generic_visit(node)
            if isinstance(node.value, ast.Name) and node.value.id in tables and isinstance(node.slice, ast.Constant) and node.slice.value in tables[node.value.id]:
                return copy.deepcopy(tables[node.value.id][node.slice.value])
            return node

        def visit_Name(self, node: ast.Name):
            if isinstance(node.ctx, ast.Load) and node.id in env:
                return copy.deepcopy(env[node.id])
            return node

        def visit_IfExp(self, node: ast.IfExp):
            self.generic_visit(node)
            if isinstance(node.test, ast.Constant) and isinstance(node.test.value, bool):
                return node.body if node.test.value else node.orelse
            return node

        def visit_Compare(self, node: ast.Compare):
            self.generic_visit(node)
            if len(node.ops) != 1 or not isinstance(node.left, ast.Constant):
                return node
            op_, rhs_ = node.ops[0], node.comparators[0]
            if isinstance(rhs_, ast.Constant) and isinstance(op_, (ast.Eq, ast.NotEq, ast.Is, ast.IsNot)):
                eq = node.left.value == rhs_.value
                return ast.copy_location(ast.Constant(eq if isinstance(op_, (ast.Eq, ast.Is)) else not eq), node)
            if isinstance(op_, (ast.In, ast.NotIn)):
                keys = None
                if isinstance(rhs_, ast.Name) and rhs_.id in tables:
                    keys = set(tables[rhs_.id])
                elif isinstance(rhs_, (ast.Tuple, ast.List, ast.Set)) and all(isinstance(e, ast.Constant) for e in rhs_.elts):
                    keys = {e.value for e in rhs_.elts}  # type: ignore[attr-defined]
                if keys is not None:
                    member = node.left.value in keys
                    return ast.copy_location(ast.Constant(member if isinstance(op_, ast.In) else not member), node)
            return node

        def visit_UnaryOp(self, node: ast.UnaryOp):
            self.generic_visit(node)
            if isinstance(node.op, ast.Not) and isinstance(node.operand, ast.Constant) and isinstance(node.operand.value, bool):
                return ast.copy_location(ast.Constant(not node.operand.value), node)
            return node

        def visit_BoolOp(self, node: ast.BoolOp):
            self.generic_visit(node)
            if all(isinstance(v, ast.Constant) and isinstance(v.value, bool) for v in node.values):
                vs = [v.value for v in node.values]  # type: ignore[attr-defined]
                return ast.copy_location(ast.Constant(all(vs) if isinstance(node.op, ast.And) else any(vs)), node)
            return node

    def run(stmts: list[ast.stmt]) -> list[ast.stmt]:
        out: list[ast.stmt] = []
        for st in stmts:
            st = Sub().visit(copy.deepcopy(st))
            if isinstance(st, ast.Assign) and len(st.targets) == 1 and isinstance(st.targets[0], ast.Tuple) and isinstance(st.value, ast.Tuple) and len(st.targets[0].elts) == len(st.value.elts) and all(isinstance(t_, ast.Name) for t_ in st.targets[0].elts):
                for t_, v_ in zip(st.targets[0].elts, st.value.elts):
                    env[t_.id] = v_
                continue
            if isinstance(st, ast.If) and isinstance(st.test, ast.Constant) and isinstance(st.test.value, bool):
                out.extend(run(st.body if st.test.value else st.orelse))
                continue
            if isinstance(st, ast.If):
                st.body, st.orelse = run(st.body), run(st.orelse)
            out.append(ast.fix_missing_locations(st))
        return out

    return run(body)


def _cases(fn: ast.AST, module_assigns: dict[str, ast.AST] | None = None) -> dict[int, list[ast.stmt]]:
    out = {}
    module_assigns = module_assigns or {}
    for m in [n for n in walk_local(fn) if isinstance(n, ast.Match) and unparse(n.subject) == "op.predicate.value.data"]:
        for c in m.cases:
            pats = c.pattern.patterns if isinstance(c.pattern, ast.MatchOr) else [c.pattern]
            if all(isinstance(p_, ast.MatchValue) and isinstance(p_.value, ast.Constant) for p_ in pats) and c.guard is None:
                for p_ in pats:
                    out[p_.value.value] = c.body  # type: ignore[attr-defined]
            elif isinstance(c.pattern, ast.MatchAs) and c.pattern.pattern is None and c.pattern.name is None and c.guard is None:
                continue  # default case
            elif isinstance(c.pattern, ast.MatchAs) and c.pattern.pattern is None and c.pattern.name is not None and isinstance(c.guard, ast.Compare) and len(c.guard.ops) == 1 and isinstance(c.guard.ops[0], ast.In) and unparse(c.guard.left) == c.pattern.name and isinstance(c.guard.comparators[0], ast.Name) and isinstance(module_assigns.get(c.guard.comparators[0].id), ast.Dict):
                tname = c.guard.comparators[0].id
                d_ = module_assigns[tname]
                if not all(isinstance(k_, ast.Constant) and isinstance(k_.value, int) for k_ in d_.keys):  # type: ignore[union-attr]
                    raise AnalysisError(f"case `{unparse(c.pattern)} if {unparse(c.guard)}`: keys of {tname} are not integer literals")
                table = {k_.value: v_ for k_, v_ in zip(d_.keys, d_.values)}  # type: ignore[union-attr]
                for key in table:
                    out[key] = _specialise(c.body, {c.pattern.name: ast.Constant(key)}, {tname: table})
            else:
                raise AnalysisError(f"case `{unparse(c.pattern)}`{' if ' + unparse(c.guard) if c.guard is not None else ''} of the predicate dispatch is not a literal predicate number (nor a guarded lookup in a literal table)")
    if out:
        return out
    # no match statement: an if-chain on the predicate (possibly through a literal table).  Specialise it for every
    # predicate number: the statements left after folding the tests are that predicate's case.
    pred_names = {"op.predicate.value.data"}
    for st in walk_local(fn):
        if isinstance(st, ast.Assign) and len(st.targets) == 1 and isinstance(st.targets[0], ast.Name) and unparse(st.value) == "op.predicate.value.data":
            pred_names.add(st.targets[0].id)
    chain = [st for st in getattr(fn, "body", []) if isinstance(st, ast.If) and any(unparse(x) in pred_names for x in ast.walk(st.test))]
    if len(chain) != 1:
        return out
    tables = {}
    for tname, d_ in module_assigns.items():
        if isinstance(d_, ast.Dict) and d_.keys and all(isinstance(k_, ast.Constant) and isinstance(k_.value, int) for k_ in d_.keys):
            tables[tname] = {k_.value: v_ for k_, v_ in zip(d_.keys, d_.values)}  # type: ignore[union-attr]
    import copy

    class P(ast.NodeTransformer):
        def __init__(self, k):
            self.k = k

        def visit_Attribute(self, node: ast.Attribute):
            if unparse(node) == "op.predicate.value.data":
                return ast.copy_location(ast.Constant(self.k), node)
            return self.generic_visit(node)

    for k in range(0, 32):
        body = _specialise([P(k).visit(copy.deepcopy(chain[0]))], {n_: ast.Constant(k) for n_ in pred_names if n_.isidentifier()}, tables)
        if any(isinstance(st, ast.If) for st in body):
            out["_undecided"] = out.get("_undecided", []) + [k]  # type: ignore[index]
        elif body and not any(isinstance(x, ast.Raise) for st in body for x in ast.walk(st)):
            out[k] = body
    return out


def _show(s: frozenset) -> str:
    return "{" + ", ".join(sorted("/".join(x) if isinstance(x, tuple) else x for x in s)) + "}"


def check_tables(idx: Index, rep: Report) -> None:
    r = rep.rule("C22.R1", "each arith operation is lowered to the RISC-V instruction of the reference table (signedness included)", floor=15)
    mi = idx.module(LOW)
    seen = set()
    for name, v in mi.assigns.items():
        if isinstance(v, ast.Call) and call_attr(v) in ("LowerBinaryIntegerOp", "LowerBinaryFloatOp"):
            a = unparse(v.args[0]).split(".")[-1]
            outs = [unparse(x).split(".")[-1] for x in v.args[1:]]
            seen.add(a)
            inst = f"{name}:{a}"
            if call_attr(v) == "LowerBinaryIntegerOp":
                want = INT_TABLE.get(a)
                if want is None:
                    r.notes.append(f"{a} has no entry in the reference table (not checked)")
                    continue
                if outs == [want]:
                    r.ok(inst, f"{LOW}: {a} -> riscv.{want}")
                else:
                    r.fail(inst, Finding("C22.R1", f"{mi.name}.{name}", f"lowering:{a}", f"arith.{a} is lowered to riscv.{outs}; the RISC-V instruction with these semantics is riscv.{want}", f"{LOW}:{v.lineno}"))
            else:
                stem = FLOAT_TABLE.get(a)
                if stem is None:
                    continue
                if outs == [f"{stem}SOp", f"{stem}DOp"]:
                    r.ok(inst, f"{LOW}: {a} -> {stem}S / {stem}D")
                else:
                    r.fail(inst, Finding("C22.R1", f"{mi.name}.{name}", f"lowering:{a}", f"arith.{a} is lowered to {outs}; expected ({stem}SOp, {stem}DOp) for f32 / f64", f"{LOW}:{v.lineno}"))
    if len(seen) < 12:
        raise AnalysisError(f"only {len(seen)} table-driven lowerings found")


def check_cmp(idx: Index, rep: Report) -> None:
    r = rep.rule("C22.R2", "for each predicate the emitted comparison template computes, on every outcome of the operand order, the relation named by the dialect's mnemonic", floor=26)
    cmpi = _str_list(idx, AR, "CMPI_COMPARISON_OPERATIONS")
    cmpf = _str_list(idx, AR, "CMPF_COMPARISON_OPERATIONS")
    for q, names, space, expected in (("LowerArithCmpi.match_and_rewrite", cmpi, INT_OUT, int_expected), ("LowerArithCmpf.match_and_rewrite", cmpf, FLT_OUT, flt_expected)):
        f = idx.func(LOW, q)
        binds_ = [s_ for s_ in walk_local(f.node) if isinstance(s_, ast.Assign) and isinstance(s_.targets[0], ast.Tuple) and len(s_.targets[0].elts) == 2 and all(isinstance(e_, ast.Name) for e_ in s_.targets[0].elts) and isinstance(s_.value, ast.Call) and unparse(s_.value) == f"cast_operands_to_regs({f.node.args.args[2].arg}, {f.node.args.args[1].arg})"]
        if len(binds_) != 1:
            raise AnalysisError(f"{f.fq}: operand binding not recognised")
        ln_, rn_ = (e_.id for e_ in binds_[0].targets[0].elts)  # type: ignore[union-attr]
        cases = _cases(f.node, getattr(f.module, "assigns", {}))
        kind = "cmpi" if "Cmpi" in q else "cmpf"
        for k, mn in enumerate(names):
            inst = f"{kind}:{k}:{mn}"
            if k not in cases and (not any(isinstance(k_, int) for k_ in cases) or k in cases.get("_undecided", [])):
                raise AnalysisError(f"{f.fq}: the dispatch on the predicate was not recognised (no case found for predicate {k})")
            if k not in cases:
                r.fail(inst, Finding("C22.R2", f.fq, f"{kind}-unimplemented:{mn}", f"predicate {k} ({mn}) is not lowered (NotImplementedError)", f.loc))
                continue
            try:
                got = eval_case(cases[k], space, ln_, rn_)
            except Unknown as e:
                raise AnalysisError(f"{f.fq}: case {k} ({mn}) uses a construction the evaluator does not know: {e}")
            want = expected(mn)
            if got == want:
                r.ok(inst, f"{f.loc} case {k} ({mn}) = {_show(got)}")
            else:
                others = [m2 for m2 in names if expected(m2) == got]
                r.fail(inst, Finding("C22.R2", f.fq, f"{kind}-template:{mn}", f"case {k} ({mn}) emits a template that is 1 on {_show(got)}{' = ' + others[0] if others else ''}; `{mn}` must be 1 on {_show(want)}", f.loc))


def check_branch_folding(idx: Index, rep: Report) -> None:
    r = rep.rule("C22.R3", "constant folding of conditional branches: signed branches compare to_signed values, unsigned ones to_unsigned values, with the operator of the mnemonic", floor=6)
    table = {"BeqOp": (None, "=="), "BneOp": (None, "!="), "BltOp": ("to_signed", "<"), "BgeOp": ("to_signed", ">="), "BltuOp": ("to_unsigned", "<"), "BgeuOp": ("to_unsigned", ">=")}
    for cname, (norm, op) in table.items():
        c = idx.cls(CF, cname)
        m = c.method("const_evaluate")
        if m is None:
            raise AnalysisError(f"{cname}.const_evaluate not found")
        body = [unparse(s) for s in m.node.body]
        a, b, w = (x.arg for x in m.node.args.args[1:4])
        norms = [norm] if norm else ["to_signed", "to_unsigned"]
        flipped = {"<": ">", "<=": ">=", ">": "<", ">=": "<=", "==": "==", "!=": "!="}[op]
        body_ = [s_ for s_ in m.node.body if not (isinstance(s_, ast.Expr) and isinstance(s_.value, ast.Constant))]
        ok = any(alpha_same(body_, f"lhs = {n}({a}, {w})\nrhs = {n}({b}, {w})\nreturn lhs {op} rhs") or alpha_same(body_, f"lhs = {n}({a}, {w})\nrhs = {n}({b}, {w})\nreturn rhs {flipped} lhs") for n in norms)
        if ok:
            r.ok(c.fq, f"{m.loc} {cname}: {norm or 'normalised'} lhs {op} rhs")
        else:
            r.fail(c.fq, Finding("C22.R3", m.fq, f"branch-fold:{cname}", f"{cname}.const_evaluate is `{'; '.join(body)}`; {cname[:-2].lower()} compares {'signed' if norm == 'to_signed' else 'unsigned' if norm else 'equal-width'} values with `{op}`: a loop guard with constant bounds of different signs is folded the wrong way", m.loc))


def check_constants(idx: Index, rep: Report) -> None:
    r = rep.rule("C22.R4", "an f64 constant is materialised through `li` + signed int-to-double conversion only inside the signed 32-bit range", floor=1)
    f = idx.func(LOW, "LowerArithConstant.match_and_rewrite")
    cfg = CFG(f.node)
    cv = [c for c in calls_in(f.node) if call_attr(c) == "FCvtDWOp"]
    if not cv:
        raise AnalysisError(f"{f.fq}: fcvt.d.w materialisation not found")
    for c in cv:
        facts = [re.sub(r"\s+", " ", resolved_text(cfg, t, cfg.node_of(t))) for t, p in guard_facts(f.node, c) if p]
        ok = any("signed_lower_bound(32) <=" in t and "< signed_upper_bound(32)" in t for t in facts) and any("is_integer()" in t for t in facts)
        # int -> double conversion yields +0.0 for 0: the float -0.0 (is_integer(), int() == 0) must not take this path
        allf = [re.sub(r"\s+", " ", resolved_text(cfg, t, cfg.node_of(t))) + ("" if p else " :F") for t, p in guard_facts(f.node, c)]
        sign_kept = any(re.search(r"copysign\(|signbit|!= 0\b|!= 0\.0|\.hex\(\)|struct\.pack|convert_f64_to_u64|!= -0\.0|> 0|is_negative_zero|str\(|repr\(", t) for t in allf)
        if ok and not sign_kept:
            r.fail(f.fq + ":negzero", Finding("C22.R4", f.fq, "negative-zero", f"`li` + `fcvt.d.w` is used for every whole number in the signed 32-bit range (guards: {facts[-2:]}), which includes -0.0 (`(-0.0).is_integer()`, `int(-0.0) == 0`): the conversion of the integer 0 yields +0.0, so `arith.constant -0.0 : f64` loses its sign (1.0 / c is +inf instead of -inf)", f"{LOW}:{c.lineno}"))
        elif ok:
            r.ok(f.fq + ":negzero", f"{f.loc} -0.0 is kept off the integer path")
        if ok:
            r.ok(f.fq, f"{f.loc} guarded by is_integer() and signed_lower_bound(32) <= v < signed_upper_bound(32)")
        else:
            r.fail(f.fq, Finding("C22.R4", f.fq, "fcvt-range", f"`fcvt.d.w` reads the register as a signed 32-bit integer, but the guard is {facts[-1:] or '(none)'}: whole numbers in [2**31, 2**32) would be materialised as value - 2**32", f"{LOW}:{c.lineno}"))


def _eval_index_pred(e: ast.AST, var: str, universe=range(0, 32)) -> set[int] | None:
    """Indices in `universe` for which a boolean expression over the integer `var` holds (comparisons and chains,
    `in` tuples / sets / range(...), and / or / not); None when the expression has another shape."""
    def val(x, i):
        if unparse(x) == var:
            return i
        if isinstance(x, ast.Constant) and isinstance(x.value, int):
            return x.value
        raise ValueError

    def cont(x):
        if isinstance(x, (ast.Tuple, ast.List, ast.Set)):
            return {k.value for k in x.elts if isinstance(k, ast.Constant)} if all(isinstance(k, ast.Constant) for k in x.elts) else None
        if isinstance(x, ast.Call) and unparse(x.func) == "range" and all(isinstance(a_, ast.Constant) for a_ in x.args):
            return set(range(*[a_.value for a_ in x.args]))
        return None

    def ev(x, i):
        if isinstance(x, ast.BoolOp):
            vs = [ev(v_, i) for v_ in x.values]
            return all(vs) if isinstance(x.op, ast.And) else any(vs)
        if isinstance(x, ast.UnaryOp) and isinstance(x.op, ast.Not):
            return not ev(x.operand, i)
        if isinstance(x, ast.Compare):
            left = x.left
            for op, right in zip(x.ops, x.comparators):
                if isinstance(op, (ast.In, ast.NotIn)):
                    c_ = cont(right)
                    if c_ is None:
                        raise ValueError
                    ok = (val(left, i) in c_) == isinstance(op, ast.In)
                else:
                    a_, b_ = val(left, i), val(right, i)
                    ok = {ast.Lt: a_ < b_, ast.LtE: a_ <= b_, ast.Gt: a_ > b_, ast.GtE: a_ >= b_, ast.Eq: a_ == b_, ast.NotEq: a_ != b_}[type(op)]
                if not ok:
                    return False
                left = right
            return True
        raise ValueError

    try:
        return {i for i in universe if ev(e, i)}
    except (ValueError, KeyError):
        return None


S_INDICES = {8, 9} | set(range(18, 28))  # s0/fp, s1, s2-s11 (and fs0, fs1, fs2-fs11 in the float file)


def check_prologue(idx: Index, rep: Report) -> None:
    r = rep.rule("C22.R5", "prologue and epilogue iterate the same register collection with the same offset progression, sp is adjusted by -size / +size, every return gets an epilogue", floor=4)
    f = idx.func(PE, "PrologueEpilogueInsertion._process_function")
    t = unparse(f.node)
    cfg = CFG(f.node)
    from ..setbuild import describe as describe_set

    def op_loop(names: set[str]):
        ls = [w for w in walk_local(f.node) if isinstance(w, ast.For) and any(call_attr(c) in names for c in calls_in(w)) and not any(isinstance(x, ast.For) and x is not w and any(call_attr(c) in names for c in calls_in(x)) for x in ast.walk(w))]
        return ls

    saves, restores = op_loop({"SwOp", "FSdOp"}), op_loop({"LwOp", "FLdOp"})
    if len(saves) != 1 or len(restores) != 1:
        raise AnalysisError(f"{f.fq}: save loop (sw / fsd) and restore loop (lw / fld) not found ({len(saves)}/{len(restores)})")
    save, restore = saves[0], restores[0]
    c1, c2 = resolved_text(cfg, save.iter, cfg.node_of(save)), resolved_text(cfg, restore.iter, cfg.node_of(restore))
    if c1 != c2:
        r.fail(f.fq + ":loops", Finding("C22.R5", f.fq, "save-restore-collections", f"the save loop iterates `{c1}` and the restore loop `{c2}`: registers are saved and restored from different (reg, slot) assignments", f.loc))
        return

    def signature(w: ast.For, ints: str, flts: str):
        """(how the slot offset of the current register is obtained, register-class dispatch)"""
        tgt_names = [y.id for y in ast.walk(w.target) if isinstance(y, ast.Name)]
        reg = tgt_names[0]
        imms = set()
        kinds = {}
        for c in calls_in(w):
            if call_attr(c) in (ints, flts):
                kw = {k.arg: unparse(k.value) for k in c.keywords}
                imms.add(kw.get("immediate", unparse(c.args[2]) if len(c.args) > 2 else "?"))
                facts = {(unparse(t_), p_) for t_, p_ in guard_facts(f.node, c)}
                kinds[call_attr(c)] = ("int" if (f"isinstance({reg}, IntRegisterType)", True) in facts or (f"isinstance({reg}, FloatRegisterType)", False) in facts else "float" if (f"isinstance({reg}, IntRegisterType)", False) in facts or (f"isinstance({reg}, FloatRegisterType)", True) in facts else "?")
        if len(imms) != 1:
            return None
        imm = next(iter(imms))
        if imm in tgt_names[1:]:
            how = ("slot-of-pair", tgt_names.index(imm))
        else:
            init = [unparse(v_) for _, v_ in reaching_defs(cfg, imm, cfg.node_of(w)) if v_ is not None] if re.fullmatch(r"\w+", imm) else []
            incs = [unparse(s_.value).replace(reg, "_r") for s_ in walk_local(w) if isinstance(s_, ast.AugAssign) and isinstance(s_.op, ast.Add) and unparse(s_.target) == imm]
            how = ("running", tuple(sorted(set(init))), tuple(incs))
        return how, (kinds.get(ints), kinds.get(flts))

    s1, s2 = signature(save, "SwOp", "FSdOp"), signature(restore, "LwOp", "FLdOp")
    if s1 is None or s2 is None:
        raise AnalysisError(f"{f.fq}: slot offsets of the save / restore loops not understood")
    if s1 == s2 and s1[1] == ("int", "float") and (s1[0][0] == "slot-of-pair" or (s1[0][1] == ("0",) and len(s1[0][2]) == 1)):
        r.ok(f.fq + ":loops", f"{f.loc} sw/fsd and lw/fld over `{c1}` with the same slots ({s1[0][0]})")
    else:
        r.fail(f.fq + ":loops", Finding("C22.R5", f.fq, "save-restore-shape", f"the save and restore loops do not mirror each other: slot / class dispatch {s1} vs {s2} (each register must be stored to and loaded from the same offset with the instruction of its class, offsets starting at 0 and advancing by the register size)", f.loc))
    # stack pointer adjustments
    adj = [c for c in calls_in(f.node) if call_attr(c) == "AddiOp" and len(c.args) >= 2 and any(k.arg == "rd" and unparse(k.value) == "Registers.SP" for k in c.keywords)]
    amounts = [resolved_text(cfg, c.args[1], cfg.node_of(c)) for c in adj]
    neg = [a_ for a_ in amounts if a_.startswith("-")]
    pos = [a_ for a_ in amounts if not a_.startswith("-")]
    if len(neg) == 1 and len(pos) == 1 and (neg[0][1:].strip("()") == pos[0].strip("()")):
        r.ok(f.fq + ":sp", f"{f.loc} sp -= size in the prologue, sp += size in every epilogue")
    else:
        r.fail(f.fq + ":sp", Finding("C22.R5", f.fq, "sp-adjustment", f"stack pointer adjustments are {amounts}; expected -S in the prologue and +S in the epilogue for the same S", f.loc))
    if "for block in func.body.blocks" in t and "isinstance(ret_op, riscv_func.ReturnOp)" in t:
        r.ok(f.fq + ":returns", f"{f.loc} an epilogue before the ReturnOp of every block")
    else:
        r.fail(f.fq + ":returns", Finding("C22.R5", f.fq, "return-without-epilogue", "not every return gets an epilogue", f.loc))
    # which registers are saved: results of any nested operation whose type is one of s0-s11 / fs0-fs11
    dsc = describe_set(f.node, cfg, save.iter, cfg.node_of(save))
    scans = [a_ for a_ in dsc.adds if a_.iters and re.search(r"\.walk\(|\.ops$|\.blocks", a_.iters[0][1])]
    if dsc.unknown or not scans:
        # the collection may be a derived list of (reg, slot) pairs: follow the collection it is built from
        for st_ in walk_local(f.node):
            if isinstance(st_, (ast.Assign, ast.AnnAssign)):
                for tg_ in (st_.targets if isinstance(st_, ast.Assign) else [st_.target]):
                    if isinstance(tg_, ast.Name):
                        d_ = describe_set(f.node, cfg, ast.Name(id=tg_.id, ctx=ast.Load()), cfg.node_of(save))
                        sc_ = [a_ for a_ in d_.adds if a_.iters and re.search(r"\.walk\(|\.ops$|\.blocks", a_.iters[0][1])]
                        if sc_ and not d_.unknown:
                            dsc, scans = d_, sc_
    if not scans:
        raise AnalysisError(f"{f.fq}: how the set of saved registers is collected was not understood")
    iters = [it for ad in scans for it in ad.iters]
    recursive = any(re.fullmatch(r"func(\.body)?\.walk\(.*\)", it_) for _, it_ in iters)
    src_line = save.lineno
    if recursive:
        r.ok(f.fq + ":scan", f"{f.loc} clobber scan over func.walk()")
    else:
        r.fail(f.fq + ":scan", Finding("C22.R5", f.fq, "clobber-scan-not-recursive", f"the callee-saved registers written by the function are collected over {[it_ for _, it_ in iters]}, not over func.walk(): a register written only inside a nested region (riscv_scf.for body, frep body) is neither saved nor restored", f"{f.module.relpath}:{src_line}"))
    facts = scans[0].facts
    member = [t_ for t_, p_ in facts if p_ and re.fullmatch(r"(.+) in Registers\.S or \1 in Registers\.FS|(.+) in Registers\.FS or \2 in Registers\.S", t_)]
    if member:
        r.ok(f.fq + ":set", f"{f.loc} saved set = results typed with s0-s11 / fs0-fs11")
    else:
        # a helper predicate on the register index: evaluate it over all indices
        preds = [c_ for t_, p_ in facts if p_ for c_ in ast.walk(ast.parse(t_, mode="eval")) if isinstance(c_, ast.Call) and isinstance(c_.func, ast.Name) and idx.try_func(PE, c_.func.id) is not None]
        decided = False
        for c_ in preds:
            h = idx.try_func(PE, c_.func.id)
            rets_ = [x for x in walk_local(h.as_raw().node) if isinstance(x, ast.Return) and x.value is not None]
            hcfg = CFG(h.as_raw().node)
            for rt_ in rets_:
                names_ = {unparse(y) for c2_ in ast.walk(rt_.value) if isinstance(c2_, ast.Compare) for y in [c2_.left] + c2_.comparators if isinstance(y, (ast.Name, ast.Attribute))}
                for v_ in sorted(names_):
                    got = _eval_index_pred(rt_.value, v_)
                    if got is not None and got:
                        decided = True
                        if got == S_INDICES:
                            r.ok(f.fq + ":set", f"{f.loc} saved set decided by `{unparse(rt_.value)}` = indices of s0-s11")
                        else:
                            r.fail(f.fq + ":set", Finding("C22.R5", f.fq, "saved-set", f"`{unparse(rt_.value)}` holds for the register indices {sorted(got)}; the callee-saved registers s0-s11 / fs0-fs11 have the indices {sorted(S_INDICES)}: {sorted(S_INDICES - got)} are not saved", f"{h.module.relpath}:{rt_.lineno}"))
        if not decided:
            raise AnalysisError(f"{f.fq}: the test that decides which written registers are callee-saved was not understood ({sorted(t_ for t_, _ in facts)[:3]})")


CANON = "xdsl/transforms/canonicalization_patterns/riscv.py"

# Reference table of algebraic identities on fixed-width two's-complement integers (any width):
# (instruction class, which operand is the constant, constant) -> what the result equals.
#   "other" = the other register operand, "rs1" = the first operand, "zero" = 0.
# A constant on the LEFT of a non-commutative instruction has no identity except where listed.
IDENT_REG = {
    ("AndOp", 1, 0): "zero", ("AndOp", 2, 0): "zero",
    ("OrOp", 1, 0): "other", ("OrOp", 2, 0): "other",
    ("XorOp", 1, 0): "other", ("XorOp", 2, 0): "other",
    ("AddOp", 1, 0): "other", ("AddOp", 2, 0): "other",
    ("MulOp", 1, 1): "other", ("MulOp", 2, 1): "other", ("MulOp", 1, 0): "zero", ("MulOp", 2, 0): "zero",
    ("SubOp", 2, 0): "other",
    ("DivOp", 2, 1): "other", ("DivuOp", 2, 1): "other",
    ("SllOp", 2, 0): "other", ("SrlOp", 2, 0): "other", ("SraOp", 2, 0): "other",
    ("RemOp", 2, 1): "zero", ("RemuOp", 2, 1): "zero",
}
IDENT_IMM = {("AddiOp", 0): "rs1", ("OriOp", 0): "rs1", ("XoriOp", 0): "rs1", ("AndiOp", 0): "zero", ("AndiOp", -1): "rs1",
             ("LiOp", 0): "zero", ("SlliOp", 0): "rs1", ("SrliOp", 0): "rs1", ("SraiOp", 0): "rs1", ("RdRsImmShiftOperation", 0): "rs1"}
IDENT_SAME = {"SubOp": "zero", "XorOp": "zero", "AndOp": "rs1", "OrOp": "rs1"}


def _result_of(call: ast.Call, fn: ast.AST) -> str | None:
    """What does `rewriter.replace(op, X)` put in the destination?  'rs1' / 'rs2' (mv of that operand), 'zero', or None."""
    if len(call.args) < 2:
        return None
    x = call.args[1]
    items = list(x.elts) if isinstance(x, (ast.Tuple, ast.List)) else [x]
    if not items:
        return None
    last = items[-1]
    if isinstance(last, ast.NamedExpr):
        last = last.value
    # resolve a local name bound to the op construction
    if isinstance(last, ast.Name):
        nm = last.id
        for st in ast.walk(fn):
            if isinstance(st, ast.Assign) and len(st.targets) == 1 and isinstance(st.targets[0], ast.Name) and st.targets[0].id == nm:
                last = st.value
    if not isinstance(last, ast.Call):
        return None
    cname = unparse(last.func).split(".")[-1]
    if cname == "MVOp" and last.args:
        a = unparse(last.args[0])
        if a in ("op.rs1", "op.rs2"):
            return a[3:]
        if a.endswith(".res") or a == "zero":
            # mv of a get_register(ZERO) built in the same replacement
            if any("Registers.ZERO" in unparse(i) for i in items[:-1]):
                return "zero"
        return None
    if cname == "LiOp" and last.args and unparse(last.args[0]) == "0":
        return "zero"
    if cname == "GetRegisterOp" and "Registers.ZERO" in unparse(last):
        return "zero"
    return None


def check_identities(idx: Index, rep: Report) -> None:
    r = rep.rule("C22.R6", "RISC-V canonicalization identities: a pattern that replaces an instruction by a move of one operand (or by zero) because another operand is a known constant, or because both operands are the same value, applies an identity of two's-complement arithmetic (reference table)", floor=15)
    mi = idx.module(CANON)
    n = 0
    for c in mi.classes.values():
        m = c.method("match_and_rewrite")
        if m is None:
            continue
        fn = m.node
        ann = unparse(fn.args.args[1].annotation) if fn.args.args[1].annotation is not None else ""
        opcls = ann.split(".")[-1]
        if opcls == "Operation":
            # generic pattern parametrised by an op type field: class name of the field's annotation
            t = unparse(c.node)
            mm = re.search(r"type\[riscv\.(\w+)\[", t)
            opcls = mm.group(1) if mm else ""
        for call in [k for k in calls_in(fn) if call_attr(k) == "replace" and unparse(k.func).startswith("rewriter.")]:
            res = _result_of(call, fn)
            if res is None:
                continue
            facts = [(t, pol) for t, pol in guard_facts(fn, call)]
            # guard kinds
            const_reg = None  # (k, C)
            const_imm = None
            same = False
            other_conds = []
            for t, pol in facts:
                tt = unparse(t)
                mm = re.fullmatch(r"(\w+)\.value\.data == (-?\d+)", tt)
                if pol and mm:
                    nm = mm.group(1)
                    # which operand does the local stand for?  `(rsK := get_constant_value(op.rsK)) is not None`
                    src = None
                    for t2, p2 in facts:
                        m2 = re.fullmatch(rf"\({nm} := get_constant_value\(op\.rs([12])\)\) is not None", unparse(t2))
                        if m2 and p2:
                            src = int(m2.group(1))
                    if src is None and any(p2 and unparse(t2) == f"{nm} is not None" for t2, p2 in facts):
                        # `rsK = get_constant_value(op.rsK)` bound by a plain assignment, then tested
                        bs_ = {unparse(b_.value) for b_ in ast.walk(fn) if (isinstance(b_, ast.Assign) and len(b_.targets) == 1 and unparse(b_.targets[0]) == nm) or (isinstance(b_, ast.NamedExpr) and b_.target.id == nm)}
                        if len(bs_) == 1 and (m3 := re.fullmatch(r"get_constant_value\(op\.rs([12])\)", next(iter(bs_)))):
                            src = int(m3.group(1))
                    if src is not None:
                        const_reg = (src, int(mm.group(2)))
                    continue
                mm = re.fullmatch(r"op\.immediate\.value\.data == (-?\d+)", tt)
                if pol and mm:
                    const_imm = int(mm.group(1))
                    continue
                if pol and tt in ("op.rs1 == op.rs2", "op.rs2 == op.rs1", "op.rs1 is op.rs2"):
                    same = True
                    continue
                if (not pol) and re.fullmatch(r"isinstance\(op\.immediate, IntegerAttr\) and op\.immediate\.value\.data == (-?\d+)", tt):
                    # `if not (... == C): return` form
                    const_imm = int(re.search(r"== (-?\d+)", tt).group(1))
                    # polarity False of a conjunction does not establish the equality: handled below as unknown
                    const_imm = None
                other_conds.append(tt)
            inst = f"{c.name}:{opcls}:{unparse(call)[:40]}"
            loc = f"{CANON}:{call.lineno}"
            want = None
            what = ""
            if const_reg is not None:
                k, C = const_reg
                want = IDENT_REG.get((opcls, k, C))
                what = f"rs{k} == {C}"
                got = "zero" if res == "zero" else ("other" if res == f"rs{3 - k}" else ("zero" if (res == f"rs{k}" and C == 0) else f"rs{k}"))
            elif const_imm is not None:
                want = IDENT_IMM.get((opcls, const_imm))
                what = f"immediate == {const_imm}"
                got = res
            elif same:
                want = IDENT_SAME.get(opcls)
                what = "rs1 == rs2"
                got = "rs1" if res in ("rs1", "rs2") else res
            else:
                continue  # not an identity pattern (constant folding, fusion, ...)
            n += 1
            if want is None:
                r.fail(inst, Finding("C22.R6", c.fq, f"no-identity:{opcls}:{what}", f"{c.name} replaces {opcls} by {'zero' if res == 'zero' else 'a move of ' + res} when {what}; the reference table has no identity for that case (e.g. 0 - x is not x, x / 0 is not x)", loc))
            elif got != want:
                r.fail(inst, Finding("C22.R6", c.fq, f"wrong-identity:{opcls}:{what}", f"{c.name}: when {what}, {opcls} equals {'0' if want == 'zero' else ('the other operand' if want == 'other' else want)}, but the pattern produces {'0' if got == 'zero' else got}", loc))
            else:
                r.ok(inst, f"{loc} {opcls} with {what} -> {want}")
    if n < 15:
        raise AnalysisError(f"only {n} identity patterns recognised in {CANON}")


def check_fusion_values(idx: Index, rep: Report) -> None:
    """Integer patterns that fold constants or fuse an operand's defining instruction into the matched one
    ((a + 4) - a -> 4, x + c -> addi x c, c1 * c2 -> li): the value of the replacement, as a polynomial over the leaf
    values and immediates, must equal the value of the matched instruction under the facts of the path that performs
    the replacement."""
    r = rep.rule("C22.R7", "add/sub/mul canonicalization patterns that fold constants or look through an operand's addi produce an instruction with the same value (polynomial identity over leaf values and immediates, per replacing path)", floor=8)
    from ..astutil import norm_fact
    from ..paths import enum_paths, expand_predicates
    from ..polyform import _add, _mul, poly, show as pshow

    ARITH = {"AddOp": "+", "SubOp": "-", "MulOp": "*"}
    mi = idx.module(CANON)
    n_eval = 0
    for c in mi.classes.values():
        m = c.method("match_and_rewrite")
        if m is None:
            continue
        fn = m.node
        ann = unparse(fn.args.args[1].annotation) if len(fn.args.args) > 1 and fn.args.args[1].annotation is not None else ""
        opcls = ann.split(".")[-1]
        if opcls not in ("AddOp", "SubOp", "MulOp", "AddiOp"):
            continue
        opn = fn.args.args[1].arg
        try:
            paths = expand_predicates(enum_paths(fn), {})
        except AnalysisError:
            continue
        for pth in paths:
            if not pth.feasible():
                continue
            reps_ = [(k, e_) for k, e_ in enumerate(pth.effects) if isinstance(e_, ast.Expr) and isinstance(e_.value, ast.Call) and call_attr(e_.value) == "replace" and unparse(e_.value.func).startswith("rewriter.") and len(e_.value.args) >= 2]
            if not reps_:
                continue
            k, e_ = reps_[0]
            nf = pth.nfacts()
            # match-case consistency: `case int(), None` against the resolved subject tuple
            consistent = True
            for t_, pol in nf:
                mm = re.fullmatch(r"\((.*)\) == '[\(\[](.*)[\)\]]'", t_)
                if not mm or not pol:
                    continue
                try:
                    subj = ast.parse("(" + mm.group(1) + ")", mode="eval").body
                except SyntaxError:
                    continue
                pats = [x.strip() for x in mm.group(2).split(",")]
                if isinstance(subj, ast.Tuple) and len(subj.elts) == len(pats):
                    for se, pt in zip(subj.elts, pats):
                        is_none = isinstance(se, ast.Constant) and se.value is None
                        if (pt == "None" and not is_none) or (pt == "int()" and is_none):
                            consistent = False
            if not consistent:
                continue
            if any(pol and re.fullmatch(r".*\.value\.data is None", t_) for t_, pol in nf):
                continue  # the payload of an integer attribute is an int
            const_of = {}  # operand text -> atom of its constant
            addi_of = set()
            eqs = []  # (text a, text b) operand equalities
            atom_vals = {}  # atom text -> int
            for t_, pol in nf:
                mm = re.fullmatch(r"get_constant_value\((.+)\) is None", t_)
                if mm and not pol:
                    const_of[mm.group(1)] = f"get_constant_value({mm.group(1)}).value.data"
                mm = re.fullmatch(r"isinstance\((.+)\.op, riscv\.AddiOp\)", t_)
                if mm and pol:
                    addi_of.add(mm.group(1))
                mm = re.fullmatch(r"(.+) == (-?\d+)", t_)
                if mm and pol and mm.group(1).endswith(".value.data"):
                    atom_vals[mm.group(1)] = int(mm.group(2))
                mm = re.fullmatch(r"([\w.]+) == ([\w.]+)", t_)
                if mm and pol and not mm.group(2).lstrip("-").isdigit():
                    eqs.append((mm.group(1), mm.group(2)))
            # union-find over operand texts
            parent = {}

            def find(x):
                parent.setdefault(x, x)
                while parent[x] != x:
                    x = parent[x]
                return x

            for a_, b_ in eqs:
                parent[find(a_)] = find(b_)

            def atom(txt: str):
                if txt in atom_vals:
                    return {(): atom_vals[txt]} if atom_vals[txt] else {}
                return {(txt,): 1}

            def imm(e: ast.AST):
                """polynomial of an integer-valued Python expression (immediates, constants)"""
                p_ = poly(e)
                out = {}
                for mono, coef in p_.items():
                    term = {(): coef}
                    for a_ in mono:
                        term = _mul(term, atom(a_))
                    out = _add(out, term)
                return out

            def val(txt: str, depth: int = 3):
                """polynomial of the register value denoted by operand expression `txt`"""
                if txt in const_of:
                    return atom(const_of[txt])
                in_eq = any(txt in pr for pr in eqs)
                if txt in addi_of and depth > 0 and not in_eq:
                    return _add(val(f"{txt}.op.rs1", depth - 1), atom(f"{txt}.op.immediate.value.data"))
                return {(f"V[{find(txt)}]",): 1}

            def op_value(call: ast.Call):
                cn = unparse(call.func).split(".")[-1]
                a_ = [pth.res(x, k) for x in call.args]
                if cn == "LiOp" and call.args:
                    return imm(ast.parse(a_[0], mode="eval").body)
                if cn == "MVOp" and call.args:
                    return val(a_[0])
                if cn == "AddiOp" and len(call.args) >= 2:
                    return _add(val(a_[0]), imm(ast.parse(a_[1], mode="eval").body))
                if cn in ARITH and len(call.args) >= 2:
                    l_, r_ = val(a_[0]), val(a_[1])
                    return _add(l_, r_) if cn == "AddOp" else _add(l_, r_, -1) if cn == "SubOp" else _mul(l_, r_)
                return None

            new = e_.value.args[1]
            if isinstance(new, (ast.Tuple, ast.List)):
                continue
            if not isinstance(new, ast.Call):
                continue
            nv = op_value(new)
            if nv is None:
                continue
            if opcls == "AddiOp":
                ov = _add(val(f"{opn}.rs1"), atom(f"{opn}.immediate.value.data"))
            else:
                l_, r_ = val(f"{opn}.rs1"), val(f"{opn}.rs2")
                ov = _add(l_, r_) if opcls == "AddOp" else _add(l_, r_, -1) if opcls == "SubOp" else _mul(l_, r_)
            n_eval += 1
            inst = f"{c.name}:{unparse(new)[:40]}"
            loc = f"{CANON}:{e_.lineno}"
            if pshow(ov) == pshow(nv):
                r.ok(inst, f"{loc} {opcls}: {pshow(ov)}")
            else:
                r.fail(inst, Finding("C22.R7", c.fq, f"fusion-value:{opcls}", f"{c.name} replaces an {opcls} whose value is `{pshow(ov)}` (under the facts of this path) by `{unparse(new)[:70]}`, whose value is `{pshow(nv)}`: the canonicalized program computes a different result", loc))
    if n_eval < 8:
        raise AnalysisError(f"only {n_eval} constant-folding / fusion replacements evaluated in {CANON}")


STRENGTH_OK = {("MulOp", "SlliOp"), ("DivuOp", "SrliOp"), ("RemuOp", "AndiOp")}
STRENGTH_BAD = {
    ("DivOp", "SraiOp"): "div rounds towards zero, srai towards minus infinity: -1 / 2 is 0 but -1 >> 1 is -1",
    ("DivOp", "SrliOp"): "a logical shift of a negative dividend is a large positive number",
    ("RemOp", "AndiOp"): "rem takes the sign of the dividend, the mask is never negative: -1 rem 2 is -1 but -1 & 1 is 1",
    ("DivuOp", "SraiOp"): "divu treats the dividend as unsigned, srai replicates its top bit",
}


def check_strength_reduction(idx: Index, rep: Report) -> None:
    """Replacing a multiplication / division / remainder by a shift or a mask is an identity only for some pairs of
    instructions (reference table): signed division by 2^k is NOT an arithmetic shift."""
    r = rep.rule("C22.R9", "canonicalization patterns that turn mul / div / rem into a shift or a mask use a pair of instructions for which this is an identity of two's-complement arithmetic (reference table)", floor=None)
    mi = idx.module(CANON)
    n = 0
    for c in mi.classes.values():
        m = c.method("match_and_rewrite")
        if m is None or len(m.node.args.args) < 2 or m.node.args.args[1].annotation is None:
            continue
        opcls = unparse(m.node.args.args[1].annotation).split(".")[-1]
        if opcls not in ("MulOp", "DivOp", "DivuOp", "RemOp", "RemuOp"):
            continue
        for k in calls_in(m.node):
            nm = call_attr(k) or (k.func.id if isinstance(k.func, ast.Name) else "")
            if nm in ("SraiOp", "SrliOp", "SlliOp", "AndiOp"):
                n += 1
                inst = f"{c.fq}:{opcls}->{nm}"
                if (opcls, nm) in STRENGTH_OK:
                    r.ok(inst, f"{m.loc} {opcls} -> {nm}")
                elif (opcls, nm) in STRENGTH_BAD:
                    r.fail(inst, Finding("C22.R9", c.fq, f"strength-reduction:{opcls}->{nm}", f"{c.name} replaces {opcls} by `{unparse(k)[:60]}`: {STRENGTH_BAD[(opcls, nm)]}; canonicalization alone changes the result", f"{CANON}:{k.lineno}"))
                else:
                    raise AnalysisError(f"{c.fq}: replacement of {opcls} by {nm} is not in the reviewed strength-reduction table")
    r.ok("patterns scanned", f"{n} strength reductions found in {CANON}")


def check_zero_immediate(idx: Index, rep: Report) -> None:
    """The shift-by-zero canonicalization (`op x, 0 -> mv x`) is attached to the whole shift-immediate format.  It is
    sound only for operations whose result with immediate 0 is rs1: shifts and rotates, not the single-bit
    instructions (bclri / bexti / binvi / bseti) that share the format.  The shape of each py_operation says which is
    which; an operation that is not the identity at 0 must be excluded from the pattern."""
    r = rep.rule("C22.R8", "shift-by-zero canonicalization reaches only shift-immediate operations whose value at immediate 0 is rs1 (shifts, rotates); single-bit instructions are excluded", floor=8)
    pat = idx.func(CANON, "ShiftbyZero.match_and_rewrite")
    ptxt = unparse(pat.node)
    gate = re.search(r"op\.(\w+)", " ".join(unparse(t_) for n_ in walk_local(pat.node) if isinstance(n_, ast.If) for t_ in [n_.test]))
    gates = {m_ for n_ in walk_local(pat.node) if isinstance(n_, ast.If) for m_ in re.findall(r"\bop\.([A-Z_][A-Z_0-9]*)\b", unparse(n_.test))}
    n = 0
    for rel in ("xdsl/dialects/rv32.py", "xdsl/dialects/rv64.py"):
        mi = idx.module(rel)
        for c in mi.classes.values():
            if "name" not in c.class_assigns() or not any(k.name == "RdRsImmShiftOperation" for k in idx.mro(c)):
                continue
            # does the class keep the canonicalization trait of the format (no own `traits = ...`)?
            own_traits = c.class_assigns().get("traits")
            if own_traits is not None and "CanonicalizationPatterns" not in unparse(own_traits):
                continue
            m = c.method("py_operation")
            if m is None:
                continue
            n += 1
            rets = [x for x in walk_local(m.node) if isinstance(x, ast.Return) and x.value is not None]
            cfg = CFG(m.node)
            txt = resolved_text(cfg, rets[-1].value, cfg.node_of(rets[-1])) if rets else ""
            imm = "self.immediate.value.data"
            if re.search(rf"1 << {re.escape(imm)}", txt):
                kind = "single-bit"
            elif re.search(rf"(>>|<<) {re.escape(imm)}\b.*\| .*(<<|>>) \(?\d+ - {re.escape(imm)}\)?", txt):
                kind = "rotate"
            elif re.search(rf"(>>|<<) {re.escape(imm)}\b", txt) and not re.search(rf"{re.escape(imm)}.*{re.escape(imm)}", txt):
                kind = "shift"
            else:
                raise AnalysisError(f"{m.fq}: shape of `{txt[:80]}` not understood (shift / rotate / single-bit)")
            inst = f"{c.fq}:{kind}"
            if kind in ("shift", "rotate"):
                r.ok(inst, f"{m.loc} {c.name}: {kind}, identity at immediate 0")
                continue
            # excluded by a class constant that the pattern tests?
            excluded = any(unparse(c.class_assigns().get(g_)) == "False" for g_ in gates if c.class_assigns().get(g_) is not None)
            if excluded:
                r.ok(inst, f"{m.loc} {c.name}: single-bit instruction, excluded from the pattern by {sorted(gates)}")
            else:
                r.fail(inst, Finding("C22.R8", c.fq, f"zero-immediate-not-identity:{c.name}", f"{c.name} (`{txt[:60]}`) shares the shift-immediate format and therefore the ShiftbyZero canonicalization, but with immediate 0 it computes rs1 {'|' if '|' in txt else '&' if '&' in txt else '^'} ... bit 0, not rs1: `{c.class_assigns()['name'].value if isinstance(c.class_assigns()['name'], ast.Constant) else c.name} %x, 0` is rewritten to `mv %x` and canonicalization changes the result", c.loc))
    if n < 8:
        raise AnalysisError(f"only {n} shift-immediate operations with py_operation found")


def check_arg_register_counters(idx: Index, rep: Report) -> None:
    """The i-th argument of a register class goes to the i-th `a` register of that class (a0.. for integers and pointers,
    fa0.. for floats): the running index must be kept per register *class*, the thing `a_register` is called on - on the
    callee side (block arguments) exactly as on the caller side (a_regs_for_types)."""
    r = rep.rule("C22.R10", "argument registers: the index handed to <register class>.a_register(...) is the running count of that same register class, incremented once per argument, in every function that assigns `a` registers", floor=2)
    UTILS = "xdsl/backend/riscv/lowering/utils.py"
    n = 0
    for f in raw_funcs(idx.module(UTILS)):
        calls = [c for c in calls_in(f.node) if call_attr(c) == "a_register" and len(c.args) == 1 and isinstance(c.func, ast.Attribute)]
        if not calls:
            continue
        cfg = CFG(f.node)
        for c in calls:
            n += 1
            cls_t = resolved_text(cfg, c.func.value, cfg.node_of(c))
            it = resolved_text(cfg, c.args[0], cfg.node_of(c))
            m = re.fullmatch(r"(\w+)\[(.+)\]", it)
            inst = f"{f.fq}:{unparse(c)}"
            if not m:
                raise AnalysisError(f"{f.fq}: index `{it}` of `{unparse(c)}` is not a lookup in a counter")
            cnt, key = m.group(1), m.group(2)
            incs = [s_ for s_ in walk_local(f.node) if isinstance(s_, ast.AugAssign) and isinstance(s_.op, ast.Add) and isinstance(s_.target, ast.Subscript) and unparse(s_.target.value) == cnt]
            inc_keys = {resolved_text(cfg, s_.target.slice, cfg.node_of(s_)) for s_ in incs}
            if key != cls_t or inc_keys != {cls_t}:
                r.fail(inst, Finding("C22.R10", f.fq, f"counter-key:{key}", f"`{unparse(c)}` takes its index from `{cnt}[{key}]` (incremented under {sorted(inc_keys)}), not from the count of the register class `{cls_t}` it is called on: two arguments of the same class whose key differs (an i32 and an index; an f32 and an f64) both get register 0 of that class, while callers number them 0 and 1", f"{UTILS}:{c.lineno}"))
            else:
                r.ok(inst, f"{UTILS}:{c.lineno} {cls_t}.a_register({cnt}[{cls_t}])")
    if n < 2:
        raise AnalysisError(f"only {n} a_register assignments found in {UTILS}")


def check_division_folds(idx: Index, rep: Report) -> None:
    """RISC-V `div` / `rem` round toward zero; Python's `//` and `%` round toward minus infinity.  A canonicalization that
    computes the result of a signed division or remainder from two known operands with the Python operators is off by one
    (and `rem` has the wrong sign) whenever the operands have opposite signs and the division is inexact."""
    r = rep.rule("C22.R11", "no canonicalization pattern of a signed RISC-V division / remainder computes a quotient or remainder with Python's flooring `//` / `%`", floor=None)
    mi = idx.module(CANON)
    n = 0
    for f in raw_funcs(mi):
        if f.name != "match_and_rewrite" or len(f.node.args.args) < 2 or f.node.args.args[1].annotation is None:
            continue
        ann = unparse(f.node.args.args[1].annotation)
        if not re.search(r"\b(Div|Rem)(Op|wOp|WOp)\b|\.(DivOp|RemOp)\b", ann):
            continue
        n += 1
        bad = [x for x in ast.walk(f.node) if isinstance(x, ast.BinOp) and isinstance(x.op, (ast.FloorDiv, ast.Mod)) and not isinstance(x.left, ast.Constant)]
        bad += [c for c in calls_in(f.node) if unparse(c.func) == "divmod"]
        inst = f"{f.fq}"
        if bad:
            x = bad[0]
            r.fail(inst, Finding("C22.R11", f.fq, "floor-division-fold", f"`{unparse(x)[:60]}` folds `{ann}` with Python's flooring operator: riscv.div / rem truncate toward zero, so `div 1, -3` is 0 (and `rem -7, 2` is -1) while the fold produces -1 (and 1)", f"{CANON}:{x.lineno}"))
        else:
            r.ok(inst, f"{f.loc} no flooring arithmetic on the operands")
    rep.extra.setdefault("c22_division_patterns", n)


def check(idx: Index, rep: Report, tier: str) -> str:
    rep.run(check_tables, idx, rep)
    rep.run(check_cmp, idx, rep)
    rep.run(check_branch_folding, idx, rep)
    rep.run(check_constants, idx, rep)
    rep.run(check_prologue, idx, rep)
    rep.run(check_identities, idx, rep)
    rep.run(check_fusion_values, idx, rep)
    rep.run(check_zero_immediate, idx, rep)
    rep.run(check_strength_reduction, idx, rep)
    rep.run(check_arg_register_counters, idx, rep)
    rep.run(check_division_folds, idx, rep)
    return (
        "Reference-table agreement of the table-driven arith->riscv lowerings; exact abstract evaluation of the cmpi / cmpf "
        "instruction templates over the finite outcome spaces (signed x unsigned order; lt/eq/gt/unordered) against arith's "
        "mnemonic lists; branch-folding table; range guard of the li+fcvt.d.w constant path; prologue/epilogue pairing. "
        "Instruction-level semantics and the interplay with register allocation are not decided."
    )
