"""C10 — IRDL operation verification: segment-size verifiers consume the verified quantity, builder
size bookkeeping, option/stem tables, property coverage, accessor counters, variable binding test."""

from __future__ import annotations

import ast
import re

from ..astutil import dispatch_tables, call_attr, calls_in, guard_facts, unparse, walk_local
from ..cfg import CFG
from ..dataflow import resolved_text
from ..report import Finding, Report
from ..srcindex import AnalysisError, Index

OPS = "xdsl/irdl/operations.py"
CONS = "xdsl/irdl/constraints.py"
KINDS = {"OPERAND": "operand", "RESULT": "result", "REGION": "region", "SUCCESSOR": "successor"}


def check_size_verifiers(idx: Index, rep: Report) -> None:
    r = rep.rule("C10.R1", "both segment-size verifiers consume the length of the list they verify; attribute-given sizes are checked for sign, kind and sum", floor=5)
    f = idx.func(OPS, "verify_variadic_size")
    calls = {call_attr(c): c for c in calls_in(f.node)}
    same = calls.get("verify_variadic_same_size")
    if same is None or unparse(same.args[0]) != "len(get_op_constructs(op, construct))":
        r.fail(f.fq + ":same", Finding("C10.R1", f.fq, "length-not-passed", "the same-size verifier is not given len(get_op_constructs(op, construct))", f.loc))
    else:
        r.ok(f.fq + ":same", f"{f.loc} same-size verifier receives the actual length")
    if "verify_variadic_attr_size" not in calls:
        raise AnalysisError(f"{f.fq}: attribute-size branch not found")
    g = idx.func(OPS, "verify_variadic_attr_size")
    t = unparse(g.node)
    sizes = next((unparse(s.targets[0]) for s in walk_local(g.node) if isinstance(s, ast.Assign) and re.fullmatch(r"\w+\.get_values\(\)", unparse(s.value))), None)
    defs_n = next((unparse(s.targets[0]) for s in walk_local(g.node) if isinstance(s, ast.Assign) and isinstance(s.value, ast.Call) and unparse(s.value.func) == "get_construct_defs"), "defs")
    if sizes is None:
        raise AnalysisError(f"{g.fq}: `sizes = attribute.get_values()` not found")
    cfg = CFG(g.node)
    # (a) number of entries == number of definitions: a raise guarded by a comparison of the two lengths
    def _len_cmp(t: ast.AST, pol: bool) -> bool:
        if not (isinstance(t, ast.Compare) and len(t.ops) == 1):
            return False
        ne = (isinstance(t.ops[0], ast.NotEq) and pol) or (isinstance(t.ops[0], ast.Eq) and not pol)
        sides = {resolved_text(cfg, t.left, cfg.node_of(t)), resolved_text(cfg, t.comparators[0], cfg.node_of(t))}
        return ne and len(sides) == 2 and any(x.startswith("len(") and x.endswith(".get_values())") for x in sides) and "len(get_construct_defs(op_def, construct))" in sides

    sizes_src = "attribute.get_values()"
    raises = [n for n in walk_local(g.node) if isinstance(n, ast.Raise)]
    if any(any(_len_cmp(t, pol) for t, pol in guard_facts(g.node, rs)) for rs in raises):
        r.ok(g.fq + ":count", f"{g.loc} one size per definition")
    else:
        r.fail(g.fq + ":count", Finding("C10.R1", g.fq, "count-not-checked", "the number of sizes is not compared with the number of definitions", g.loc))
    # (b) kind of each entry: inside the loop pairing sizes with definitions, a *feasible* raise for optional
    # definitions with a size outside {0, 1} and one for single definitions with a size other than 1
    loops = [w for w in walk_local(g.node) if isinstance(w, ast.For) and isinstance(w.iter, ast.Call) and call_attr(w.iter) == "zip" and len(w.iter.args) == 2]
    sz = dn = None
    for w in loops:
        args = [unparse(a_) for a_ in w.iter.args]
        if sizes in args and defs_n in args and isinstance(w.target, ast.Tuple) and len(w.target.elts) == 2:
            si = args.index(sizes)
            se, de = w.target.elts[si], w.target.elts[1 - si]
            if isinstance(se, ast.Name) and isinstance(de, ast.Tuple) and len(de.elts) == 2:
                sz, dn, kloop = se.id, unparse(de.elts[1]), w
    if sz is None:
        raise AnalysisError(f"{g.fq}: loop pairing each size with its definition not recognised")
    opt_is_var = idx.is_subclass(idx.cls(OPS, "OptionalDef"), "VariadicDef")
    # case analysis: definition kind x size class, through the path summaries of the loop body.  The atoms are
    # isinstance tests on the definition and comparisons of the size with constants, so the size classes induced by
    # those constants are exact.
    from ..paths import enum_paths

    body_paths = enum_paths(ast.Module(body=kloop.body, type_ignores=[]))
    consts = {0, 1}
    for pth in body_paths:
        for t_, _ in pth.rfacts:
            for x in ast.walk(t_):
                if isinstance(x, ast.Constant) and isinstance(x.value, int) and not isinstance(x.value, bool):
                    consts.add(x.value)
    reps = sorted({c + d for c in consts for d in (-1, 0, 1)})
    kinds = {"single": {"OptionalDef": False, "VariadicDef": False}, "optional": {"OptionalDef": True, "VariadicDef": True if opt_is_var else False}, "variadic": {"OptionalDef": False, "VariadicDef": True}}

    def ev(atom: ast.AST, kind: str, val: int):
        if isinstance(atom, ast.BoolOp):
            vs = [ev(v_, kind, val) for v_ in atom.values]
            if any(v_ is None for v_ in vs):
                return None
            return all(vs) if isinstance(atom.op, ast.And) else any(vs)
        if isinstance(atom, ast.UnaryOp) and isinstance(atom.op, ast.Not):
            v_ = ev(atom.operand, kind, val)
            return None if v_ is None else not v_
        if isinstance(atom, ast.Call) and unparse(atom.func) == "isinstance" and len(atom.args) == 2 and unparse(atom.args[0]) == dn:
            cls_ = atom.args[1]
            names = [unparse(e_) for e_ in (cls_.elts if isinstance(cls_, ast.Tuple) else [cls_])]
            if all(n_ in kinds[kind] for n_ in names):
                return any(kinds[kind][n_] for n_ in names)
            return None
        if isinstance(atom, ast.Compare) and all(isinstance(x, (ast.Name, ast.Constant, ast.Tuple, ast.List, ast.Set, ast.UnaryOp, ast.Load, ast.USub)) or isinstance(x, (ast.cmpop, ast.Compare)) for x in ast.walk(atom)) and {x.id for x in ast.walk(atom) if isinstance(x, ast.Name)} <= {sz}:
            try:
                return bool(eval(compile(ast.Expression(body=ast.fix_missing_locations(atom)), "<atom>", "eval"), {"__builtins__": {}}, {sz: val}))  # constant arithmetic comparison only
            except Exception:
                return None
        return None

    table = {}
    unknown_atoms = set()
    for kind in kinds:
        for val in reps:
            outs = set()
            for pth in body_paths:
                ok_path = True
                for t_, pol in pth.rfacts:
                    v_ = ev(t_, kind, val)
                    if v_ is None:
                        unknown_atoms.add(unparse(t_))
                        continue
                    if v_ != pol:
                        ok_path = False
                        break
                if ok_path:
                    outs.add("reject" if pth.end == "raise" or any(isinstance(e_, ast.Expr) and isinstance(e_.value, ast.Call) and call_attr(e_.value) in ("raise_error",) for e_ in pth.effects) else "accept")
            table[(kind, val)] = outs
    if unknown_atoms:
        raise AnalysisError(f"{g.fq}: conditions of the size/kind loop not understood: {sorted(unknown_atoms)[:3]}")

    def expected(kind: str, val: int) -> str:
        if kind == "single":
            return "accept" if val == 1 else "reject"
        if kind == "optional":
            return "accept" if val in (0, 1) else "reject"
        return "accept" if val >= 0 else "reject"

    wrong_kind = [(k_, v_) for (k_, v_), o in table.items() if v_ >= 0 and o != {expected(k_, v_)}]
    wrong_sign = [(k_, v_) for (k_, v_), o in table.items() if v_ < 0 and k_ != "single" and o != {"reject"}] + [(k_, v_) for (k_, v_), o in table.items() if v_ < 0 and k_ == "single" and o != {"reject"}]
    if not wrong_kind:
        r.ok(g.fq + ":kind", f"{g.loc} optional -> 0/1, single -> 1 (case analysis over {len(table)} kind x size classes)")
    else:
        r.fail(g.fq + ":kind", Finding("C10.R1", g.fq, "kind-not-checked", f"sizes are not checked against the kind of each definition (optional: 0 or 1, single: 1): {', '.join(f'a {k_} definition with size {v_} is ' + '/'.join(sorted(table[(k_, v_)])) + 'ed' for k_, v_ in wrong_kind[:4])}" + (" — OptionalDef is a subclass of VariadicDef, so a test placed after `isinstance(d, VariadicDef)` was excluded never fires" if any(k_ == "optional" for k_, _ in wrong_kind) else ""), g.loc))
    # (c) the sum of the sizes equals the length of the verified list
    consumes = any(call_attr(c) == "get_op_constructs" for c in calls_in(g.node)) and re.search(rf"sum\({sizes}\)", t)
    if consumes:
        r.ok(g.fq + ":sum", f"{g.loc} sum of sizes compared with the list length")
    else:
        r.fail(g.fq + ":sum", Finding("C10.R1", g.fq, "sum-not-checked", f"verify_variadic_attr_size never compares sum({sizes}) with len(get_op_constructs(op, construct)): `operandSegmentSizes = [0, 0, 1]` over three operands verifies, and `[2, 2, 1]` fails later with IndexError in an accessor", g.loc))
    # (d) non-negative entries: every negative size is rejected, whatever the kind of its definition
    whole = bool(re.search(r"min\(" + re.escape(sizes) + r"\) < 0|any\(\(?\w+ < 0 for", t))
    if not wrong_sign or whole:
        r.ok(g.fq + ":sign", f"{g.loc} negative sizes rejected for every kind of definition")
    else:
        r.fail(g.fq + ":sign", Finding("C10.R1", g.fq, "negative-not-checked", f"a negative size is accepted: {', '.join(f'{k_} definition with size {v_}' for k_, v_ in wrong_sign[:3])} (`[-1, 3, 1]` over three operands verifies when the other sizes compensate)", g.loc))


def check_builder(idx: Index, rep: Report) -> None:
    r = rep.rule("C10.R2", "the builder records exactly one size per definition, consistent with what it adds to the flat list", floor=3)
    defs = [d for d in idx.module(OPS).functions.values() if d.qualname == "irdl_build_arg_list"]
    f = idx.func(OPS, "irdl_build_arg_list")
    cfg = CFG(f.node)
    prm = [a.arg for a in f.node.args.args]
    if len(prm) < 3:
        raise AnalysisError(f"{f.fq}: parameters (construct, args, arg_defs, ...) not found")
    p_args, p_defs = prm[1], prm[2]
    loops = [w for w in walk_local(f.node) if isinstance(w, ast.For) and f"zip({p_defs}, {p_args})" in unparse(w.iter)]
    if len(loops) != 1:
        raise AnalysisError(f"{f.fq}: loop over (definition, argument) pairs not found")
    w = loops[0]
    head = cfg.node_of(w)
    # the two lists the function returns: the flat list and the recorded sizes
    rets = [n for n in walk_local(f.node) if isinstance(n, ast.Return) and isinstance(n.value, ast.Tuple) and len(n.value.elts) == 2 and all(isinstance(e, ast.Name) for e in n.value.elts)]
    if len(rets) != 1:
        raise AnalysisError(f"{f.fq}: `return <flat list>, <sizes>` not found")
    res_n, sizes_n = rets[0].value.elts[0].id, rets[0].value.elts[1].id  # type: ignore[union-attr]
    tg = w.target
    if isinstance(w.iter, ast.Call) and unparse(w.iter.func) == "enumerate" and isinstance(tg, ast.Tuple) and len(tg.elts) == 2:
        tg = tg.elts[1]
    if not (isinstance(tg, ast.Tuple) and len(tg.elts) == 2 and isinstance(tg.elts[1], ast.Name)):
        raise AnalysisError(f"{f.fq}: loop target `{unparse(w.target)}` not understood")
    arg_n = tg.elts[1].id
    apps = [c for c in calls_in(w) if unparse(c.func) == f"{sizes_n}.append"]
    an = {cfg.node_of(c) for c in apps}
    starts = [m for m, lab in cfg.succ[head] if lab == "T"]
    zero = any(m not in an and cfg.path_avoiding(m, head, lambda n: n.id in an, follow_exc=False) is not None for m in starts)
    twice = any(any(b in cfg.reachable(a, avoid=lambda n: n.id == head) for b in an) for a in an)
    if zero or twice:
        r.fail(f.fq + ":once", Finding("C10.R2", f.fq, "size-count", f"an iteration of the builder loop records {'no' if zero else 'more than one'} size: the segment-size attribute no longer has one entry per definition", f.loc))
    else:
        r.ok(f.fq + ":once", f"{f.loc} exactly one {sizes_n}.append per definition on every path")
    # each recorded size matches what was added to `res` in the same branch
    for c in apps:
        val = unparse(c.args[0])
        blk = _enclosing_block(w, c)
        txt = [unparse(s) for s in blk]
        ok = (val == "0" and not any(t.startswith(f"{res_n}.") for t in txt)) or (val == "1" and f"{res_n}.append({arg_n})" in txt) or (val == f"len({arg_n})" and f"{res_n}.extend({arg_n})" in txt)
        inst = f"{f.fq}:append({val})"
        if ok:
            r.ok(inst, f"{OPS}:{c.lineno} size {val} matches the elements added")
        else:
            r.fail(inst, Finding("C10.R2", f.fq, f"size-mismatch:{val}", f"`{unparse(c)}` does not match what this branch adds to the flat list ({[t for t in txt if t.startswith(res_n + '.')]})", f"{OPS}:{c.lineno}"))


def _enclosing_block(root: ast.AST, node: ast.AST) -> list[ast.stmt]:
    for n in ast.walk(root):
        for fld in ("body", "orelse"):
            blk = getattr(n, fld, None)
            if isinstance(blk, list) and any(any(x is node for x in ast.walk(s)) for s in blk if isinstance(s, ast.stmt)) and any(isinstance(s, ast.Expr) and any(x is node for x in ast.walk(s)) for s in blk):
                return blk
    return []


def check_tables(idx: Index, rep: Report) -> None:
    r = rep.rule("C10.R3", "option / construct tables are exhaustive and stem-consistent (operand sizes stored under the operand option, ...)", floor=20)
    table = {
        "get_construct_name": lambda k: repr(KINDS[k]),
        "get_construct_defs": lambda k: f"op_def.{KINDS[k]}s",
        "get_op_constructs": lambda k: f"op.{KINDS[k]}s",
        "get_attr_size_option": lambda k: f"AttrSized{k.capitalize()}Segments",
        "get_same_variadic_size_option": lambda k: f"SameVariadic{k.capitalize()}Size",
    }
    for fn, want in table.items():
        f = idx.func(OPS, fn)
        got: dict[str, str] = {}
        for _subj, tbl_, _dflt, _n in dispatch_tables(f.node):  # a `match` or an if-chain on the construct kind
            for key_, body_ in tbl_.items():
                if key_.startswith("VarIRConstruct."):
                    rets = [s for s in body_ if isinstance(s, ast.Return)]
                    if rets:
                        got[key_.split(".")[1]] = unparse(rets[0].value)
        for k in KINDS:
            inst = f"{fn}:{k}"
            if got.get(k) == want(k):
                r.ok(inst, f"{f.loc} {k} -> {want(k)}")
            else:
                r.fail(inst, Finding("C10.R3", f.fq, f"table:{k}", f"{fn} maps {k} to `{got.get(k)}`; expected `{want(k)}`", f.loc))
    f = idx.func(OPS, "irdl_op_init")
    # sizes produced per construct
    prod: dict[str, tuple[str, str]] = {}
    for s in walk_local(f.node):
        if isinstance(s, ast.Assign) and isinstance(s.value, ast.Call) and call_attr(s.value) == "irdl_build_arg_list" and isinstance(s.targets[0], ast.Tuple):
            k = unparse(s.value.args[0]).split(".")[-1]
            prod[k] = (unparse(s.targets[0].elts[1]), unparse(s.value.args[2]))
    for k, stem in KINDS.items():
        inst = f"irdl_op_init:build:{k}"
        if k in prod and prod[k][1] == f"op_def.{stem}s" and prod[k][0].isidentifier() and [v_[0] for v_ in prod.values()].count(prod[k][0]) == 1:
            r.ok(inst, f"{f.loc} {prod[k][0]} from irdl_build_arg_list({k}, …, op_def.{stem}s)")
        else:
            r.fail(inst, Finding("C10.R3", f.fq, f"build:{k}", f"sizes of {k} are produced as {prod.get(k)}; expected (<a local of their own>, op_def.{stem}s)", f.loc))
    sizes_of = {KINDS[k]: v_[0] for k, v_ in prod.items() if k in KINDS}
    for c in [n for n in ast.walk(f.node) if isinstance(n, ast.match_case)]:
        if isinstance(c.pattern, ast.MatchClass):
            cname = unparse(c.pattern.cls)
            m = re.fullmatch(r"AttrSized(\w+)Segments", cname)
            if m and m.group(1) in ("Operand", "Result", "Region", "Successor"):
                stem = m.group(1).lower()
                body = " ".join(unparse(s) for s in c.body)
                inst = f"irdl_op_init:{cname}"
                sz = re.escape(sizes_of.get(stem, f"{stem}_sizes"))
                if re.search(rf"\b\w+\[{cname}\.attribute_name\] = DenseArrayBase\.from_list\(i32, {sz}\)", body):
                    r.ok(inst, f"{f.loc} {cname} <- sizes of {stem}s")
                else:
                    r.fail(inst, Finding("C10.R3", f.fq, f"option:{cname}", f"under option {cname} the builder stores `{body[:90]}`; expected {stem}_sizes under {cname}.attribute_name", f.loc))
            m = re.fullmatch(r"SameVariadic(\w+)Size", cname)
            if m and m.group(1) in ("Operand", "Result", "Region", "Successor"):
                stem = m.group(1).lower()
                body = [unparse(s) for s in c.body]
                inst = f"irdl_op_init:{cname}"
                sz = re.escape(sizes_of.get(stem, f"{stem}_sizes"))
                if any(re.fullmatch(rf"\w+ = {sz}", b_) for b_ in body) and any(re.fullmatch(rf"\w+ = VarIRConstruct\.{stem.upper()}", b_) for b_ in body):
                    r.ok(inst, f"{f.loc} {cname} checks {stem}_sizes")
                else:
                    r.fail(inst, Finding("C10.R3", f.fq, f"option:{cname}", f"under option {cname} the builder checks {body}; expected {stem}_sizes / VarIRConstruct.{stem.upper()}", f.loc))


def check_properties(idx: Index, rep: Report) -> None:
    r = rep.rule("C10.R4", "OpDef.verify checks every declared property / attribute and rejects undeclared properties; all four construct kinds are size-verified", floor=4)
    f = idx.func(OPS, "OpDef.verify")
    t = "\n".join(unparse(s_) for s_ in f.node.body)
    from ..paths import enum_paths, loops_of

    fpaths = enum_paths(f.node)
    loops = loops_of(fpaths)
    checks: dict[str, str | None] = {}
    for kind, optcls in (("properties", "OptPropertyDef"), ("attributes", "OptAttributeDef")):
        key = f"declared-{kind}"
        lp = [l for l in loops if isinstance(l.node, ast.For) and l.riter == f"self.{kind}.items()" and isinstance(l.node.target, ast.Tuple) and len(l.node.target.elts) == 2]
        if len(lp) != 1:
            checks[key] = f"no loop over self.{kind}.items()"
            continue
        n_, d_ = (unparse(e_) for e_ in lp[0].node.target.elts)  # type: ignore[attr-defined]
        present = f"{n_} in op.{kind}"
        problems = []
        seen_cases = set()
        for pth in lp[0].body:
            if not pth.feasible():
                continue
            nf = pth.nfacts()
            pres = next((pol for t_, pol in nf if t_ in (present, f"{n_} in op.{kind}.keys()")), None)
            opt = next((pol for t_, pol in nf if t_ == f"isinstance({d_}, {optcls})"), None)
            ver = [k for k, e_ in enumerate(pth.effects) if isinstance(e_, ast.Expr) and isinstance(e_.value, ast.Call) and call_attr(e_.value) == "verify" and re.fullmatch(re.escape(f"{d_}.constr.verify(op.{kind}[{n_}], ") + r".+\)", pth.res(e_.value, k))]
            rejects = pth.end == "raise"
            if pres is True:
                seen_cases.add("present")
                if not ver or rejects:
                    problems.append(f"a present {kind[:-1] if kind != 'properties' else 'property'} is not verified against its definition")
            elif pres is False:
                if opt is True:
                    seen_cases.add("absent-optional")
                    if rejects:
                        problems.append("an absent optional entry is rejected")
                elif opt is False:
                    seen_cases.add("absent-required")
                    if not rejects:
                        problems.append("an absent non-optional entry is accepted")
                else:
                    problems.append(f"an absent entry is handled without testing isinstance({d_}, {optcls})")
            else:
                problems.append(f"a path of the loop does not test `{present}`")
        if seen_cases != {"present", "absent-optional", "absent-required"}:
            problems.append(f"cases handled: {sorted(seen_cases)}")
        checks[key] = "; ".join(problems) if problems else None
    # undeclared properties
    lp = [l for l in loops if isinstance(l.node, ast.For) and l.riter in ("op.properties.keys()", "op.properties", "op.properties.items()")]
    und = "no loop over the properties present on the operation"
    for l in lp:
        n_ = unparse(l.node.target.elts[0] if isinstance(l.node.target, ast.Tuple) else l.node.target)  # type: ignore[attr-defined]
        bad_ = []
        cases = set()
        for pth in l.body:
            if not pth.feasible():
                continue
            nf = pth.nfacts()
            decl = next((pol for t_, pol in nf if t_ in (f"{n_} in self.properties", f"{n_} in self.properties.keys()")), None)
            if decl is False:
                cases.add("undeclared")
                if pth.end != "raise":
                    bad_.append("a property that the operation does not declare is accepted")
            elif decl is True:
                cases.add("declared")
                if pth.end == "raise":
                    bad_.append("a declared property is rejected")
            else:
                bad_.append("a path does not test membership in self.properties")
        und = "; ".join(bad_) if bad_ else (None if "undeclared" in cases else "no rejecting path for undeclared properties")
    checks["undeclared-properties"] = und
    ctx_names = {s_.targets[0].id for s_ in walk_local(f.node) if isinstance(s_, ast.Assign) and len(s_.targets) == 1 and isinstance(s_.targets[0], ast.Name) and isinstance(s_.value, ast.Call) and unparse(s_.value.func) == "ConstraintContext"}
    cx = next(iter(ctx_names)) if len(ctx_names) == 1 else "constraint_context"
    checks["constructs"] = None if all(x in t for x in (f"irdl_op_verify_arg_list(op, self, VarIRConstruct.OPERAND, {cx})", f"irdl_op_verify_arg_list(op, self, VarIRConstruct.RESULT, {cx})", f"irdl_op_verify_regions(op, self, {cx})", "verify_variadic_size(op, self, VarIRConstruct.SUCCESSOR)")) else "a construct kind is not size-verified"
    for k, why in checks.items():
        (r.ok(f.fq + ":" + k, f"{f.loc} {k}") if why is None else r.fail(f.fq + ":" + k, Finding("C10.R4", f.fq, k, f"OpDef.verify does not perform the `{k}` check: {why}", f.loc)))
    g = idx.func(OPS, "irdl_op_verify_arg_list")
    gp = [a.arg for a in g.node.args.args]
    if len(gp) >= 4 and f"verify_variadic_size({gp[0]}, {gp[1]}, {gp[2]})" in unparse(g.node) and re.search(rf"\b\w+\.constr\.verify\(\w+, {re.escape(gp[3])}\)", unparse(g.node)):
        r.ok(g.fq, f"{g.loc} sizes verified before each segment's constraint, sharing one constraint context")
    else:
        r.fail(g.fq, Finding("C10.R4", g.fq, "arg-list", "operand/result lists are not size-verified and constraint-checked with the shared context", g.loc))


def check_accessor_counters(idx: Index, rep: Report) -> None:
    r = rep.rule("C10.R5", "same-size accessors: the counter of variadic segments seen so far is incremented for every variadic (optional included) definition", floor=1)
    f = idx.func(OPS, "irdl_op_arg_definition")
    # the counter: the local handed to SameVariadicAccessor as `variadics_encountered` (last argument)
    sva = [c for c in calls_in(f.node) if call_attr(c) == "SameVariadicAccessor" and c.args]
    if not sva or not isinstance(sva[0].args[-1], ast.Name):
        raise AnalysisError(f"{f.fq}: construction of SameVariadicAccessor with the running counter not found")
    cnt = sva[0].args[-1].id
    incs = [s for s in walk_local(f.node) if isinstance(s, ast.AugAssign) and unparse(s.target) == cnt]
    if len(incs) != 1:
        raise AnalysisError(f"{f.fq}: `{cnt} += 1` not found")
    # the definition the loop is looking at: the loop target the accessor's name / kind tests refer to
    lp_ = [w for w in walk_local(f.node) if isinstance(w, ast.For) and any(x is incs[0] for x in ast.walk(w))]
    defv = unparse(lp_[-1].target.elts[1].elts[1]) if lp_ and isinstance(lp_[-1].target, ast.Tuple) and len(lp_[-1].target.elts) == 2 and isinstance(lp_[-1].target.elts[1], ast.Tuple) and len(lp_[-1].target.elts[1].elts) == 2 else "arg_def"
    facts = sorted((unparse(t), p) for t, p in guard_facts(f.node, incs[0]) if defv in {x.id for x in ast.walk(t) if isinstance(x, ast.Name)})
    if facts == [(f"isinstance({defv}, VariadicDef)", True)]:
        r.ok(f.fq, f"{f.loc} counter incremented iff isinstance(arg_def, VariadicDef)")
    else:
        r.fail(f.fq, Finding("C10.R5", f.fq, "variadic-counter", f"`{cnt} += 1` runs under {facts}; optional segments (a VariadicDef subclass) must be counted too, otherwise accessors after an optional segment start at the wrong offset", f"{OPS}:{incs[0].lineno}"))
    # accessor arithmetic: both accessor kinds compute  start = idx + encountered * diff,  diff = (len(args) - num_defs) // num_variadics;
    # the variadic one returns args[start : start + 1 + diff].  Compared as polynomials over the path-resolved expression.
    from ..paths import enum_paths
    from ..polyform import canon as pcanon

    def subscripts(q: str):
        fi = idx.func(OPS, q)
        argn = fi.node.args.args[1].arg
        outs = []
        for pth in enum_paths(fi.node):
            if pth.end != "return" or pth.value is None:
                continue
            e_ = ast.parse(pth.rvalue(), mode="eval").body
            if not (isinstance(e_, ast.Subscript) and unparse(e_.value) == argn):
                raise AnalysisError(f"{fi.fq}: returned value `{unparse(e_)[:60]}` is not an element / slice of `{argn}`")
            outs.append((e_.slice, argn))
        if not outs:
            raise AnalysisError(f"{fi.fq}: no returned subscript")
        return fi, outs

    def want(argn: str):
        diff = f"((len({argn}) - self.num_defs) // self.num_variadics)"
        start = f"self.idx + self.variadics_encountered * {diff}"
        return pcanon(start), pcanon(f"{start} + 1 + {diff}")

    problems = []
    fa, sa = subscripts("SameVariadicAccessor.index")
    for sl, argn in sa:
        ws, we = want(argn)
        if not (isinstance(sl, ast.Slice) and sl.lower is not None and sl.upper is not None and sl.step is None and pcanon(sl.lower) == ws and pcanon(sl.upper) == we):
            problems.append(f"SameVariadicAccessor.index returns {argn}[{unparse(sl)}]; expected [start : start + 1 + diff] with start = {ws}")
    fb, sb = subscripts("SameVariadicSingleAccessor.index")
    for sl, argn in sb:
        ws, _ = want(argn)
        if isinstance(sl, ast.Slice) or pcanon(sl) != ws:
            problems.append(f"SameVariadicSingleAccessor.index returns {argn}[{unparse(sl)}]; expected the element at start = {ws}")
    if not problems:
        r.ok("accessor-arithmetic", "both same-size accessors compute start = idx + encountered * diff (polynomial normal form of the returned subscript)")
    else:
        r.fail("accessor-arithmetic", Finding("C10.R5", "xdsl.irdl.operations.SameVariadicAccessor.index", "accessor-arithmetic", "the same-size accessors do not select their segment: " + "; ".join(problems), OPS))


def check_var_binding(idx: Index, rep: Report, rule_id: str = "C10.R6") -> None:
    r = rep.rule(rule_id, "a constraint variable is 'already bound' iff its stored value is not None (an empty / zero / falsy binding is still a binding)", floor=3)
    for cname in ("VarConstraint", "RangeVarConstraint", "IntVarConstraint"):
        cls = idx.cls(CONS, cname)
        v = cls.method("verify")
        if v is None:
            raise AnalysisError(f"{cname}.verify not found")
        # the binding call (`set_*variable`) and the comparison against the stored value are each guarded by the
        # "already bound" test, whatever the statement layout; the facts about the lookup value are classified
        setters = [c for c in calls_in(v.node) if (call_attr(c) or "").startswith("set_") and "variable" in (call_attr(c) or "")]
        if not setters:
            raise AnalysisError(f"{cname}.verify: no set_*variable call")
        lookups = {n.targets[0].id for n in walk_local(v.node) if isinstance(n, ast.Assign) and len(n.targets) == 1 and isinstance(n.targets[0], ast.Name) and isinstance(n.value, ast.Call) and (call_attr(n.value) or "").startswith("get_") and "variable" in (call_attr(n.value) or "")}
        seen = False
        for sc in setters:
            for t, pol in guard_facts(v.node, sc):
                tt = unparse(t)
                inner = t.operand if isinstance(t, ast.UnaryOp) and isinstance(t.op, ast.Not) else t
                about_lookup = (isinstance(inner, ast.Name) and inner.id in lookups) or (isinstance(inner, ast.Call) and (call_attr(inner) or "").startswith("get_") and "variable" in (call_attr(inner) or ""))
                is_none_test = isinstance(t, ast.Compare) and len(t.ops) == 1 and isinstance(t.ops[0], (ast.IsNot, ast.Is)) and isinstance(t.comparators[0], ast.Constant) and t.comparators[0].value is None and ((isinstance(t.left, ast.Name) and t.left.id in lookups) or isinstance(t.left, ast.Call))
                is_member_test = isinstance(t, ast.Compare) and len(t.ops) == 1 and isinstance(t.ops[0], (ast.In, ast.NotIn)) and unparse(t.left) == "self.name"
                if is_none_test or is_member_test:
                    seen = True
                    r.ok(v.fq, f"{v.loc} `{tt}` ({'T' if pol else 'F'}) guards the binding")
                elif about_lookup:
                    seen = True
                    r.fail(v.fq, Finding(rule_id, v.fq, "binding-by-truthiness", f"`{tt}` treats a variable bound to a falsy value (empty tuple, ArrayAttr([]), IntegerAttr(0)) as unbound: a later, different occurrence re-binds it instead of being compared", v.loc))
        if not seen:
            raise AnalysisError(f"{cname}.verify: no 'already bound' test guards the binding call")


def check_every_def_verified(idx: Index, rep: Report) -> None:
    """Each operand / result definition constrains its segment, the empty one included: an absent optional binds the
    range / length variables of its constraint to () / 0, which is what rejects a non-empty linked segment."""
    r = rep.rule("C10.R7", "irdl_op_verify_arg_list runs the constraint of every definition on its (possibly empty) range of types: no iteration skips the verify call", floor=1)
    f = idx.func(OPS, "irdl_op_verify_arg_list")
    cfg = CFG(f.node)
    loops = [w for w in walk_local(f.node) if isinstance(w, ast.For) and isinstance(w.target, ast.Tuple) and len(w.target.elts) == 2]
    if len(loops) != 1:
        raise AnalysisError(f"{f.fq}: loop over the (name, definition) pairs not found")
    w = loops[0]
    dname = unparse(w.target.elts[1])
    vcalls = [c for c in calls_in(w) if call_attr(c) == "verify" and isinstance(c.func, ast.Attribute) and unparse(c.func.value) in (f"{dname}.constr",)]
    if not vcalls:
        raise AnalysisError(f"{f.fq}: `{dname}.constr.verify(...)` not found in the loop")
    head = cfg.node_of(w)
    vn = {cfg.node_of(c) for c in vcalls}
    starts = [m for m, lab in cfg.succ[head] if lab == "T"]
    skip = None
    for m in starts:
        if m in vn:
            continue
        pth = cfg.path_avoiding(m, head, lambda n: n.id in vn, follow_exc=False)
        if pth is not None:
            skip = pth
    if skip is None:
        r.ok(f.fq, f"{f.loc} every iteration reaches {dname}.constr.verify (absent optionals are verified against the empty range)")
    else:
        r.fail(f.fq, Finding("C10.R7", f.fq, "definition-not-verified", f"an iteration of the loop over the definitions returns to the loop head without calling `{dname}.constr.verify`: " + " -> ".join(cfg.describe(skip)[-4:]) + " — the constraint of an absent optional is not run on the empty range, so a range / length variable it shares with another segment is never bound to () and the other segment can bind it to anything", f.loc))


def check_no_early_exit(idx: Index, rep: Report) -> None:
    """The verifier loops visit every definition / every element of a segment: leaving one of them with `break` or
    `return` (instead of skipping one element with `continue`) leaves the remaining elements unverified."""
    r = rep.rule("C10.R8", "no verification loop of irdl/operations.py is left early (break / return): every definition and every element of a variadic segment is checked", floor=4)
    mi = idx.module(OPS)
    for name in ("verify_variadic_attr_size", "verify_variadic_same_size", "verify_variadic_size", "irdl_op_verify_regions", "irdl_op_verify_arg_list"):
        f = idx.try_func(OPS, name)
        if f is None:
            continue
        fn = f.as_raw().node
        for w in walk_local(fn):
            if not isinstance(w, (ast.For, ast.While)):
                continue
            if isinstance(w, ast.For) and re.fullmatch(r"[\w.]+\.options", unparse(w.iter)):
                continue  # a search for the option that selects the verifier, not a loop over what is verified
            inst = f"{f.fq}:loop@{unparse(w.iter)[:30] if isinstance(w, ast.For) else 'while'}"
            exits = []
            stack = list(w.body)
            while stack:
                n_ = stack.pop()
                if isinstance(n_, (ast.For, ast.While)):
                    # a break inside a nested loop leaves only that loop; a return leaves everything
                    exits.extend(x for x in ast.walk(n_) if isinstance(x, ast.Return))
                    continue
                if isinstance(n_, (ast.Break, ast.Return)):
                    exits.append(n_)
                    continue
                if isinstance(n_, (ast.FunctionDef, ast.Lambda, ast.ClassDef)):
                    continue
                stack.extend(ast.iter_child_nodes(n_))
            if exits:
                e_ = exits[0]
                r.fail(inst, Finding("C10.R8", f.fq, f"early-exit:{type(e_).__name__.lower()}", f"`{type(e_).__name__.lower()}` at line {e_.lineno} leaves the loop `{unparse(w).splitlines()[0][:70]}`: the elements after the one that triggered it are never verified (an element that needs no check must be skipped with `continue`)", f"{f.module.relpath}:{e_.lineno}"))
            else:
                r.ok(inst, None)


def check(idx: Index, rep: Report, tier: str) -> str:
    rep.run(check_size_verifiers, idx, rep)
    rep.run(check_builder, idx, rep)
    rep.run(check_tables, idx, rep)
    rep.run(check_properties, idx, rep)
    rep.run(check_accessor_counters, idx, rep)
    rep.run(check_var_binding, idx, rep)
    rep.run(check_every_def_verified, idx, rep)
    rep.run(check_no_early_exit, idx, rep)
    return (
        "Sibling / derivation rules over xdsl/irdl/operations.py: both segment-size verifiers consume the verified length "
        "(count, kind, sign, sum), the builder records one consistent size per definition on every path, option and construct "
        "tables are exhaustive and stem-consistent, declared and present properties are both checked, same-size accessor "
        "counters include optional segments, and constraint variables are bound on None-ness. Accessor arithmetic at value "
        "level is not decided."
    )
