"""C14 — canonicalization / folding / CSE preserve results: truncation of folded integers, exception
discipline of fold patterns, operator / predicate / unit tables, commutativity guard, CSE guards."""

from __future__ import annotations

import ast
import re

from ..astutil import call_attr, canon_locals, dispatch_tables, calls_in, guard_facts, parent_map, resolved_guard_facts, unparse, walk_local, text_facts
from ..cfg import CFG
from ..dataflow import reaching_defs, resolved_text
from ..report import Finding, Report
from ..srcindex import AnalysisError, Index, dotted, raw_funcs
from .c15 import CMP_OP, _str_list, impls

AR = "xdsl/dialects/arith.py"
CP = "xdsl/transforms/canonicalization_patterns/arith.py"
CFI = "xdsl/transforms/constant_fold_interp.py"
TCF = "xdsl/transforms/test_constant_folding.py"
IA = "xdsl/interpreters/arith.py"
CSE = "xdsl/transforms/common_subexpression_elimination.py"

# reference table (DESIGN §3): right identity / absorbing element of the integer operations
UNIT = {"AddiOp": 0, "SubiOp": 0, "OrIOp": 0, "XOrIOp": 0, "ShLIOp": 0, "ShRUIOp": 0, "ShRSIOp": 0, "MuliOp": 1, "DivUIOp": 1, "DivSIOp": 1, "FloorDivSIOp": 1, "CeilDivSIOp": 1, "CeilDivUIOp": 1}
ZERO = {"MuliOp": 0, "AndIOp": 0}
PYOP = {"AddiOp": "+", "SubiOp": "-", "MuliOp": "*", "AndIOp": "&", "OrIOp": "|", "XOrIOp": "^"}
FOP = {"AddfOp": "+", "SubfOp": "-", "MulfOp": "*", "DivfOp": "/"}


def _const_of(pred: ast.AST) -> int | None:
    t = unparse(pred)
    m = re.fullmatch(r"return attr\.value\.data == (-?\d+)", t) or re.fullmatch(r"return attr == IntegerAttr\((-?\d+), attr\.type\)", t)
    return int(m.group(1)) if m else None


def check_truncation(idx: Index, rep: Report) -> None:
    r = rep.rule("C14.R1", "every integer constant built from a folded Python integer is truncated to its type (truncate_bits=True)", floor=3)
    sites = []
    for mod, quals in ((AR, None), (CP, None), (CFI, None), (TCF, ("TestConstantFoldingIntegerAdditionPattern.match_and_rewrite",))):
        mi = idx.module(mod)
        for f in raw_funcs(mi):
            if quals is not None and f.qualname not in quals:
                continue
            if mod == AR and f.name not in ("fold",):
                continue
            for c in calls_in(f.node):
                nm = call_attr(c)
                if nm in ("IntegerAttr", "from_int_and_width") and c.args:
                    a0 = c.args[0]
                    if isinstance(a0, ast.Constant) or unparse(a0).endswith(".value.data") and "(" not in unparse(a0):
                        continue  # literal or pass-through of an existing attribute's payload
                    computed = isinstance(a0, (ast.BinOp, ast.Call))
                    if isinstance(a0, ast.Name):
                        # a local is a computed integer when some binding of it is an arithmetic expression / call result
                        # (or when it is a parameter carrying a folded Python value)
                        binds = [s_.value for s_ in walk_local(f.node) if isinstance(s_, (ast.Assign, ast.AnnAssign, ast.AugAssign)) and s_.value is not None and any(isinstance(t_, ast.Name) and t_.id == a0.id for t_ in (s_.targets if isinstance(s_, ast.Assign) else [s_.target]))]
                        is_param = a0.id in {p_.arg for p_ in f.node.args.args}
                        computed = any(isinstance(v_, (ast.BinOp, ast.Call, ast.UnaryOp, ast.IfExp)) for v_ in binds) or any(isinstance(s_, ast.AugAssign) and isinstance(s_.target, ast.Name) and s_.target.id == a0.id for s_ in walk_local(f.node)) or (is_param and a0.id in ("res", "result", "value", "val", "folded"))
                    if not computed:
                        continue
                    sites.append((f, c))
    for f, c in sites:
        kw = {k.arg: unparse(k.value) for k in c.keywords}
        inst = f"{f.fq}:{unparse(c)[:50]}"
        if kw.get("truncate_bits") == "True":
            r.ok(inst, f"{f.module.relpath}:{c.lineno} truncate_bits=True")
        else:
            r.fail(inst, Finding("C14.R1", f.fq, f"untruncated:{canon_locals(f.node, c)[:60]}", f"`{unparse(c)[:80]}` builds an integer constant from a computed Python integer without truncate_bits=True: a result outside the type's range (e.g. shli 64, 2 : i8 = 256) raises VerifyException and the pass fails instead of folding to the wrapped value", f"{f.module.relpath}:{c.lineno}"))


def check_exceptions(idx: Index, rep: Report) -> None:
    r = rep.rule("C14.R2", "a fold pattern that cannot fold leaves the op in place: exceptions the interpreter implementations can raise are caught, and operands are checked instead of asserted", floor=2)
    # what can the registered arith implementations raise?
    raised = set()
    for opname, d in impls(idx):
        for n in walk_local(d.node):
            if isinstance(n, ast.Assert):
                raised.add("AssertionError")
            if isinstance(n, ast.Raise) and n.exc is not None:
                raised.add(dotted(n.exc).split(".")[-1])
    f = idx.func(CFI, "ConstantFoldInterpPattern.match_and_rewrite")
    from ..astutil import parent_map

    def handlers_around(fn_node: ast.AST, node: ast.AST) -> list[set[str]]:
        """exception names caught by each try statement whose body encloses `node` (innermost first)"""
        pm = parent_map(fn_node)
        out = []
        n_ = node
        while id(n_) in pm:
            par = pm[id(n_)]
            if isinstance(par, ast.Try) and any(n_ is b_ or any(n_ is x for x in ast.walk(b_)) for b_ in par.body):
                names = set()
                for h in par.handlers:
                    if h.type is None:
                        names.add("Exception")
                    else:
                        for t in (h.type.elts if isinstance(h.type, ast.Tuple) else [h.type]):
                            names.add(dotted(t).split(".")[-1])
                out.append(names)
            n_ = par
        return out

    cls14 = f.cls
    sites = []  # (function info, call)
    for nm, defs in (cls14.methods.items() if cls14 is not None else []):
        for d in defs:
            for c in calls_in(d.as_raw().node):
                if call_attr(c) == "run_op":
                    sites.append((d, c))
    if not sites:
        raise AnalysisError(f"{f.fq}: no interpreter.run_op call found in ConstantFoldInterpPattern")
    caught = None
    for d, c in sites:
        hs = handlers_around(d.as_raw().node, c)
        if not hs and d.name != "match_and_rewrite" and cls14 is not None:
            # a helper: every call of it must be inside a try
            for nm2, defs2 in cls14.methods.items():
                for d2 in defs2:
                    for c2 in calls_in(d2.as_raw().node):
                        if call_attr(c2) == d.name:
                            hs = hs or handlers_around(d2.as_raw().node, c2)
        cs = set().union(*hs) if hs else set()
        caught = cs if caught is None else caught & cs
    caught = caught or set()
    missing = sorted(x for x in raised if x not in caught and "Exception" not in caught and "BaseException" not in caught)
    if missing:
        r.fail(f.fq + ":caught", Finding("C14.R2", f.fq, "uncaught:" + ",".join(missing), f"the implementations run by the pattern can raise {sorted(raised)} (bare `assert rhs != 0`, `assert rhs >= 0`, …) but the pattern only catches {sorted(caught)}: e.g. divsi by a constant 0 makes the pass fail instead of leaving the op", f.loc))
    else:
        r.ok(f.fq + ":caught", f"{f.loc} catches {sorted(caught)} ⊇ {sorted(raised)}")
    # test-constant-folding: operands must be checked, not asserted / dereferenced blindly
    g = idx.func(TCF, "TestConstantFoldingIntegerAdditionPattern.match_and_rewrite")
    asserts = [n for n in walk_local(g.node) if isinstance(n, ast.Assert)]
    derefs = [n for n in walk_local(g.node) if isinstance(n, ast.Attribute) and n.attr == "op" and isinstance(n.value, ast.Subscript) and "operands" in unparse(n.value)]
    guarded = any(isinstance(n, ast.If) and "isinstance" in unparse(n.test) and "OpResult" in unparse(n.test) for n in walk_local(g.node))
    if asserts or (derefs and not guarded):
        r.fail(g.fq, Finding("C14.R2", g.fq, "asserts-instead-of-bailing", f"the pattern asserts that the operands are constants ({len(asserts)} assert statements) and reads `.op` of arbitrary operands: an addi of block arguments raises AttributeError / AssertionError instead of being left in place", g.loc))
    else:
        r.ok(g.fq, f"{g.loc} non-constant operands are skipped")


def check_tables(idx: Index, rep: Report) -> None:
    r = rep.rule("C14.R3", "operator tables agree: py_operation of each integer op equals the interpreter's operator; the float folder's operator equals the op; reflexive predicates are exactly eq / *le / *ge; unit and zero elements match the reference table", floor=25)
    arith_mod = idx.module(AR)
    itab = dict(impls(idx))
    for opname, sym in PYOP.items():
        c = arith_mod.classes.get(opname)
        if c is None:
            raise AnalysisError(f"arith.{opname} not found")
        po = c.method("py_operation")
        inst = f"py_operation:{opname}"
        got = unparse(po.node.body[-1]) if po is not None else None
        if got != f"return lhs {sym} rhs":
            r.fail(inst, Finding("C14.R3", c.fq, f"py-operation:{opname}", f"{opname}.py_operation is `{got}`; expected `return lhs {sym} rhs`", c.loc))
            continue
        d = itab.get(opname)
        if d is None:
            r.ok(inst, f"{c.loc} py_operation = lhs {sym} rhs (no interpreter implementation to compare)")
            continue
        cfg = CFG(d.node)
        rets = [n for n in walk_local(d.node) if isinstance(n, ast.Return)]
        t = resolved_text(cfg, rets[0].value, cfg.node_of(rets[0]))
        if re.search(rf"\)\s*{re.escape(sym)}\s*to_signed\(args\[1\]|lhs {re.escape(sym)} rhs|args\[0\].*\) {re.escape(sym)} ", t):
            r.ok(inst, f"{c.loc} folder and interpreter both use `{sym}`")
        else:
            r.fail(inst, Finding("C14.R3", d.fq, f"operator-mismatch:{opname}", f"the folder computes `lhs {sym} rhs` for {opname} but the interpreter returns `{t[:80]}`", d.loc))
    # every other integer op that acquires a py_operation: the Python operator must be valid on the *signed
    # representatives* in which signless IntegerAttr values are stored (200 : i8 is stored as -56)
    ALLOWED = {
        "ShLIOp": ("lhs << rhs", "agnostic", True), "ShRSIOp": ("lhs >> rhs", "signed", True), "ShRUIOp": ("lhs >> rhs", "unsigned", True),
        "FloorDivSIOp": ("lhs // rhs", "signed", False), "DivUIOp": ("lhs // rhs", "unsigned", False), "RemUIOp": ("lhs % rhs", "unsigned", False),
        "MaxSIOp": ("max(lhs, rhs)", "signed", False), "MinSIOp": ("min(lhs, rhs)", "signed", False), "MaxUIOp": ("max(lhs, rhs)", "unsigned", False), "MinUIOp": ("min(lhs, rhs)", "unsigned", False),
        "CeilDivUIOp": ("-(-lhs // rhs)", "unsigned", False), "CeilDivSIOp": ("-(-lhs // rhs)", "signed", False),
    }
    for c in arith_mod.classes.values():
        if c.name in PYOP or not idx.is_subclass(c, "SignlessIntegerBinaryOperation") or c.name.startswith("SignlessIntegerBinaryOperation"):
            continue
        po = c.method("py_operation")
        if po is None:
            continue
        inst = f"py_operation:{c.name}"
        rets = [n for n in walk_local(po.node) if isinstance(n, ast.Return) and n.value is not None and unparse(n.value) != "None"]
        ref = ALLOWED.get(c.name)
        if ref is None:
            r.fail(inst, Finding("C14.R3", c.fq, f"py-operation-unreviewed:{c.name}", f"{c.name} defines py_operation (`{unparse(rets[0]) if rets else '?'}`) but has no entry in the reference table of folds that are valid on signed representatives (truncating division and remainder differ from Python's // and %)", po.loc))
            continue
        expr, sem, is_shift = ref
        bad = None
        for rt in rets:
            if unparse(rt.value) != expr:
                bad = f"returns `{unparse(rt.value)}`; the reference realisation is `{expr}`"
                break
            facts = text_facts(po.node, rt)
            def nonneg(v: str) -> bool:
                return (f"{v} < 0", False) in facts or (f"{v} >= 0", True) in facts
            if is_shift and not nonneg("rhs"):
                bad = "shifts by a negative amount are not excluded (Python raises ValueError; MLIR gives poison)"
                break
            if sem == "unsigned" and not (nonneg("lhs") and (is_shift or nonneg("rhs"))):
                bad = f"`{expr}` is applied to the stored signed representatives: an operand with the top bit set is negative in Python, so the unsigned operation is computed on the wrong value (shrui -128, 1 : i8 folds to 0xC0 instead of 0x40); the fold is only valid when the operands are tested non-negative"
                break
            if not is_shift and "//" in expr or "%" in expr:
                if ("rhs == 0", False) not in facts and ("rhs != 0", True) not in facts and ("rhs", True) not in facts:
                    bad = "division by a zero constant is not excluded (ZeroDivisionError inside the folder)"
                    break
        if bad:
            r.fail(inst, Finding("C14.R3", c.fq, f"py-operation:{c.name}", f"{c.name}.py_operation {bad}", po.loc))
        else:
            r.ok(inst, f"{po.loc} {c.name}: {expr} on {sem} representatives, guarded")
    f = idx.func(CP, "_fold_const_operation")
    got = {}
    lp_, rp_ = f.node.args.args[1].arg, f.node.args.args[2].arg
    for _s, tbl_, _d, _n in dispatch_tables(f.node):
        for key_, body_ in tbl_.items():
            if re.fullmatch(r"[\w.]+", key_):
                k = key_.split(".")[-1]
                ops = [type(x.op) for s in body_ for x in ast.walk(s) if isinstance(x, ast.BinOp) and unparse(x.left) == f"{lp_}.value.data" and unparse(x.right) == f"{rp_}.value.data"]
                got[k] = {ast.Add: "+", ast.Sub: "-", ast.Mult: "*", ast.Div: "/"}.get(ops[0]) if ops else None
    for k, sym in FOP.items():
        inst = f"_fold_const_operation:{k}"
        if k in got and got[k] == sym:
            r.ok(inst, f"{f.loc} {k}: lhs {sym} rhs")
        elif k in got:
            r.fail(inst, Finding("C14.R3", f.fq, f"float-operator:{k}", f"_fold_const_operation folds {k} with `{got[k]}`; expected `{sym}`", f.loc))
    # reflexive predicates
    cmpi = _str_list(idx, AR, "CMPI_COMPARISON_OPERATIONS")
    g = idx.func(CP, "ApplyCmpiPredicateToEqualOperands.match_and_rewrite")
    m = re.search(r"\b\w+ = op\.predicate\.value\.data in [\(\[\{]([\d, ]+)[\)\]\}]", unparse(g.node))
    if not m:
        # a module-level literal collection used as `op.predicate.value.data in <NAME>`
        for nm_, v_ in idx.module(CP).assigns.items():
            lit = v_.args[0] if isinstance(v_, ast.Call) and unparse(v_.func) in ("frozenset", "set", "tuple") and len(v_.args) == 1 else v_
            if isinstance(lit, (ast.Tuple, ast.List, ast.Set)) and all(isinstance(e_, ast.Constant) and isinstance(e_.value, int) for e_ in lit.elts) and re.search(rf"op\.predicate\.value\.data in {nm_}\b", unparse(g.node)):
                m = re.match(r"(.*)", ", ".join(str(e_.value) for e_ in lit.elts))  # type: ignore[attr-defined]
    if not m:
        raise AnalysisError(f"{g.fq}: reflexive predicate set not recognised")
    have = {int(x) for x in m.group(1).replace(" ", "").split(",") if x}
    want = {i for i, mn in enumerate(cmpi) if mn == "eq" or mn.endswith("le") or mn.endswith("ge")}
    if have == want and "if op.lhs != op.rhs:\n    return" in "\n".join(unparse(s) for s in g.node.body):
        r.ok("reflexive-predicates", f"{g.loc} x pred x folds to true exactly for {sorted(cmpi[i] for i in want)}")
    else:
        r.fail("reflexive-predicates", Finding("C14.R3", g.fq, "reflexive-set", f"`cmpi pred x, x` is folded to true for predicates {sorted(have)} = {[cmpi[i] for i in sorted(have) if i < len(cmpi)]}; the reflexive predicates of the dialect's list are {sorted(want)} = {[cmpi[i] for i in sorted(want)]}", g.loc))
    # unit / zero elements
    for c in arith_mod.classes.values():
        if not idx.is_subclass(c, "SignlessIntegerBinaryOperation") or c.name.startswith("SignlessIntegerBinaryOperation"):
            continue
        for meth, ref in (("is_right_unit", UNIT), ("is_right_zero", ZERO)):
            d = c.method(meth)
            if d is None:
                continue
            k = _const_of(d.node.body[-1])
            inst = f"{meth}:{c.name}"
            if c.name in ref and k == ref[c.name]:
                r.ok(inst, f"{d.loc} {c.name}.{meth}: {k}")
            else:
                r.fail(inst, Finding("C14.R3", d.fq, f"{meth}:{c.name}", f"{c.name}.{meth} tests for {k if k is not None else unparse(d.node.body[-1])}; the reference table has {ref.get(c.name, 'no such element')}", d.loc))


def check_fold_guards(idx: Index, rep: Report) -> None:
    r = rep.rule("C14.R4", "identity folding on the left operand requires commutativity; the right-zero / right-unit pattern replaces by the matching operand", floor=3)
    f = idx.func(AR, "SignlessIntegerBinaryOperation.fold")
    lhs_defs = [x for x in walk_local(f.node) if isinstance(x, ast.Assign) and unparse(x.value) == "ConstantLike.get_constant_value(self.lhs)"]
    if len(lhs_defs) != 1:
        raise AnalysisError(f"{f.fq}: constant value of the lhs operand not found")
    lname = unparse(lhs_defs[0].targets[0])
    units = [c for c in calls_in(f.node) if unparse(c.func) == "self.is_right_unit" and c.args]
    if not units:
        raise AnalysisError(f"{f.fq}: is_right_unit tests not found")

    def may_be_lhs(a: ast.AST) -> bool:
        if unparse(a) == lname:
            return True
        if isinstance(a, ast.Name):
            for w in walk_local(f.node):
                if isinstance(w, ast.For) and isinstance(w.target, ast.Tuple) and isinstance(w.iter, (ast.Tuple, ast.List)):
                    for i, t_ in enumerate(w.target.elts):
                        if unparse(t_) == a.id and any(isinstance(row, ast.Tuple) and i < len(row.elts) and unparse(row.elts[i]) == lname for row in w.iter.elts):
                            return True
        return False

    for c in units:
        if not may_be_lhs(c.args[0]):
            continue
        facts = text_facts(f.node, c)
        if ("self.has_trait(Commutative)", True) in facts:
            r.ok(f.fq + ":left-unit", f"{f.loc} `unit op x -> x` only for commutative operations")
        else:
            r.fail(f.fq + ":left-unit", Finding("C14.R4", f.fq, "left-unit-without-commutativity", f"`{unparse(c)}` tests whether the constant LEFT operand is the operation's right identity without requiring has_trait(Commutative): `0 - x`, `0 << x`, `1 / x` fold to x", f"{AR}:{c.lineno}"))
    rl = [n for n in walk_local(f.node) if isinstance(n, ast.Return) and n.value is not None and unparse(n.value) == "(self.lhs,)"]
    cfg4 = CFG(f.node)
    ok = not rl or all(any("is_right_unit(" in t and p for t, p in resolved_guard_facts(f.node, cfg4, x)) for x in rl)
    (r.ok(f.fq + ":right-unit", f"{f.loc} `x op unit -> x`") if ok else r.fail(f.fq + ":right-unit", Finding("C14.R4", f.fq, "right-unit", "`return (self.lhs,)` must be guarded by is_right_unit(rhs)", f.loc)))
    g = idx.func(CP, "SignlessIntegerBinaryOperationZeroOrUnitRight.match_and_rewrite")
    # the local bound to the constant right operand, whatever it is called: the argument of is_right_zero / is_right_unit
    rz = [c_ for c_ in calls_in(g.node) if unparse(c_.func) == "op.is_right_zero" and len(c_.args) == 1]
    rn = unparse(rz[0].args[0]) if rz else "rhs"
    t = "\n".join(unparse(s) for s in g.node.body)
    if f"if op.is_right_zero({rn}):\n    rewriter.replace(op, (), (op.rhs,))\nelif op.is_right_unit({rn}):\n    rewriter.replace(op, (), (op.lhs,))" in t:
        r.ok(g.fq, f"{g.loc} x op zero -> zero (the rhs), x op unit -> x")
    else:
        r.fail(g.fq, Finding("C14.R4", g.fq, "zero-unit-replacement", "right zero must be replaced by op.rhs and right unit by op.lhs", g.loc))
    h = idx.func(CP, "SignlessIntegerBinaryOperationConstantProp.match_and_rewrite")
    t = unparse(h.node)
    if "if op.has_trait(Commutative):\n                rewriter.replace(op, op.__class__(op.rhs, op.lhs))" in t or re.search(r"if op\.has_trait\(Commutative\):\s+rewriter\.replace\(op, op\.__class__\(op\.rhs, op\.lhs\)\)", t):
        r.ok(h.fq, f"{h.loc} operands swapped only for commutative operations")
    else:
        r.fail(h.fq, Finding("C14.R4", h.fq, "swap-without-commutativity", "constant-to-the-right canonicalisation must be restricted to commutative operations", h.loc))


def check_cse(idx: Index, rep: Report) -> None:
    r = rep.rule("C14.R5", "CSE replaces an op only if it is side-effect free, or read-only with the earlier op in the same block and no possible write in between", floor=2)
    f = idx.func(CSE, "CSEDriver._simplify_operation")
    from ..paths import enum_paths, expand_predicates

    helpers = {nm: (d[0].as_raw().node, True) for nm, d in (f.cls.methods.items() if f.cls is not None else []) if nm.startswith("_") and not nm.startswith("__") and nm not in ("_replace_and_delete", "_mark_erasure", "_simplify_operation")}
    paths = [p for p in expand_predicates(enum_paths(f.as_raw().node), helpers) if p.feasible()]
    n_sites = 0
    for pth in paths:
        reps_ = [(k, e_) for k, e_ in enumerate(pth.effects) if isinstance(e_, ast.Expr) and isinstance(e_.value, ast.Call) and unparse(e_.value.func) == "self._replace_and_delete"]
        if not reps_:
            continue
        n_sites += 1
        k, e_ = reps_[0]
        args = [pth.res(a_, k) for a_ in e_.value.args]  # type: ignore[attr-defined]
        nf = pth.nfacts()
        pure = next((pol for t_, pol in nf if t_ == "is_side_effect_free(op)"), None)
        inst = f"{f.fq}:{'pure' if pure else 'read-only'}"
        loc = f"{CSE}:{e_.lineno}"
        if args[:1] != ["op"] or len(args) != 2 or "self._known_ops.get(op)" not in args[1]:
            r.fail(inst, Finding("C14.R5", f.fq, "replacement-source", f"`{unparse(e_)}` replaces `{args[0] if args else '?'}` by `{args[1] if len(args) > 1 else '?'}`, not by the known equal operation self._known_ops.get(op)", loc))
            continue
        if pure is True:
            r.ok(inst, f"{loc} side-effect-free op replaced by the known equal op")
            continue
        ex = args[1]
        need = [("only_has_effect(op, MemoryEffectKind.READ)", True), (f"op.parent_block() is {ex}.parent_block()", True), (f"has_other_side_effecting_op_in_between({ex}, op)", False)]
        miss = [n_ for n_ in need if n_ not in nf]
        if miss and pure is None:
            r.fail(inst, Finding("C14.R5", f.fq, "pure-guard", f"an operation is replaced without being known side-effect free (and without the read-only guards {miss})", loc))
        elif miss:
            r.fail(inst, Finding("C14.R5", f.fq, "read-only-guards", f"a reading operation is replaced without {miss}", loc))
        else:
            r.ok(inst, f"{loc} read-only: same block and no write in between")
    if n_sites == 0:
        raise AnalysisError(f"{f.fq}: no path replaces the operation by a known one")
    g = idx.func(CSE, "has_other_side_effecting_op_in_between")
    from ..paths import enum_paths as _ep, expand_predicates as _xp, loops_of as _lo

    gp = _ep(g.node)
    wl = [l for l in _lo(gp) if isinstance(l.node, ast.While)]
    if len(wl) != 1:
        raise AnalysisError(f"{g.fq}: the scan loop between the two operations was not found")
    frm, to = g.node.args.args[0].arg, g.node.args.args[1].arg
    problems = []
    if unparse(wl[0].node.test) not in (f"next_op is not {to}", f"next_op != {to}") and not re.fullmatch(rf"\w+ (is not|!=) {to}", unparse(wl[0].node.test)):
        problems.append(f"the scan loop runs while `{unparse(wl[0].node.test)}`, not until the later operation is reached")
    saw_none = saw_write = False
    for pth in _xp(wl[0].body, {}):
        if not pth.feasible():
            continue
        nf = pth.nfacts()
        unknown = next((p_ for t_, p_ in nf if re.fullmatch(r"get_effects\(\w+\) is None", t_)), None)
        write_any = next((p_ for t_, p_ in nf if re.fullmatch(r"any\(\(\w+\.kind (is|==) MemoryEffectKind\.WRITE for \w+ in (?:get_effects\(\w+\)|\w+)\)\)", t_)), None)
        inner_write = any(isinstance(e_, type(wl[0])) and any(b_.end == "return" and b_.rvalue() == "True" and any(re.fullmatch(r"\w+\.kind (is|==) MemoryEffectKind\.WRITE", t2) and p2 for t2, p2 in b_.nfacts()) for b_ in e_.body) for e_ in pth.effects)
        returns_true = pth.end == "return" and pth.rvalue() == "True"
        if unknown is True:
            saw_none = saw_none or returns_true
            if not returns_true:
                problems.append("an operation with unknown effects (None) does not block the replacement")
        if write_any is True:
            saw_write = saw_write or returns_true
            if not returns_true:
                problems.append("an operation with a WRITE effect does not block the replacement")
        if inner_write and returns_true:
            saw_write = True
    if not saw_none:
        problems.append("no path treats unknown effects as blocking")
    if not saw_write:
        problems.append("no path treats a WRITE effect as blocking")
    if not problems:
        r.ok(g.fq, f"{g.loc} unknown effects or a write in between block the replacement")
    else:
        r.fail(g.fq, Finding("C14.R5", g.fq, "write-scan", "the scan between the two ops must treat unknown effects and writes as blocking: " + "; ".join(problems), g.loc))


def _after_effect_branch(f, c: ast.Call) -> bool:
    """Is call c after an `if not is_side_effect_free(op):` block whose every path returns?"""
    for n in f.node.body:
        if isinstance(n, ast.If) and unparse(n.test) == "not is_side_effect_free(op)":
            from ..astutil import _terminates

            return _terminates(n.body) and c.lineno > (n.end_lineno or 0)
    return False


def check_int_division(idx: Index, rep: Report) -> None:
    r = rep.rule("C14.R6", "integer implementations used by constant-fold-interp never go through float division", floor=1)
    helpers = {f.name: f for f in idx.module(IA).functions.values() if f.cls is None}
    arith_mod = idx.module(AR)
    n = 0
    for opname, d in impls(idx):
        c = arith_mod.classes.get(opname)
        if c is None or not idx.is_subclass(c, "SignlessIntegerBinaryOperation"):
            continue
        n += 1
        called = [helpers[call_attr(x)] for x in calls_in(d.node) if call_attr(x) in helpers]
        divs = [x for fn in [d] + called for x in walk_local(fn.node) if isinstance(x, ast.BinOp) and isinstance(x.op, ast.Div)]
        if divs:
            r.fail(d.fq, Finding("C14.R6", d.fq, f"float-division:{opname}", f"`{unparse(divs[0])}`: {opname} is evaluated through float division, which is inexact above 2**53: constant-fold-interp folds remsi/divsi of large i64 constants to wrong values", f"{IA}:{divs[0].lineno}"))
        else:
            r.ok(d.fq, None)
    if n < 8:
        raise AnalysisError("integer implementations not found")


CFP = "xdsl/transforms/canonicalization_patterns/cf.py"


def check_truth_propagation(idx: Index, rep: Report) -> None:
    """cond_br %c, ^t, ^e: inside ^t the condition is known true only if ^t has no other predecessor (same for ^e /
    false).  Each replacement site must be guarded by the predecessor count of the very block it rewrites."""
    r = rep.rule("C14.R7", "the branch condition is replaced by a constant inside a successor only under `len(<that successor>.predecessors()) == 1`, with true for the then-successor and false for the else-successor", floor=2)
    f = idx.func(CFP, "CondBranchTruthPropagation.match_and_rewrite")
    fn = f.node
    cfg = CFG(fn)
    opn = fn.args.args[1].arg
    sites = [c for c in calls_in(fn) if call_attr(c) in ("replace_uses_with_if",)]
    if len(sites) < 2:
        raise AnalysisError(f"{f.fq}: expected two replace_uses_with_if sites")
    for c in sites:
        lam = next((a for a in c.args if isinstance(a, ast.Lambda)), None)
        if lam is None or not (isinstance(lam.body, ast.Compare) and isinstance(lam.body.ops[0], ast.Is)):
            raise AnalysisError(f"{f.fq}: use filter `{unparse(c.args[-1])}` not recognised")
        blk = resolved_text(cfg, lam.body.comparators[0], cfg.node_of(c))
        const = resolved_text(cfg, c.args[1], cfg.node_of(c))
        want_blk = {f"{opn}.then_block": "True", f"{opn}.else_block": "False"}
        inst = f"{f.fq}:{blk}"
        loc = f"{f.module.relpath}:{c.lineno}"
        if blk not in want_blk:
            raise AnalysisError(f"{f.fq}: rewritten block `{blk}` is not a successor of the branch")
        guards = []
        for t, pol in guard_facts(fn, c):
            if pol and isinstance(t, ast.Compare) and len(t.ops) == 1 and isinstance(t.ops[0], ast.Eq) and unparse(t.comparators[0]) == "1":
                guards.append(resolved_text(cfg, t.left, cfg.node_of(c)))
        if f"len({blk}.predecessors())" not in guards:
            r.fail(inst, Finding("C14.R7", f.fq, f"wrong-predecessor-guard:{blk.split('.')[-1]}", f"uses of the condition inside `{blk}` are replaced under {guards or 'no predecessor test'} instead of `len({blk}.predecessors()) == 1`: when that block is also reached from elsewhere (a merge point) the condition is not known there and results change", loc))
        elif f"from_bool({want_blk[blk]})" not in const:
            r.fail(inst, Finding("C14.R7", f.fq, f"wrong-truth-value:{blk.split('.')[-1]}", f"inside `{blk}` the condition is replaced by `{const}`; it must be {want_blk[blk]}", loc))
        else:
            r.ok(inst, f"{loc} {blk}: {want_blk[blk]} under a single-predecessor test of the same block")


def check_fastmath_guards(idx: Index, rep: Report) -> None:
    """select(cmpf pred a b, a, b) -> maximumf / minimumf differs from the select on NaN operands (maximumf returns
    NaN, the select returns b) and on (+0.0, -0.0) (maximumf orders the zeros, cmpf does not): the rewrite needs BOTH
    nnan and nsz."""
    r = rep.rule("C14.R8", "the select/cmpf -> maximumf/minimumf rewrite is applied only under fastmath nnan AND nsz", floor=1)
    from ..astutil import norm_facts, text_facts

    f = idx.func("xdsl/transforms/canonicalization_patterns/arith.py", "SelectFoldCmpfPattern.match_and_rewrite")
    reps = [c for c in calls_in(f.node) if call_attr(c) in ("replace", "replace_op", "replace_matched_op") and unparse(c.func.value) == "rewriter"]  # type: ignore[attr-defined]
    if not reps:
        raise AnalysisError(f"{f.fq}: replacement call not found")
    for c in reps:
        nf = norm_facts(text_facts(f.node, c))
        need = {"NO_NANS": False, "NO_SIGNED_ZEROS": False}
        for t_, pol in nf:
            m_ = re.fullmatch(r"arith\.FastMathFlag\.(NO_NANS|NO_SIGNED_ZEROS) in \w+\.fastmath\.data", t_)
            if m_ and pol:
                need[m_.group(1)] = True
            m2 = re.fullmatch(r"\w+\.fastmath\.data\.issuperset\(.*NO_NANS.*NO_SIGNED_ZEROS.*\)|\w+\.fastmath\.data\.issuperset\(.*NO_SIGNED_ZEROS.*NO_NANS.*\)|\{.*\} <= \w+\.fastmath\.data", t_)
            if m2 and pol and "NO_NANS" in t_ and "NO_SIGNED_ZEROS" in t_:
                need = {k: True for k in need}
        miss = [k for k, v in need.items() if not v]
        inst = f"{f.fq}:{c.lineno - f.node.lineno}"
        if miss:
            r.fail(inst, Finding("C14.R8", f.fq, "fastmath-guard:" + ",".join(miss), f"`{unparse(c)[:70]}` is reachable without the fastmath flag(s) {miss} being known present (facts: {sorted(t_ for t_, p_ in nf if 'fastmath' in t_ or 'FastMath' in t_)[:3]}): without nnan a NaN operand gives NaN instead of the selected operand, without nsz (+0.0, -0.0) gives the other zero", f"{f.module.relpath}:{c.lineno}"))
        else:
            r.ok(inst, f"{f.module.relpath}:{c.lineno} rewrite under nnan and nsz")


def check_cse_scopes(idx: Index, rep: Report) -> None:
    """CSE opens a scope per region by building `KnownOps(self._known_ops)` and restores the old object afterwards:
    that only forgets the operations recorded inside the region if the new scope holds its own table."""
    from ..paths import enum_paths

    r = rep.rule("C14.R9", "a nested CSE scope owns a copy of the enclosing table: operations recorded inside a region are forgotten when the region is left (they do not dominate what follows)", floor=2)
    drv = idx.func(CSE, "CSEDriver._simplify_region") if idx.try_func(CSE, "CSEDriver._simplify_region") else idx.func(CSE, "CSEDriver.simplify_region")
    blk = idx.try_func(CSE, "CSEDriver._simplify_block") or idx.func(CSE, "CSEDriver.simplify_block")

    def _pushes(fn_):
        return [n for n in walk_local(fn_) if isinstance(n, ast.Assign) and unparse(n.targets[0]) == "self._known_ops" and any(isinstance(c_, ast.Call) and unparse(c_.func) == "KnownOps" for c_ in ast.walk(n.value))]

    region_scoped = bool(_pushes(drv.as_raw().node))
    pushes = _pushes(drv.as_raw().node) + _pushes(blk.as_raw().node)
    if not pushes:
        raise AnalysisError(f"{drv.fq}: scope push `self._known_ops = <new scope>(...)` not found")
    for n in pushes:
        for c_ in ast.walk(n.value):
            if isinstance(c_, ast.Call) and unparse(c_.func) == "KnownOps" and [unparse(a) for a in c_.args] not in (["self._known_ops"], [], ["old_scope"]):
                raise AnalysisError(f"{drv.fq}: scope push `{unparse(n)}` not understood")
        r.ok(f"{drv.fq}:push@{n.lineno}", f"{drv.loc} `{unparse(n)}`")
    # every region of an operation gets its own scope: what one region records is not known in a sibling region
    for w in walk_local(blk.as_raw().node):
        if isinstance(w, ast.For) and re.fullmatch(r"\w+\.regions", unparse(w.iter)):
            calls_ = [c_ for c_ in calls_in(w) if unparse(c_.func) in ("self._simplify_region", "self.simplify_region")]
            if not calls_:
                continue
            inst = f"{blk.fq}:regions@{w.lineno}"
            if region_scoped or _pushes(w):
                r.ok(inst, f"{blk.module.relpath}:{w.lineno} one scope per region")
            else:
                r.fail(inst, Finding("C14.R9", blk.fq, "sibling-regions-share-scope", f"`{unparse(w).splitlines()[0]}` simplifies all regions of the operation in one scope (the scope is opened once per operation, and {drv.qualname} opens none): an expression recorded in the `then` region of an scf.if is 'known' in the `else` region, whose duplicate is replaced by a value that is never computed on that path", f"{blk.module.relpath}:{w.lineno}"))
    init = idx.func(CSE, "KnownOps.__init__")
    arg = init.node.args.args[1].arg
    seen = 0
    for pth in enum_paths(init.node):
        if not pth.feasible():
            continue
        nf = pth.nfacts()
        if (f"{arg} is None", True) in nf:
            continue
        for k, e_ in enumerate(pth.effects):
            if isinstance(e_, ast.Assign) and unparse(e_.targets[0]) == "self._known_ops":
                v = pth.res(e_.value, k)
                seen += 1
                src = rf"{re.escape(arg)}\._known_ops"
                if re.fullmatch(rf"dict\({src}\)|{src}\.copy\(\)|\{{\*\*{src}\}}|copy\.copy\({src}\)|dict\({src}\.items\(\)\)|\{{k: v for k, v in {src}\.items\(\)\}}", v):
                    r.ok(init.fq, f"{init.loc} nested scope table is `{v}`")
                elif re.fullmatch(src, v):
                    r.fail(init.fq, Finding("C14.R9", init.fq, "scope-aliases-parent", f"`KnownOps({arg})` stores `{v}` itself, not a copy: the scope opened for a region shares its table with the enclosing scope, so an operation recorded inside an scf.if / scf.for body is still 'known' after the region and a later equal operation is replaced by a value defined in a region that may not execute (and does not dominate it)", init.loc))
                else:
                    raise AnalysisError(f"{init.fq}: table of a nested scope `{v}` not understood")
    if not seen:
        raise AnalysisError(f"{init.fq}: no assignment of self._known_ops for a given parent scope")


def check_float_fold_overflow(idx: Index, rep: Report) -> None:
    """FloatAttr(value, type) rounds `value` to the precision of `type` by packing it; struct.pack raises OverflowError
    when a finite double rounds to infinity in a narrower type.  A float fold that builds the attribute from a computed
    value must therefore catch OverflowError (or test the range): otherwise canonicalize fails on `mulf 3e38, 10 : f32`
    instead of folding it (to +inf) or leaving it in place."""
    r = rep.rule("C14.R11", "a float constant fold that builds FloatAttr(<computed value>, <type>) handles the OverflowError of packing (the pass folds or leaves the op, it does not fail)", floor=1)
    from ..astutil import parent_map

    n = 0
    for f in raw_funcs(idx.module(CP)):
        cfg = None
        for c in calls_in(f.node):
            if unparse(c.func).split(".")[-1] != "FloatAttr" or len(c.args) < 2:
                continue
            v = c.args[0]
            if cfg is None:
                cfg = CFG(f.node)
            computed = False
            if isinstance(v, ast.Name):
                for _, d_ in reaching_defs(cfg, v.id, cfg.node_of(c)):
                    if d_ is not None and any(isinstance(x, ast.BinOp) and isinstance(x.op, (ast.Add, ast.Sub, ast.Mult, ast.Div, ast.Pow)) for x in ast.walk(d_)):
                        computed = True
            elif any(isinstance(x, ast.BinOp) and isinstance(x.op, (ast.Add, ast.Sub, ast.Mult, ast.Div, ast.Pow)) for x in ast.walk(v)):
                computed = True
            if not computed:
                continue
            n += 1
            pm = parent_map(f.node)
            caught = False
            x = c
            while id(x) in pm:
                par = pm[id(x)]
                if isinstance(par, ast.Try) and any(x is b_ or any(x is y for y in ast.walk(b_)) for b_ in par.body):
                    for h in par.handlers:
                        names = {"Exception"} if h.type is None else {dotted(t_).split(".")[-1] for t_ in (h.type.elts if isinstance(h.type, ast.Tuple) else [h.type])}
                        if names & {"OverflowError", "ArithmeticError", "Exception", "BaseException"}:
                            caught = True
                x = par
            ranged = any(re.search(r"isfinite|isinf|abs\(|<=|>=", unparse(t_)) and unparse(v) in unparse(t_) for t_, _ in guard_facts(f.node, c))
            inst = f"{f.fq}:FloatAttr@{c.lineno}"
            if caught or ranged:
                r.ok(inst, f"{f.module.relpath}:{c.lineno} overflow of the rounding handled")
            else:
                r.fail(inst, Finding("C14.R11", f.fq, f"fold-overflow-unhandled:{unparse(v)[:30]}", f"`{unparse(c)[:70]}` rounds a computed value to the precision of the operand type by packing it; for a finite result that exceeds the type's range (mulf 3e38, 10 : f32) struct.pack raises OverflowError, which nothing catches: canonicalize fails instead of folding to infinity or leaving the operation in place", f"{f.module.relpath}:{c.lineno}"))
    if n == 0:
        raise AnalysisError(f"{CP}: no FloatAttr built from a computed value found")


def check_float_units(idx: Index, rep: Report) -> None:
    """`x + 0.0` is not `x` for x = -0.0 (the sum is +0.0), `x - (-0.0)` likewise: a float operation may be replaced by one
    of its operands because the other is a constant only if the test distinguishes the two zeros (0.0 == -0.0 in Python)."""
    r = rep.rule("C14.R13", "a floating-point operation is replaced by one of its own operands under a test `<constant payload> == <value>` only when that value is not a zero, or the sign of the zero is tested as well", floor=None)
    mi = idx.module(CP)
    n = 0
    for f in raw_funcs(mi):
        if f.name != "match_and_rewrite":
            continue
        cfg = None
        for c in calls_in(f.node):
            if not (unparse(c.func) == "rewriter.replace" or call_attr(c) in ("replace_matched_op", "replace_op")):
                continue
            # replaced by its own operand(s)
            newvals = c.args[2] if len(c.args) > 2 else next((k.value for k in c.keywords if k.arg in ("new_results",)), None)
            if newvals is None or not re.search(r"\bop\.(lhs|rhs)\b", unparse(newvals)):
                continue
            if cfg is None:
                cfg = CFG(f.node)
            for t, pol in guard_facts(f.node, c):
                if not pol or not isinstance(t, ast.Compare) or len(t.ops) != 1 or not isinstance(t.ops[0], ast.Eq):
                    continue
                sides = [t.left, t.comparators[0]]
                payload = [x for x in sides if re.search(r"\.value\.data$", unparse(x))]
                if not payload:
                    continue
                other = next(x for x in sides if x is not payload[0])
                ot = resolved_text(cfg, other, cfg.node_of(c))
                vals: list[object] = []
                try:
                    oe = ast.parse(ot, mode="eval").body
                except SyntaxError:
                    continue
                if isinstance(oe, ast.Constant):
                    vals = [oe.value]
                elif isinstance(oe, ast.UnaryOp) and isinstance(oe.op, ast.USub) and isinstance(oe.operand, ast.Constant):
                    vals = [-oe.operand.value]
                else:
                    for nm_ in {x.id for x in ast.walk(oe) if isinstance(x, ast.Name)}:
                        d_ = mi.assigns.get(nm_)
                        if isinstance(d_, ast.Dict):
                            vals += [v_.value for v_ in d_.values if isinstance(v_, ast.Constant)]
                floats = [v_ for v_ in vals if isinstance(v_, float)]
                if not floats:
                    continue
                n += 1
                inst = f"{f.fq}:{unparse(t)[:50]}"
                facts_txt = " ".join(unparse(t2) for t2, _ in guard_facts(f.node, c))
                if any(v_ == 0.0 for v_ in floats) and not re.search(r"copysign|signbit|hex\(|is_negative|struct\.pack", facts_txt):
                    r.fail(inst, Finding("C14.R13", f.fq, "signed-zero-unit", f"`{unparse(c)[:60]}` replaces a floating-point operation by its operand when `{unparse(t)[:70]}`, and the compared value can be 0.0: Python's `==` does not tell +0.0 from -0.0, but `x + (+0.0)` and `x - (-0.0)` are +0.0 for x = -0.0, not x", f"{CP}:{c.lineno}"))
                else:
                    r.ok(inst, f"{CP}:{c.lineno} unit test on a non-zero value / sign-aware")
    r.ok("self-check", f"{n} float unit eliminations found in {CP}")


def check_divf_zero(idx: Index, rep: Report) -> None:
    """x / ±0.0: the fold special-cases a zero divisor (Python raises ZeroDivisionError).  IEEE 754 gives an infinity
    whose sign is the product of the signs of x and of the zero, and nan for 0 / 0 and nan / 0: every value assigned
    under `rhs == 0.0` that is an infinity must depend on the sign of the divisor, and a nan numerator must give nan."""
    from ..paths import enum_paths

    r = rep.rule("C14.R12", "the divf fold for a zero divisor takes the sign of the (signed) zero into account and maps a nan numerator to nan", floor=1)
    f = idx.func(CP, "_fold_const_operation")
    rhs = f.node.args.args[2].arg
    lhs = f.node.args.args[1].arg
    n = 0
    # the local holding the folded value: what the resulting FloatAttr is built from
    fa = [c_ for c_ in calls_in(f.node) if call_attr(c_) == "FloatAttr" and c_.args and isinstance(c_.args[0], ast.Name)]
    valn = fa[0].args[0].id if fa else "val"
    for pth in enum_paths(f.node):
        if not pth.feasible():
            continue
        nf = pth.nfacts()
        if (f"{rhs}.value.data == 0.0", True) not in nf or not any("DivfOp" in t_ and p_ for t_, p_ in nf):
            continue
        vals = [e_ for e_ in pth.effects if isinstance(e_, ast.Assign) and unparse(e_.targets[0]) == valn]
        if not vals:
            continue
        n += 1
        v = unparse(vals[-1].value)
        inst = f"{f.fq}:divf-zero:{v[:30]}"
        is_inf = bool(re.search(r"inf", v))
        sign_of_divisor = rhs in v or any(re.search(rf"copysign\([^)]*{rhs}|signbit\({rhs}|{rhs}[^=]*< 0", t_) for t_, _ in nf)
        nan_excluded = any(re.search(rf"isnan\({lhs}\.value\.data\)", t_) for t_, _ in nf)
        if is_inf and not sign_of_divisor:
            r.fail(inst, Finding("C14.R12", f.fq, "signed-zero-divisor", f"under {sorted(t_ for t_, p_ in nf if p_)[:3]} the fold of x / 0.0 is `{v}`, which does not depend on the sign of the zero divisor: 1.0 / -0.0 is -inf in IEEE 754 (and in MLIR's APFloat), the fold yields +inf", f"{f.module.relpath}:{vals[-1].lineno}"))
        elif is_inf and not nan_excluded:
            r.fail(inst, Finding("C14.R12", f.fq, "nan-numerator", f"the fold of x / 0.0 yields `{v}` without excluding a nan numerator: nan / 0.0 is nan", f"{f.module.relpath}:{vals[-1].lineno}"))
        else:
            r.ok(inst, f"{f.loc} `{v[:60]}`")
    if n == 0:
        raise AnalysisError(f"{f.fq}: zero-divisor case of the divf fold not found")


def check_select_patterns(idx: Index, rep: Report) -> None:
    """select %c, K1, K0 over constants may be replaced by the condition itself (i1, K1 true, K0 false) or by its zero
    extension (K1 == 1 and K0 == 0).  Truthiness of K1 is enough only for i1, where the only non-zero value is true."""
    from ..paths import enum_paths

    r = rep.rule("C14.R10", "select-of-constants patterns: the condition (or its zero / sign extension) replaces the select only under tests that pin the constants to the values the replacement produces", floor=1)
    f = idx.func(CP, "SelectTrueFalsePattern.match_and_rewrite")
    n = 0
    for pth in enum_paths(f.node):
        if not pth.feasible():
            continue
        nf = pth.nfacts()
        for k, e_ in enumerate(pth.effects):
            if not (isinstance(e_, ast.Expr) and isinstance(e_.value, ast.Call) and unparse(e_.value.func).startswith("rewriter.replace")):
                continue
            txt = pth.res(e_.value, k)
            n += 1
            inst = f"{f.fq}:{unparse(e_.value)[:50]}"
            m_ = re.search(r"arith\.Ext(UI|SI)Op\(", txt)
            i1 = any(p_ and re.search(r"== IntegerType\(1\)|== i1\b", t_) for t_, p_ in nf) or any((not p_) and re.search(r"!= IntegerType\(1\)|!= i1\b", t_) for t_, p_ in nf)
            if m_:
                want = "1" if m_.group(1) == "UI" else "-1"
                pinned = any(p_ and re.search(rf"== {re.escape(want)}$", t_) for t_, p_ in nf)
                if pinned:
                    r.ok(inst, f"{f.loc} extension of the condition under `== {want}`")
                else:
                    r.fail(inst, Finding("C14.R10", f.fq, f"extension-for-any-nonzero:{m_.group(1)}", f"`{unparse(e_.value)[:80]}` replaces select %c, K, 0 by the {'zero' if m_.group(1) == 'UI' else 'sign'} extension of %c under {sorted(nf)[:4]}: nothing pins K to {want}, so select %c, 7, 0 : i32 becomes extui %c, which is 1", f"{f.module.relpath}:{e_.lineno}"))
            elif re.search(r"\(op\.cond,\)|\[op\.cond\]", txt):
                if i1:
                    r.ok(inst, f"{f.loc} the condition replaces an i1 select")
                else:
                    r.fail(inst, Finding("C14.R10", f.fq, "condition-for-wide-select", f"`{unparse(e_.value)[:80]}` replaces the select by its i1 condition without the result type being tested to be i1", f"{f.module.relpath}:{e_.lineno}"))
            else:
                r.ok(inst, None)
    if n == 0:
        raise AnalysisError(f"{f.fq}: no replacement found")


def check(idx: Index, rep: Report, tier: str) -> str:
    rep.run(check_truncation, idx, rep)
    rep.run(check_exceptions, idx, rep)
    rep.run(check_tables, idx, rep)
    rep.run(check_fold_guards, idx, rep)
    rep.run(check_cse, idx, rep)
    rep.run(check_cse_scopes, idx, rep)
    rep.run(check_int_division, idx, rep)
    rep.run(check_truth_propagation, idx, rep)
    rep.run(check_fastmath_guards, idx, rep)
    rep.run(check_select_patterns, idx, rep)
    rep.run(check_float_fold_overflow, idx, rep)
    rep.run(check_divf_zero, idx, rep)
    rep.run(check_float_units, idx, rep)
    return (
        "Table-agreement and guard rules over arith's folders, the arith canonicalization patterns, constant-fold-interp, "
        "the constant-folding test pass and CSE: folded integers are truncated, fold patterns catch what the interpreter "
        "implementations raise, folder / interpreter operators agree, reflexive predicate set and unit / zero elements match "
        "the reference tables, left-identity folding requires commutativity, CSE replacement guards. Value-level correctness of "
        "individual folds (e.g. signed zeros in divf) is not decided."
    )
