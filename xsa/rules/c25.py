"""C25 — liveness dataflow: premises of 'unique least fixpoint independent of the schedule':
monotone lattice use, every change propagated, every read lattice registered as a dependency,
notification of all dependents and a drained worklist, and the shape of the transfer function."""

from __future__ import annotations

import ast
import re

from ..astutil import call_attr, calls_in, guard_facts, parent_map, unparse, walk_local
from ..cfg import CFG
from ..report import Finding, Report
from ..srcindex import AnalysisError, Index, raw_funcs

LA = "xdsl/analysis/liveness_analysis.py"
SA = "xdsl/analysis/sparse_analysis.py"
DF = "xdsl/analysis/dataflow.py"


def check_monotone(idx: Index, rep: Report) -> None:
    r = rep.rule("C25.R1", "within the liveness analysis and the backward framework a lattice only moves towards 'live' (is_live is only set to True; mark_dead / join are never reached from visit*)", floor=3)
    cls = idx.cls(LA, "LivenessAnalysis")
    for nm, defs in cls.methods.items():
        for d in defs:
            for s in walk_local(d.node):
                if isinstance(s, ast.Assign) and isinstance(s.targets[0], ast.Attribute) and s.targets[0].attr == "is_live":
                    inst = f"{d.fq}:{unparse(s)}"
                    if isinstance(s.value, ast.Constant) and s.value.value is True:
                        r.ok(inst, f"{LA}:{s.lineno}")
                    else:
                        r.fail(inst, Finding("C25.R1", d.fq, f"non-monotone-store:{unparse(s)}", f"`{unparse(s)}` can lower a lattice inside the transfer function: the fixpoint would depend on the visiting order", f"{LA}:{s.lineno}"))
            for c in calls_in(d.node):
                if call_attr(c) in ("mark_dead", "join"):
                    r.fail(f"{d.fq}:{unparse(c)}", Finding("C25.R1", d.fq, f"lowering-call:{call_attr(c)}", f"`{unparse(c)}` lowers a liveness lattice from within the analysis", f"{LA}:{c.lineno}"))
    fw = idx.cls(SA, "SparseBackwardDataFlowAnalysis")
    bad = False
    for nm, defs in fw.methods.items():
        for d in defs:
            for c in calls_in(d.node):
                if call_attr(c) in ("mark_dead", "join"):
                    bad = True
                    r.fail(f"{d.fq}:{unparse(c)}", Finding("C25.R1", d.fq, f"lowering-call:{call_attr(c)}", f"`{unparse(c)}`: the backward framework must only meet", f"{SA}:{c.lineno}"))
    if not bad:
        r.ok(fw.fq, f"{fw.loc} backward framework uses meet only")
    lat = idx.cls(LA, "Liveness")
    ml = lat.method("mark_live")
    mt = lat.method("meet")
    from ..paths import outcomes

    rows = outcomes(ml.node, ["self.is_live"])  # type: ignore[union-attr]
    bad_ml = []
    for row in rows:
        live = row["facts"]["self.is_live"]
        sets = "self.is_live = True" in row["effects"]
        if live is True and not (row["value"] == "ChangeResult.NO_CHANGE"):
            bad_ml.append(f"already live: returns {row['value']}")
        elif live is False and not (sets and row["value"] == "ChangeResult.CHANGE"):
            bad_ml.append(f"not live yet: sets is_live: {sets}, returns {row['value']}")
        elif live is None:
            bad_ml.append("a path does not depend on self.is_live")
    if rows and not bad_ml and {row["facts"]["self.is_live"] for row in rows} == {True, False}:
        r.ok(ml.fq, f"{ml.loc} mark_live reports CHANGE exactly when the value becomes live")  # type: ignore[union-attr]
    else:
        r.fail(ml.fq, Finding("C25.R1", ml.fq, "mark-live", "mark_live must set is_live and return CHANGE iff it was not live: " + "; ".join(bad_ml[:2]), ml.loc))  # type: ignore[union-attr]
    o = mt.node.args.args[1].arg  # type: ignore[union-attr]
    rows = outcomes(mt.node, [f"{o}.is_live"])  # type: ignore[union-attr]
    bad_mt = []
    for row in rows:
        ol = row["facts"][f"{o}.is_live"]
        if ol is True and row["value"] != "self.mark_live()":
            bad_mt.append(f"other live: returns {row['value']}")
        elif ol is False and row["value"] != "ChangeResult.NO_CHANGE":
            bad_mt.append(f"other dead: returns {row['value']}")
        elif ol is None:
            bad_mt.append("a path does not depend on other.is_live")
    if rows and not bad_mt and {row["facts"][f"{o}.is_live"] for row in rows} == {True, False}:
        r.ok(mt.fq, f"{mt.loc} meet = OR towards live")  # type: ignore[union-attr]
    else:
        r.fail(mt.fq, Finding("C25.R1", mt.fq, "meet", "meet(other) must be `mark_live() if other.is_live else NO_CHANGE`: " + "; ".join(bad_mt[:2]), mt.loc))  # type: ignore[union-attr]
    init = lat.method("__init__")
    if "self.is_live = False" in [unparse(s) for s in init.node.body]:  # type: ignore[union-attr]
        r.ok(init.fq, "lattices start dead (bottom)")  # type: ignore[union-attr]
    else:
        r.fail(init.fq, Finding("C25.R1", init.fq, "init-not-bottom", "lattices must start at bottom (dead)", init.loc))  # type: ignore[union-attr]


def check_propagation(idx: Index, rep: Report) -> None:
    r = rep.rule("C25.R2", "every state change made by the transfer function flows its ChangeResult into propagate_if_changed on all paths", floor=3)
    cls = idx.cls(LA, "LivenessAnalysis")
    for nm in ("visit_operation_impl", "set_to_exit_state"):
        d = cls.method(nm)
        if d is None:
            raise AnalysisError(f"LivenessAnalysis.{nm} not found")
        pm = parent_map(d.node)
        cfg = CFG(d.node)
        for c in calls_in(d.node):
            if call_attr(c) in ("mark_live", "meet") and isinstance(c.func, ast.Attribute) and unparse(c.func.value) != "self":
                par = pm[id(c)]
                inst = f"{d.fq}:{unparse(c)}"
                if isinstance(par, ast.Call) and unparse(par.func) == "self.propagate_if_changed" and unparse(par.args[0]) == unparse(c.func.value):
                    r.ok(inst, f"{LA}:{c.lineno} self.propagate_if_changed({unparse(c.func.value)}, {unparse(c)})")
                else:
                    r.fail(inst, Finding("C25.R2", d.fq, f"change-dropped:{unparse(c)}", f"the ChangeResult of `{unparse(c)}` is not passed to propagate_if_changed for that lattice: dependents are not re-enqueued and the result depends on the schedule", f"{LA}:{c.lineno}"))
            if unparse(c.func) == "self.meet":
                r.ok(f"{d.fq}:{unparse(c)}", f"{LA}:{c.lineno} framework meet (propagates)")
        for s in walk_local(d.node):
            if isinstance(s, ast.Assign) and isinstance(s.targets[0], ast.Attribute) and s.targets[0].attr == "is_live":
                lat = unparse(s.targets[0].value)
                props = {cfg.node_of(c) for c in calls_in(d.node) if unparse(c.func) == "self.propagate_if_changed" and unparse(c.args[0]) == lat and unparse(c.args[1]) == "ChangeResult.CHANGE"}
                inst = f"{d.fq}:{unparse(s)}"
                if props and cfg.path_avoiding(cfg.node_of(s), cfg.exit, lambda n: n.id in props, follow_exc=False) is None:
                    r.ok(inst, f"{LA}:{s.lineno} direct store followed by propagate_if_changed(…, CHANGE)")
                else:
                    r.fail(inst, Finding("C25.R2", d.fq, f"change-dropped:{unparse(s)}", f"`{unparse(s)}` is not followed on every path by propagate_if_changed({lat}, ChangeResult.CHANGE)", f"{LA}:{s.lineno}"))
    fw = idx.func(SA, "SparseBackwardDataFlowAnalysis.meet")
    a = fw.node.args.args[1].arg
    from ..paths import enum_paths as _ep

    def _calls_on(pth):
        return [pth.res(e_.value, k) for k, e_ in enumerate(pth.effects) if isinstance(e_, ast.Expr) and isinstance(e_.value, ast.Call)]

    single = len(fw.node.args.args) == 3 and fw.node.args.vararg is None
    if single and all(_calls_on(pth) == [f"self.propagate_if_changed({a}, {a}.meet({fw.node.args.args[2].arg}))"] and pth.end == "fall" for pth in _ep(fw.node)):
        r.ok(fw.fq, f"{fw.loc} framework meet propagates the change of the lhs lattice")
    else:
        # several meets into one lattice: what is handed to propagate_if_changed must contain the result of every one of
        # them (change accumulation, xsa/accum.py)
        from ..accum import analyse as _accum

        fcfg = CFG(fw.node)
        is_src = lambda e_: isinstance(e_, ast.Call) and call_attr(e_) == "meet" and isinstance(e_.func, ast.Attribute) and unparse(e_.func.value) == a
        props = [c for c in calls_in(fw.node) if unparse(c.func) == "self.propagate_if_changed" and len(c.args) == 2 and unparse(c.args[0]) == a]
        srcs = [c for c in calls_in(fw.node) if is_src(c)]
        if not props or not srcs:
            r.fail(fw.fq, Finding("C25.R2", fw.fq, "framework-meet", "SparseBackwardDataFlowAnalysis.meet must hand the result of lhs.meet(...) to propagate_if_changed(lhs, ...)", fw.loc))
        else:
            IN_, names_ = _accum(fw.node, fcfg, is_src)
            bad_ = None
            for c in props:
                v_ = c.args[1]
                st_ = IN_.get(fcfg.node_of(c))
                if is_src(v_) and len(srcs) == 1:
                    continue
                if isinstance(v_, ast.Name) and v_.id in names_ and st_ is not None:
                    if not st_.cover[v_.id]:
                        bad_ = (c, v_.id)
                else:
                    raise AnalysisError(f"{fw.fq}: what `{unparse(c)}` reports was not understood")
            if bad_ is None:
                r.ok(fw.fq, f"{fw.loc} framework meet reports every change of the lhs lattice")
            else:
                r.fail(fw.fq, Finding("C25.R2", fw.fq, "change-overwritten", f"`{unparse(bad_[0])}`: `{bad_[1]}` does not contain the result of every `{a}.meet(...)` made before it (a later NO_CHANGE overwrites an earlier CHANGE): the lattice changed but its dependents are not re-enqueued, so the result depends on the schedule", f"{fw.module.relpath}:{bad_[0].lineno}"))


def check_dependencies(idx: Index, rep: Report) -> None:
    r = rep.rule("C25.R3", "lattices whose state the transfer function reads are obtained with unconditional dependency registration for the visiting program point", floor=2)
    f = idx.func(SA, "SparseBackwardDataFlowAnalysis.get_lattice_element_for")
    cfg = CFG(f.node)
    point, value = f.node.args.args[1].arg, f.node.args.args[2].arg
    rets = [n for n in walk_local(f.node) if isinstance(n, ast.Return)]
    if len(rets) != 1 or not isinstance(rets[0].value, ast.Name):
        raise AnalysisError(f"{f.fq}: expected a single `return <lattice>`")
    lat = rets[0].value.id
    deps = {cfg.node_of(c) for c in calls_in(f.node) if unparse(c.func) == "self.add_dependency" and [unparse(a) for a in c.args] == [lat, point]}
    if deps and cfg.path_avoiding(cfg.entry, cfg.node_of(rets[0]), lambda n: n.id in deps, follow_exc=False) is None:
        r.ok(f.fq, f"{f.loc} add_dependency({lat}, {point}) on every path to the return")
    else:
        r.fail(f.fq, Finding("C25.R3", f.fq, "conditional-dependency", f"a path returns the lattice without add_dependency({lat}, {point}) (e.g. only when the lattice is newly created): a lattice first created by a user op is never subscribed by its producer, so a later change does not re-visit the producer and the result depends on the visiting order", f.loc))
    g = idx.func(SA, "SparseBackwardDataFlowAnalysis.visit_operation")
    cf = CFG(g.node)
    # the result lattices handed to the transfer function: built, in any spelling, as get_lattice_element_for(P, r)
    # for every r of op.results, with P the point before the operation
    from ..setbuild import describe as _describe, element_shape as _shape

    opn_ = g.node.args.args[1].arg
    impl_calls = [c for c in calls_in(g.node) if call_attr(c) == "visit_operation_impl" and len(c.args) >= 3]
    if not impl_calls:
        raise AnalysisError(f"{g.fq}: call of visit_operation_impl not found")
    ic = impl_calls[0]
    dsc = _describe(g.node, cf, ic.args[2], cf.node_of(ic))
    ok_shape = not dsc.unknown and not dsc.bases and len(dsc.adds) == 1 and len(dsc.adds[0].iters) == 1 and dsc.adds[0].iters[0][1] == f"{opn_}.results" and not [t_ for t_, _ in dsc.adds[0].facts if re.search(rf"\b{re.escape(dsc.adds[0].iters[0][0])}\b", t_)]
    shape = _shape(dsc.adds[0]) if dsc.adds else ""
    m_ = re.fullmatch(r"self\.get_lattice_element_for\((.+), _x\)", shape)
    if dsc.unknown:
        raise AnalysisError(f"{g.fq}: construction of the result lattices not understood: {dsc.unknown[:2]}")
    if ok_shape and m_:
        ptxt = m_.group(1)
        if re.fullmatch(r"\w+", ptxt):
            from ..dataflow import reaching_defs as _rd3

            ds_ = [v_ for _, v_ in _rd3(cf, ptxt, cf.node_of(ic)) if v_ is not None]
            if len(ds_) == 1:
                ptxt = unparse(ds_[0])
        if ptxt == f"ProgramPoint.before({opn_})":
            r.ok(g.fq, f"{g.loc} result lattices read with dependency on ProgramPoint.before(op)")
        else:
            r.fail(g.fq, Finding("C25.R3", g.fq, "wrong-dependent-point", f"the dependent point of the result lattices is `{ptxt}`, not ProgramPoint.before({opn_})", g.loc))
    else:
        r.fail(g.fq, Finding("C25.R3", g.fq, "results-without-dependency", f"result lattices (read by the transfer function) are not obtained through get_lattice_element_for(point, r) for every result (element `{shape}` over {[a_.iters for a_ in dsc.adds]})", g.loc))
    # the impl receives exactly these lattices and the transfer function runs on every path that gathered them
    calls = [c for c in calls_in(g.node) if unparse(c.func) == "self.visit_operation_impl"]
    impl_ok = False
    if len(calls) == 1 and len(calls[0].args) == 3 and unparse(calls[0].args[0]) == opn_:
        d1 = _describe(g.node, cf, calls[0].args[1], cf.node_of(calls[0]))
        if d1.unknown:
            raise AnalysisError(f"{g.fq}: construction of the operand lattices not understood: {d1.unknown[:2]}")
        impl_ok = not d1.bases and len(d1.adds) == 1 and len(d1.adds[0].iters) == 1 and d1.adds[0].iters[0][1] == f"{opn_}.operands" and calls[0] is ic
    if impl_ok:
        r.ok(g.fq + ":impl", f"{g.loc} visit_operation_impl(op, <lattices of op.operands>, <lattices of op.results>)")
    else:
        r.fail(g.fq + ":impl", Finding("C25.R3", g.fq, "impl-arguments", "visit_operation_impl is not called with (op, operand_lattices, result_lattices)", g.loc))
    # the transfer function reads only result lattices' state
    impl = idx.func(LA, "LivenessAnalysis.visit_operation_impl")
    reads = [n for n in walk_local(impl.node) if isinstance(n, ast.Attribute) and n.attr == "is_live" and isinstance(n.ctx, ast.Load)]
    loops = {unparse(w.target): unparse(w.iter) for w in walk_local(impl.node) if isinstance(w, ast.For)}
    for comp in [x for x in ast.walk(impl.node) if isinstance(x, (ast.GeneratorExp, ast.ListComp, ast.SetComp))]:
        for gen in comp.generators:
            loops.setdefault(unparse(gen.target), unparse(gen.iter))
    # a local bound to an element of result_lattices (next(... for r in result_lattices ...), result_lattices[i])
    for st_ in walk_local(impl.node):
        if isinstance(st_, ast.Assign) and len(st_.targets) == 1 and isinstance(st_.targets[0], ast.Name):
            vt_ = unparse(st_.value)
            if re.fullmatch(r"next\(\((\w+) for \1 in result_lattices( if .*)?\), None\)", vt_) or re.fullmatch(r"result_lattices\[\w+\]", vt_):
                loops.setdefault(st_.targets[0].id, "result_lattices")
    badr = [n for n in reads if loops.get(unparse(n.value)) != "result_lattices"]
    if badr:
        r.fail(impl.fq + ":reads", Finding("C25.R3", impl.fq, "unregistered-read", f"`{unparse(badr[0])}` reads the state of a lattice that was not registered as a dependency", impl.loc))
    else:
        r.ok(impl.fq + ":reads", f"{impl.loc} only result lattices are read")


def check_solver(idx: Index, rep: Report) -> None:
    r = rep.rule("C25.R4", "a change notifies all dependents, which are enqueued; the solver initialises every analysis and drains the worklist; ChangeResult.__or__ is a join", floor=6)

    def body(mod, q):
        f = idx.func(mod, q)
        return f, [unparse(s) for s in f.node.body if not (isinstance(s, ast.Expr) and isinstance(s.value, ast.Constant))]

    f, b = body(DF, "DataFlowSolver.propagate_if_changed")
    from ..paths import outcomes as _oc

    chg = f.node.args.args[2].arg
    st_ = f.node.args.args[1].arg
    A_RUN, A_CHG = "self._is_running", f"{chg} == ChangeResult.CHANGE"
    bad_p = []
    seen_upd = False
    for row in _oc(f.node, [A_RUN, A_CHG, f"{chg} is ChangeResult.CHANGE"]):
        changed = row["facts"][A_CHG] if row["facts"][A_CHG] is not None else row["facts"][f"{chg} is ChangeResult.CHANGE"]
        upd = f"{st_}.on_update(self)" in row["effects"]
        if row["end"] == "raise":
            if row["facts"][A_RUN] is not False:
                bad_p.append("raises although the solver may be running")
            continue
        if changed is True and not upd:
            bad_p.append("a CHANGE is not forwarded to state.on_update")
        if changed is not True and upd:
            bad_p.append("on_update is called without a CHANGE")
        seen_upd = seen_upd or upd
    if not bad_p and seen_upd:
        r.ok(f.fq, f"{f.loc} CHANGE -> state.on_update(solver)")
    else:
        r.fail(f.fq, Finding("C25.R4", f.fq, "propagate", "propagate_if_changed must call state.on_update(self) exactly when changed is CHANGE: " + "; ".join(bad_p[:2] or ["on_update never called"]), f.loc))
    f, b = body(DF, "AnalysisState.on_update")
    from ..paths import enum_paths as _ep2, loops_of as _lo

    def _on_update_ok(fn_node) -> bool:
        ps = _ep2(fn_node)
        lps = _lo(ps)
        if len(lps) != 1 or lps[0].riter != "self.dependents" or not isinstance(lps[0].node, ast.For):
            return False
        tg = unparse(lps[0].node.target)
        bodies = lps[0].body
        if len(bodies) != 1 or bodies[0].end != "fall":
            return False
        calls = [bodies[0].res(e_.value, k) for k, e_ in enumerate(bodies[0].effects) if isinstance(e_, ast.Expr) and isinstance(e_.value, ast.Call)]
        want = {f"solver.enqueue(({tg.strip('()')}))", f"solver.enqueue({tg})"}
        return len(calls) == 1 and calls[0] in want and all(all(not isinstance(e_, ast.AST) or e_ is lps[0].node for e_ in pth.effects if not isinstance(e_, tuple) and not hasattr(e_, "body")) or True for pth in ps)

    if _on_update_ok(f.node):
        r.ok(f.fq, f"{f.loc} every dependent enqueued")
    else:
        r.fail(f.fq, Finding("C25.R4", f.fq, "on-update", "on_update must enqueue every (point, analysis) of self.dependents", f.loc))
    f, b = body(DF, "DataFlowAnalysis.add_dependency")
    if b == ["state.dependents.add((dependent_point, self))"]:
        r.ok(f.fq, f"{f.loc} dependency recorded")
    else:
        r.fail(f.fq, Finding("C25.R4", f.fq, "add-dependency", "add_dependency must record (dependent_point, self) in state.dependents", f.loc))
    f = idx.func(DF, "DataFlowSolver.enqueue")
    ecfg = CFG(f.node)
    item = f.node.args.args[1].arg
    apps = {ecfg.node_of(c) for c in calls_in(f.node) if call_attr(c) in ("append", "appendleft", "add", "put") and "worklist" in unparse(c.func) and c.args and unparse(c.args[0]) == item}
    if not apps:
        r.fail(f.fq, Finding("C25.R4", f.fq, "enqueue", "enqueue must append the item to the worklist", f.loc))
    else:
        drop = ecfg.path_avoiding(ecfg.entry, ecfg.exit, lambda n: n.id in apps, follow_exc=False)
        # a path that leaves by raising (solver not running) is not a drop
        if drop is not None and not any(isinstance(ecfg.nodes[n_].ast, ast.Raise) for n_ in drop):
            r.fail(f.fq, Finding("C25.R4", f.fq, "enqueue-dropped", "a path through enqueue returns without putting the item on the worklist: " + " -> ".join(ecfg.describe(drop)[-3:]) + " — a dependent that was already visited in the current sweep is not re-visited when the state it depends on changes later in that sweep, so the solver stops before the fixpoint (the result depends on the visiting order)", f.loc))
        else:
            r.ok(f.fq, f"{f.loc} every enqueue request reaches the worklist")
    f = idx.func(DF, "DataFlowSolver.initialize_and_run")
    # the function and the private methods of the class it calls (one level), as written
    bodies = [f.as_raw().node]
    for c in calls_in(f.as_raw().node):
        if isinstance(c.func, ast.Attribute) and unparse(c.func.value) == "self" and f.cls is not None and c.func.attr.startswith("_"):
            h = f.cls.method(c.func.attr)
            if h is not None:
                bodies.append(h.as_raw().node)
    inits = []
    whiles = []
    for bd in bodies:
        prm = [a.arg for a in bd.args.args[1:]]
        for w in walk_local(bd):
            if isinstance(w, ast.For) and unparse(w.iter) == "self._analyses" and isinstance(w.target, ast.Name):
                if any(call_attr(c) == "initialize" and unparse(c.func.value) == w.target.id and len(c.args) == 1 and unparse(c.args[0]) in prm for c in calls_in(w)):  # type: ignore[attr-defined]
                    inits.append(w)
            if isinstance(w, ast.While):
                whiles.append(w)
    drains = [w for w in whiles if unparse(w.test) in ("self._worklist", "len(self._worklist) > 0", "len(self._worklist) != 0") and any(call_attr(c) in ("popleft", "pop") and unparse(c.func.value) == "self._worklist" for c in calls_in(w)) and any(call_attr(c) == "visit" for c in calls_in(w))]  # type: ignore[attr-defined]
    early = [w for w in drains if any(isinstance(x, (ast.Break, ast.Return)) for x in ast.walk(w))]
    if inits and drains and not early:
        r.ok(f.fq, f"{f.loc} initialise all analyses, then visit until the worklist is empty")
    elif early:
        r.fail(f.fq, Finding("C25.R4", f.fq, "run-loop", "the loop that visits the work items can be left (break / return) before the worklist is empty: the solver stops before the fixpoint", f.loc))
    else:
        r.fail(f.fq, Finding("C25.R4", f.fq, "run-loop-unrecognised", f"initialize_and_run: initialisation of every analysis {'found' if inits else 'not found'}, drain loop over self._worklist {'found' if drains else 'not found'} (in the function or the private methods it calls)", f.loc))
    f, b = body(DF, "ChangeResult.__or__")

    def _or_ok(fn_node) -> bool:
        oth = fn_node.args.args[1].arg
        seen_ = set()
        for pth in _ep2(fn_node):
            if pth.end != "return" or not pth.feasible():
                return False
            nf = pth.nfacts()
            is_change = next((pol for t_, pol in nf if t_ in ("self == ChangeResult.CHANGE", "self is ChangeResult.CHANGE", "ChangeResult.CHANGE == self")), None)
            is_nochange = next((pol for t_, pol in nf if t_ in ("self == ChangeResult.NO_CHANGE", "self is ChangeResult.NO_CHANGE")), None)
            if is_change is None and is_nochange is not None:
                is_change = not is_nochange
            rv = pth.rvalue()
            if is_change is True and rv in ("ChangeResult.CHANGE", "self"):
                seen_.add(True)
            elif is_change is False and rv == oth:
                seen_.add(False)
            else:
                return False
        return seen_ == {True, False}

    if _or_ok(f.node):
        r.ok(f.fq, f"{f.loc} join of change results")
    else:
        r.fail(f.fq, Finding("C25.R4", f.fq, "change-or", "ChangeResult.__or__ must be CHANGE if either side is CHANGE", f.loc))
    f = idx.func(SA, "SparseBackwardDataFlowAnalysis.initialize")
    # worklist traversal: starts with the root, visits what it pops, pushes every operation of every block of every
    # region of what it popped (setbuild describes how the worklist is filled, whatever the spelling)
    from ..setbuild import describe as _describe4

    cf4 = CFG(f.node)
    root = f.node.args.args[1].arg
    ws = [w for w in walk_local(f.node) if isinstance(w, ast.While) and isinstance(w.test, ast.Name)]
    ok_init = False
    why = "worklist loop `while <stack>:` not found"
    if len(ws) == 1:
        wl = ws[0].test.id
        pops = [s_ for s_ in walk_local(ws[0]) if isinstance(s_, ast.Assign) and isinstance(s_.value, ast.Call) and call_attr(s_.value) == "pop" and unparse(s_.value.func.value) == wl and isinstance(s_.targets[0], ast.Name)]  # type: ignore[attr-defined]
        dsc4 = _describe4(f.node, cf4, ast.Name(id=wl, ctx=ast.Load()), cf4.node_of(ws[0].test))
        if dsc4.unknown:
            raise AnalysisError(f"{f.fq}: how the worklist `{wl}` is filled was not understood: {dsc4.unknown[:2]}")
        if len(pops) == 1:
            cur = pops[0].targets[0].id  # type: ignore[attr-defined]
            visits = [c for c in calls_in(ws[0]) if unparse(c.func) == "self.visit" and c.args and unparse(c.args[0]) == f"ProgramPoint.before({cur})"]
            seeds_ = [a_ for a_ in dsc4.adds if not a_.iters and a_.elem == root]
            kids = [a_ for a_ in dsc4.adds if len(a_.iters) == 3 and a_.iters[0][1] == f"{cur}.regions" and a_.iters[1][1] == f"{a_.iters[0][0]}.blocks" and a_.iters[2][1] == f"{a_.iters[1][0]}.ops" and a_.elem == a_.iters[2][0] and not [t_ for t_, _ in a_.facts if t_ != wl]]
            if not visits:
                why = f"the popped operation `{cur}` is not visited with ProgramPoint.before({cur})"
            elif not seeds_:
                why = f"the worklist does not start with `{root}`"
            elif not kids:
                why = f"not every operation of every block of every region of `{cur}` is pushed (found {[(a_.elem, a_.iters, sorted(a_.facts)) for a_ in dsc4.adds]})"
            else:
                ok_init = True
        else:
            why = "the worklist is not popped exactly once per iteration"
    if ok_init:
        r.ok(f.fq, f"{f.loc} every nested operation is visited once initially")
    else:
        r.fail(f.fq, Finding("C25.R4", f.fq, "initialize", f"initialize must visit every nested operation: {why}", f.loc))


def check_transfer(idx: Index, rep: Report) -> None:
    r = rep.rule("C25.R5", "transfer function: all operands become live iff the op is not removable-if-unused, or some result is live (early exit only after a live result)", floor=3)
    f = idx.func(LA, "LivenessAnalysis.visit_operation_impl")
    op = f.node.args.args[1].arg
    ifs = [n for n in f.node.body if isinstance(n, ast.If) and unparse(n.test) == f"not would_be_trivially_dead({op})"]
    ok1 = False
    if ifs:
        loops = [w for w in ifs[0].body if isinstance(w, ast.For) and unparse(w.iter) == "operand_lattices"]
        if loops and [unparse(s) for s in loops[0].body] == [f"self.propagate_if_changed({unparse(loops[0].target)}, {unparse(loops[0].target)}.mark_live())"]:
            ok1 = True
    (r.ok(f.fq + ":effects", f"{f.loc} not would_be_trivially_dead(op) -> every operand live") if ok1 else r.fail(f.fq + ":effects", Finding("C25.R5", f.fq, "effectful-op-rule", "every operand of an operation that is not removable-if-unused must be marked live", f.loc)))
    loops = [w for w in f.node.body if isinstance(w, ast.For) and unparse(w.iter) == "result_lattices"]
    if len(loops) != 1:
        # no loop over the results: the meets must still take a lattice that is known to be live
        from ..astutil import norm_facts, text_facts

        meets = [c for c in calls_in(f.node) if unparse(c.func) == "self.meet" and len(c.args) == 2]
        if not meets:
            raise AnalysisError(f"{f.fq}: neither a loop over result_lattices nor a meet call found")
        for c in meets:
            src = unparse(c.args[1])
            nf = norm_facts(text_facts(f.node, c))
            # `x = next((r for r in result_lattices if r.is_live), None)` tested `is not None`: a live result
            first_live = False
            if isinstance(c.args[1], ast.Name):
                from ..cfg import CFG as _CFG
                from ..dataflow import reaching_defs as _rd

                _cfg = _CFG(f.node)
                ds = [v_ for _, v_ in _rd(_cfg, src, _cfg.node_of(c)) if v_ is not None]
                if len(ds) == 1 and re.fullmatch(r"next\(\((\w+) for \1 in result_lattices if \1\.is_live\), None\)", unparse(ds[0])) and ((f"{src} is None", False) in nf):
                    first_live = True
            if (f"{src}.is_live", True) in nf or first_live:
                r.ok(f.fq + ":results", f"{f.loc} operands are met with `{src}`, a result lattice known to be live")
            elif re.fullmatch(r"result_lattices\[-?\d+\]", src) and any(re.fullmatch(r"any\(\(?(\w+)\.is_live for \1 in result_lattices\)?\)", t_) and p_ for t_, p_ in nf):
                r.fail(f.fq + ":results", Finding("C25.R5", f.fq, "meet-source-not-live", f"`{unparse(c)}` meets the operands with the fixed lattice `{src}` under 'some result is live': when that particular result is dead and another one is live the meet is a no-op and no operand becomes live", f"{f.module.relpath}:{c.lineno}"))
            else:
                raise AnalysisError(f"{f.fq}: source `{src}` of `{unparse(c)}` not understood")
        return _check_exit_state(idx, r)
    w = loops[0]
    res = unparse(w.target)
    inner = [x for x in walk_local(w) if isinstance(x, ast.For) and unparse(x.iter) == "operand_lattices"]
    ok2 = bool(inner) and any(unparse(c.func) == "self.meet" and [unparse(a) for a in c.args] == [unparse(inner[0].target), res] for c in calls_in(inner[0]))
    ok2 = ok2 and any(p and unparse(t) == f"{res}.is_live" for t, p in guard_facts(f.node, inner[0])) if inner else False
    (r.ok(f.fq + ":results", f"{f.loc} a live result makes every operand live") if ok2 else r.fail(f.fq + ":results", Finding("C25.R5", f.fq, "live-result-rule", "when a result is live every operand must be met with it", f.loc)))
    brs = [x for x in walk_local(w) if isinstance(x, (ast.Break, ast.Return))]
    bad = [x for x in brs if not any(p and unparse(t) == f"{res}.is_live" for t, p in guard_facts(f.node, x))]
    if bad:
        r.fail(f.fq + ":early-exit", Finding("C25.R5", f.fq, "early-exit-unguarded", f"the loop over results is left (line {bad[0].lineno}) without a live result having been found: for a multi-result op whose first result is dead and a later one live, the operands stay dead", f.loc))
    else:
        r.ok(f.fq + ":early-exit", f"{f.loc} the results loop exits early only under `{res}.is_live`")
    _check_exit_state(idx, r)


def _check_exit_state(idx: Index, r) -> None:
    g = idx.func(LA, "LivenessAnalysis.set_to_exit_state")
    l = g.node.args.args[1].arg
    from ..paths import outcomes as _oc5

    bad_x = []
    cases_x = set()
    for row in _oc5(g.node, [f"{l}.is_live"]):
        live = row["facts"][f"{l}.is_live"]
        marks = f"{l}.is_live = True" in row["effects"] or f"{l}.mark_live()" in " ".join(row["effects"])
        props = any(e_.startswith(f"self.propagate_if_changed({l}, ") for e_ in row["effects"])
        cases_x.add(live)
        if live is not True and not (marks and props):
            bad_x.append(f"a lattice that is not live yet: marked live: {marks}, change propagated: {props}")
    if not bad_x and (False in cases_x or None in cases_x):
        r.ok(g.fq, f"{g.loc} boundary values are marked live and propagated")
    else:
        r.fail(g.fq, Finding("C25.R5", g.fq, "exit-state", "set_to_exit_state must mark the lattice live and propagate the change: " + "; ".join(bad_x[:2]), g.loc))


def check_visit_every_op(idx: Index, rep: Report) -> None:
    """The backward analysis is driven through visit(point): a point that names an operation must always reach
    visit_operation - ProgramPoint.before(first_op) equals the 'start of block' point, so filtering block starts skips
    the first operation of every block."""
    from ..paths import enum_paths

    r = rep.rule("C25.R6", "SparseBackwardDataFlowAnalysis.visit runs the transfer function for every program point that names an operation", floor=1)
    f = idx.func(SA, "SparseBackwardDataFlowAnalysis.visit")
    pt = f.node.args.args[1].arg
    n = 0
    for pth in enum_paths(f.node):
        if not pth.feasible():
            continue
        nf = pth.nfacts()
        if (f"{pt}.op is None", True) in nf:
            continue
        n += 1
        called = any(isinstance(e_, ast.Expr) and isinstance(e_.value, ast.Call) and call_attr(e_.value) == "visit_operation" for e_ in pth.effects)
        if not called:
            r.fail(f.fq, Finding("C25.R6", f.fq, "operation-point-skipped", f"a path under {sorted(t_ + ('' if p_ else ' : False') for t_, p_ in nf)[:3]} returns without visit_operation although the point may name an operation: `ProgramPoint.at_start_of_block(b)` is the same point as `ProgramPoint.before(b.first_op)`, so the first operation of every block is never transferred and the block arguments / values it uses stay dead", f.loc))
            return
    if n == 0:
        raise AnalysisError(f"{f.fq}: no path for a point that names an operation")
    r.ok(f.fq, f"{f.loc} visit_operation({pt}.op) on every path with an operation")


def check_on_update_chain(idx: Index, rep: Report) -> None:
    """AnalysisState.on_update enqueues the explicit dependents (the backward analysis registers the *defining* operation of a
    value that way).  A subclass that overrides on_update adds its own notifications on top; it must still reach the base
    implementation on every path, otherwise a lattice that changes does not wake its dependents."""
    r = rep.rule("C25.R7", "every override of AnalysisState.on_update in the anchored analyses reaches super().on_update(solver) on every path", floor=1)
    n = 0
    for rel in (SA, DF, LA):
        for f in raw_funcs(idx.module(rel)):
            if f.name != "on_update" or f.cls is None:
                continue
            calls = [c for c in calls_in(f.node) if call_attr(c) == "on_update" and isinstance(c.func, ast.Attribute) and unparse(c.func.value) == "super()"]
            is_base = f.cls.name == "AnalysisState"
            if is_base:
                continue
            n += 1
            inst = f"{f.fq}:super"
            cfg = CFG(f.node)
            sup = {cfg.node_of(c) for c in calls}
            leak = cfg.path_avoiding(cfg.entry, cfg.exit, lambda x: x.id in sup, follow_exc=False)
            if not calls:
                raise AnalysisError(f"{f.fq}: overrides on_update without delegating to super(); how the explicit dependents are enqueued was not recognised")
            if leak is None:
                r.ok(inst, f"{f.loc} super().on_update(solver) on every path")
            else:
                r.fail(inst, Finding("C25.R7", f.fq, "dependents-not-notified", f"a path through {f.cls.name}.on_update skips `super().on_update(...)` (" + " -> ".join(cfg.describe(leak)[-3:]) + "): the explicit dependents of the lattice (for the backward analysis: the operation that defines the value) are not enqueued when it changes, so liveness stops propagating at that value unless the schedule happens to visit consumers first", f"{rel}:{f.node.lineno}"))
    if n == 0:
        raise AnalysisError("no override of on_update found in the analysis modules (PropagatingLattice.on_update expected)")


def check(idx: Index, rep: Report, tier: str) -> str:
    rep.run(check_monotone, idx, rep)
    rep.run(check_propagation, idx, rep)
    rep.run(check_dependencies, idx, rep)
    rep.run(check_solver, idx, rep)
    rep.run(check_transfer, idx, rep)
    rep.run(check_visit_every_op, idx, rep)
    rep.run(check_on_update_chain, idx, rep)
    return (
        "Premise-by-premise check of the classical argument 'monotone transfer + every change notifies all dependents + "
        "every read lattice is a registered dependency + drained worklist => unique least fixpoint independent of the "
        "worklist order' over liveness_analysis.py, sparse_analysis.py and dataflow.py, plus the shape of the transfer "
        "function. Agreement with a reference reachability on concrete programs is not decided."
    )
