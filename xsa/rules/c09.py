"""C09 — IRDL attribute constraints: soundness of the exact-class dispatch table (get_bases),
union merging (relax_constraint absorbs only under inclusion, widens at most one position),
forwarding of variables / type-var mapping / inference through wrappers, binding after verification."""

from __future__ import annotations

import ast
import re

from ..astutil import call_attr, calls_in, conjuncts, guard_facts, unparse, walk_local
from ..cfg import CFG
from ..dataflow import resolved_text
from ..report import Finding, Report
from ..setbuild import describe as describe_set
from ..srcindex import AnalysisError, ClassInfo, Index, raw_funcs
from .c10 import check_var_binding

CONS = "xdsl/irdl/constraints.py"


def _final_class(idx: Index, mi, name: str) -> bool:
    k = idx.resolve_class(mi, ast.Name(id=name, ctx=ast.Load()))
    return k is not None and any(d.endswith("irdl_attr_definition") for d in k.decorator_names())



def _widening_typestate(fn: ast.AST, loop: ast.For) -> str | None:
    """Merge loop over the parameter pairs (x, y) of two constraints.  A *store* into the new parameter list inside
    the loop is either the equal case (value is x or y, under the fact x == y, or the list was pre-filled) or a
    *widening*.  Every widening must (1) be guarded by "no widening happened yet" on a marker variable, (2) set that
    marker on the path to the next iteration, and (3) a second differing position must reach `return None`.
    Returns a description of the first broken clause, or None."""
    # loop variables standing for the two sides
    tgt = loop.target
    pair = None
    for t in ast.walk(tgt):
        if isinstance(t, ast.Tuple) and len(t.elts) == 2 and all(isinstance(e, ast.Name) for e in t.elts):
            pair = (t.elts[0].id, t.elts[1].id)
    if pair is None:
        raise AnalysisError("relax_constraint: the pair of loop variables is not recognised")
    x, y = pair
    eq_true = {f"{x} == {y}", f"{y} == {x}"}
    ne_true = {f"{x} != {y}", f"{y} != {x}"}

    def differs(facts) -> bool:
        return any((unparse(t) in eq_true and not pol) or (unparse(t) in ne_true and pol) for t, pol in facts)

    def equal(facts) -> bool:
        return any((unparse(t) in eq_true and pol) or (unparse(t) in ne_true and not pol) for t, pol in facts)

    # stores into a list inside the loop: <l>.append(v) / <l>[i] = v
    stores = []
    for n in walk_local(loop):
        if isinstance(n, ast.Call) and call_attr(n) == "append" and len(n.args) == 1:
            stores.append((n, n.args[0]))
        elif isinstance(n, ast.Assign) and isinstance(n.targets[0], ast.Subscript):
            stores.append((n, n.value))
    if not stores:
        raise AnalysisError("relax_constraint: no store into the merged parameter list found in the loop")
    # marker candidates: local names assigned inside the loop
    assigned = {t.id for n in walk_local(loop) if isinstance(n, ast.Assign) for t in n.targets if isinstance(t, ast.Name)}
    widenings = []
    for node, val in stores:
        facts = guard_facts(fn, node)
        vt = unparse(val)
        if vt in (x, y) and (equal(facts) or not differs(facts)):
            continue  # equal case keeps one side
        widenings.append((node, val, facts))
    if not widenings:
        return "no widening of a differing position found (the alternatives would be dropped)"
    for node, val, facts in widenings:
        vt = unparse(val)
        if vt not in (f"{x} | {y}", f"{y} | {x}"):
            # any other value stored for a differing position (AnyAttr(), one side only ...) is a widening too
            pass
        # (1) guarded by an unset marker
        marker = None
        for t, pol in facts:
            tt = unparse(t)
            for m in assigned:
                if (tt == m and not pol) or (tt == f"not {m}" and pol) or (tt == f"{m} is None" and pol) or (tt == f"{m} is not None" and not pol):
                    marker = m
        if marker is None:
            return f"`{unparse(node)[:60]}` widens a position without testing that no position was widened before"
        # (2) the marker is set in the same statement list as the widening
        blk = None
        for par in walk_local(loop):
            for fld in ("body", "orelse"):
                b = getattr(par, fld, None)
                if isinstance(b, list) and any((isinstance(st, ast.Expr) and st.value is node) or st is node for st in b):
                    blk = b
        if blk is None or not any(isinstance(st, ast.Assign) and any(isinstance(t, ast.Name) and t.id == marker for t in st.targets) for st in blk):
            return f"`{marker}` is not set where the position is widened"
        # (3) a differing position with the marker set gives up
        gives_up = False
        for rt in [n for n in walk_local(loop) if isinstance(n, ast.Return) and (n.value is None or (isinstance(n.value, ast.Constant) and n.value.value is None))]:
            fs = guard_facts(fn, rt)
            set_ = any((unparse(t) == marker and pol) or (unparse(t) == f"{marker} is not None" and pol) or (unparse(t) == f"{marker} is None" and not pol) for t, pol in fs)
            if set_ and not equal(fs):
                gives_up = True
        if not gives_up:
            return "no `return None` for a second differing position"
    return None


def check_get_bases(idx: Index, rep: Report) -> None:
    r = rep.rule("C09.R1", "every get_bases() returns only classes that cannot have instances of another class (type(instance), runtime-final, @irdl_attr_definition) or delegates to inner constraints", floor=12)
    n = 0
    for mi in idx.modules.values():
        for f in raw_funcs(mi):
            if f.name != "get_bases" or f.cls is None:
                continue
            if f.cls.name == "AttrConstraint":
                continue
            n += 1
            rets = [x for x in walk_local(f.node) if isinstance(x, ast.Return)]
            problems = []
            for rt in rets:
                v = rt.value
                if v is None or (isinstance(v, ast.Constant) and v.value is None):
                    continue
                if isinstance(v, ast.Set):
                    for e in v.elts:
                        t = unparse(e)
                        if isinstance(e, ast.Call) and call_attr(e) == "type":
                            continue
                        if isinstance(e, ast.Attribute) and unparse(e.value) == "self":
                            facts = [(unparse(a), p) for a, p in guard_facts(f.node, rt)]
                            if (f"is_runtime_final({t})", True) in facts:
                                continue
                            problems.append((f"non-final-base:{t}", f"`{t}` is returned as an exact dispatch class without an is_runtime_final({t}) guard: instances of a subclass would bypass this alternative in AnyOf"))
                        elif isinstance(e, ast.Name):
                            if _final_class(idx, mi, e.id):
                                continue
                            problems.append((f"non-final-base:{t}", f"class `{t}` is not an @irdl_attr_definition (runtime-final) class; AnyOf dispatches on the exact class and would reject its subclasses' instances"))
                        else:
                            problems.append((f"unknown-base:{t}", f"base `{t}` not recognised"))
                elif isinstance(v, ast.SetComp):
                    if not (isinstance(v.elt, ast.Call) and call_attr(v.elt) == "type"):
                        problems.append(("setcomp", f"`{unparse(v)}` does not collect exact classes with type(...)"))
                elif isinstance(v, ast.Call) and call_attr(v) == "get_bases":
                    continue  # delegation to an inner constraint
                elif isinstance(v, ast.Name):
                    # a local accumulated from inner get_bases() calls
                    srcs = [unparse(s.value) for s in walk_local(f.node) if isinstance(s, (ast.Assign, ast.AugAssign, ast.AnnAssign)) and unparse(s.targets[0] if isinstance(s, ast.Assign) else s.target) == v.id and s.value is not None]
                    # locals whose every binding is an inner get_bases() result (assignment or walrus), whatever they are called
                    bindings: dict[str, list[str]] = {}
                    for s_ in ast.walk(f.node):
                        if isinstance(s_, ast.NamedExpr):
                            bindings.setdefault(s_.target.id, []).append(unparse(s_.value))
                        elif isinstance(s_, ast.Assign) and len(s_.targets) == 1 and isinstance(s_.targets[0], ast.Name):
                            bindings.setdefault(s_.targets[0].id, []).append(unparse(s_.value))
                    inner = {nm for nm, vs in bindings.items() if nm != v.id and all(re.fullmatch(r"[\w.]+\.get_bases\(\)", x) for x in vs)}
                    if not all(x in inner or x in ("None", "set[type[Attribute]]()", "set()") or "get_bases()" in x for x in srcs):
                        problems.append(("accumulated", f"`{v.id}` is built from {srcs}, not only from inner get_bases() results"))
                elif re.fullmatch(r"set\(self\._based_constrs(\.keys\(\))?\)|self\._based_constrs\.keys\(\)|\{\*self\._based_constrs\}", unparse(v)):
                    facts = {(unparse(a), p) for a, p in guard_facts(f.node, rt)}
                    if ("self._abstr_constr is None", True) in facts or ("self._abstr_constr is not None", False) in facts or ("self._abstr_constr", False) in facts:
                        continue
                    problems.append(("dispatch-keys-as-bases", f"`{unparse(rt)}` answers with the keys of the exact-class dispatch table, which leaves out the abstract (non-final BaseAttr) alternative kept in _abstr_constr: the union claims a finite base set although it accepts instances of other classes, so an enclosing AllOf / AnyOf that intersects or dispatches on these bases rejects attributes this union accepts (the answer must be None when an abstract alternative is present)"))
                else:
                    problems.append(("unknown-form", f"`{unparse(rt)}` not recognised"))
            if problems:
                for k, m in problems:
                    r.fail(f.fq, Finding("C09.R1", f.fq, k, m, f.loc))
            else:
                r.ok(f.fq, f"{f.loc} {[unparse(x.value) if x.value is not None else 'None' for x in rets]}")
    if n < 12:
        raise AnalysisError(f"only {n} get_bases overrides found")
    # AnyOf: abstract alternative must be a BaseAttr of a non-final class and overlap is rejected
    f = idx.func(CONS, "AnyOf.__init__")
    from ..astutil import norm_facts, text_facts

    raises = [n for n in walk_local(f.node) if isinstance(n, ast.Raise)]
    guards = [norm_facts(text_facts(f.node, n)) for n in raises]
    NEED = {
        "second abstract alternative rejected": (r"\w+ is None", False),
        "abstract alternative is a BaseAttr of a non-final class": (r"not isinstance\(\w+, BaseAttr\) or is_runtime_final\(\w+\.attr\)|is_runtime_final\(\w+\.attr\) or not isinstance\(\w+, BaseAttr\)", True),
        "exact bases of two alternatives do not overlap": (r"\w+\.isdisjoint\(.+\)", False),
        "no exact base is a subclass of the abstract alternative": (r"issubclass\(\w+, \w+\.attr\)", True),
    }
    miss = []
    for what, (pat, pol) in NEED.items():
        hit = any(any(re.fullmatch(pat, t_) and (pol is None or p_ == pol) for t_, p_ in g_) for g_ in guards)
        if not hit:
            miss.append(what)
    if miss:
        # every rejecting statement must be understood before something is declared missing
        known_pats = [p_ for p_, _ in NEED.values()] + [r"isinstance\(\w+, .*\)", r".* is None", r"\w+", r".*\.isdisjoint\(.*\)"]
        unknown = [t_ for g_ in guards for t_, _ in g_ if not any(re.fullmatch(kp, t_) for kp in known_pats)]
        if unknown:
            raise AnalysisError(f"{f.fq}: {miss} not found, and the constructor rejects under condition(s) this rule does not understand: {unknown[:2]}")
        r.fail(f.fq, Finding("C09.R1", f.fq, "anyof-disjointness", f"AnyOf.__init__ no longer enforces {miss}: overlapping alternatives make the exact-class dispatch pick the wrong alternative", f.loc))
    else:
        r.ok(f.fq, f"{f.loc} alternatives are checked to be pairwise disjoint (exact bases, one abstract BaseAttr, no subclass overlap)")
    # the subclass-overlap test must cover every (exact base, abstract alternative) pair whatever the order of the
    # alternatives: it runs after the loop over the alternatives, or inside it on both arrival orders
    aparam = f.node.args.args[1].arg
    alt_loops = [w for w in walk_local(f.node) if isinstance(w, ast.For) and aparam in {x.id for x in ast.walk(w.iter) if isinstance(x, ast.Name)}]
    sub_raises = [n for n, g_ in zip(raises, guards) if any(re.fullmatch(NEED["no exact base is a subclass of the abstract alternative"][0], t_) and p_ for t_, p_ in g_)]
    if sub_raises and len(alt_loops) == 1:
        L = alt_loops[0]
        inside = [n for n in sub_raises if any(x is n for x in ast.walk(L))]
        outside = [n for n in sub_raises if n not in inside]
        if outside:
            r.ok(f.fq + ":overlap-order", f"{f.loc} subclass overlap is tested after all alternatives are registered (line {outside[0].lineno})")
        else:
            # inside the loop only: the arrival of the abstract alternative must test the bases registered so far
            bases_vars = {n.targets[0].id for n in ast.walk(L) if isinstance(n, ast.Assign) and len(n.targets) == 1 and isinstance(n.targets[0], ast.Name) and isinstance(n.value, ast.Call) and call_attr(n.value) == "get_bases"}
            at_arrival = [n for n in inside if any(p_ and t_ in {f"{b_} is None" for b_ in bases_vars} for t_, p_ in norm_facts(text_facts(f.node, n)))]
            if at_arrival:
                r.ok(f.fq + ":overlap-order", f"{f.loc} subclass overlap is tested on both arrival orders inside the loop")
            else:
                r.fail(f.fq + ":overlap-order", Finding("C09.R1", f.fq, "anyof-overlap-order-dependent", f"the subclass-overlap test (line {inside[0].lineno}) runs only inside the loop over the alternatives, against the abstract alternative seen so far: an exact alternative listed *before* the abstract BaseAttr is never compared with it, so `AnyOf((Eq(i32), BaseAttr(TypeAttribute)))` is built and verify() dispatches every IntegerType to the exact alternative, rejecting what the abstract one accepts", f"{f.module.relpath}:{inside[0].lineno}"))
    elif sub_raises:
        raise AnalysisError(f"{f.fq}: loop over the alternatives not identified")
    g = idx.func(CONS, "AnyOf.verify")
    from ..paths import enum_paths

    G, A = "self._based_constrs.get(attr.__class__) is None", "self._abstr_constr is None"
    outcomes = set()
    bad = []
    for p in enum_paths(g.node):
        if not p.feasible():
            continue
        nf = p.nfacts()
        ver = [(k, e) for k, e in enumerate(p.effects) if isinstance(e, ast.Expr) and isinstance(e.value, ast.Call) and call_attr(e.value) == "verify"]
        if p.end == "raise":
            out = "raise"
            need = {(G, True), (A, True)}
        elif len(ver) == 1:
            k, e = ver[0]
            recv = p.res(e.value.func.value, k)  # type: ignore[attr-defined]
            if recv == "self._based_constrs.get(attr.__class__)":
                out, need = "exact", {(G, False)}
            elif recv == "self._abstr_constr":
                out, need = "abstract", {(G, True), (A, False)}
            else:
                bad.append(f"a path verifies with `{recv}`")
                continue
        else:
            bad.append(f"a path under {sorted(nf)} neither verifies the attribute with one alternative nor rejects it")
            continue
        outcomes.add(out)
        # truthiness tests on the looked-up constraint are equivalent to the None tests (constraints are objects)
        nf2 = nf | {(t[: -len(" is None")] + " is None", not pol) for t, pol in nf if False}
        nf2 |= {(x + " is None", not pol) for x, pol in nf if x in ("self._based_constrs.get(attr.__class__)", "self._abstr_constr")}
        if not need <= nf2:
            bad.append(f"the outcome `{out}` is reached under {sorted(nf)}; it requires {sorted(need)}")
    if outcomes != {"raise", "exact", "abstract"}:
        bad.append(f"outcomes found: {sorted(outcomes)}; expected exact-class dispatch, abstract fallback and rejection")
    if not bad:
        r.ok(g.fq, f"{g.loc} dispatch on attr.__class__, then the abstract alternative, else reject")
    else:
        r.fail(g.fq, Finding("C09.R1", g.fq, "anyof-dispatch", "AnyOf.verify must dispatch on the exact class, fall back to the abstract alternative and reject otherwise: " + "; ".join(bad), g.loc))


# condition (normalised positive fact) -> the side that may be kept (None: either, the two are equal)
ABSORB_OK = {
    r"self == other": None,
    r"other == self": None,
    r"self\.base_attr == other\.attr": "other",
    r"other\.attr == self\.base_attr": "other",
    r"self\.base_attr is other\.attr": "other",
    r"isinstance\(self\.attr, other\.attr\)": "other",
    r"all\(\(isinstance\((\w+), other\.attr\) for \1 in self\.values\)\)": "other",
}


def _split_ifexp(v, facts):
    if isinstance(v, ast.IfExp):
        yield from _split_ifexp(v.body, facts + list(conjuncts(v.test, True)))
        yield from _split_ifexp(v.orelse, facts + list(conjuncts(v.test, False)))
    else:
        yield v, facts


def _norm_fact(a, pol):
    """(text, polarity) with `x != y` false turned into `x == y` true (and the reverse)."""
    if isinstance(a, ast.Compare) and len(a.ops) == 1 and not pol:
        flip = {ast.NotEq: "==", ast.Eq: "!=", ast.IsNot: "is", ast.Is: "is not"}.get(type(a.ops[0]))
        if flip:
            return f"{unparse(a.left)} {flip} {unparse(a.comparators[0])}", True
    return unparse(a), pol


def check_relax(idx: Index, rep: Report) -> None:
    r = rep.rule("C09.R2", "relax_constraint never shrinks the union: one side absorbs the other only under a condition implying inclusion, merged sets contain both sides, at most one parameter position is widened", floor=5)
    mi = idx.module(CONS)
    n = 0
    for f in raw_funcs(mi):
        if f.name != "relax_constraint" or f.cls is None:
            continue
        n += 1
        other = f.node.args.args[1].arg
        problems = []
        built_under: list[list[str]] = []
        for rt in [x for x in walk_local(f.node) if isinstance(x, ast.Return)]:
          if rt.value is None:
            continue
          for v, extra in _split_ifexp(rt.value, []):
            if isinstance(v, ast.Constant) and v.value is None:
                continue
            t = unparse(v)
            facts = [_norm_fact(a, p) for a, p in list(guard_facts(f.node, rt)) + extra]
            facts = [(a, p) for a, p in facts if not a.startswith("isinstance(other")]
            if t in (other, "self"):
                conds = [a for a, p in facts if p]
                okc = [kept for c in conds for p_, kept in ABSORB_OK.items() if re.fullmatch(p_, c)]
                if any(kept is None or kept == ("other" if t == other else "self") for kept in okc):
                    continue
                if okc:
                    problems.append((f"absorb-wrong-side:{t}", f"`return {t}` under {conds}: the condition shows that self is included in {other}, so {other} is the side to keep; keeping self drops values of {other}"))
                    continue
                problems.append((f"absorb-without-inclusion:{t}", f"`return {t}` drops the other alternative under the condition {conds or '(none)'}, which does not imply that the dropped side is included in the kept one (e.g. `any(isinstance(v, other.attr) ...)` keeps BaseAttr while some values of the set are outside it)"))
            elif isinstance(v, ast.Call) and unparse(v.func) == "AttrSetConstraint.get":
                args = [unparse(a) for a in v.args]
                has_self = "self.attr" in args or "*self.values" in args
                has_other = f"{other}.attr" in args or f"*{other}.values" in args
                if not (has_self and has_other):
                    problems.append((f"merge-loses-values:{t[:40]}", f"`return {t}` does not contain the values of both sides"))
            elif isinstance(v, ast.Call) and call_attr(v) == "relax_constraint":
                recv = unparse(v.func.value)  # type: ignore[attr-defined]
                arg = unparse(v.args[0])
                if {recv.replace("super()", "self"), arg} != {"self", other}:
                    problems.append((f"delegation:{t}", f"`return {t}` does not relax the same two constraints"))
            elif isinstance(v, ast.Call) and unparse(v.func) == "ParamAttrConstraint":
                built_under.append([a for a, p in facts if p])  # loop checked below (typestate)
            else:
                problems.append((f"unknown-result:{t[:40]}", f"`return {t}` is not a reviewed form of merging"))
        if f.cls.name == "ParamAttrConstraint":
            loops = [w for w in walk_local(f.node) if isinstance(w, ast.For)]
            if len(loops) != 1 or "strict=True" not in unparse(loops[0].iter):
                problems.append(("param-loop", "parameters must be zipped with strict=True"))
            else:
                msg = _widening_typestate(f.node, loops[0])
                if msg is not None:
                    problems.append(("second-widening", f"the merge loop must give up (return None) when a second parameter position differs: widening two positions accepts combinations neither alternative accepts ({msg})"))
            same = {f"self.base_attr == {other}.base_attr", f"{other}.base_attr == self.base_attr", f"self.base_attr is {other}.base_attr", f"{other}.base_attr is self.base_attr"}
            if not built_under:
                problems.append(("no-merge-result", "no `return ParamAttrConstraint(...)` found"))
            for conds in built_under:
                if same & set(conds):
                    continue
                if any("base_attr" in c or re.search(r"(?<!isinstance)\(", c) for c in conds):
                    problems.append(("base-guard-unrecognised", f"cannot read the conditions {conds} under which the merged ParamAttrConstraint is built"))
                else:
                    problems.append(("base-mismatch", f"a merged ParamAttrConstraint is built under {conds or '(no condition)'}: parametrized constraints of different base attributes must not be merged"))
        if problems:
            for k, m in problems:
                r.fail(f.fq, Finding("C09.R2", f.fq, k, m, f.loc))
        else:
            r.ok(f.fq, f"{f.loc} reviewed merge forms only")
    if n < 5:
        raise AnalysisError(f"only {n} relax_constraint definitions found")
    # AnyOf.get replaces exactly the relaxed pair
    f = idx.func(CONS, "AnyOf.get")
    res = _merge_bookkeeping(f.node)
    if res is None:
        r.ok(f.fq, f"{f.loc} a successful relaxation replaces the earlier alternative and removes the later one")
    else:
        r.fail(f.fq, Finding("C09.R2", f.fq, res[0], res[1], f.loc))


def _merge_bookkeeping(fn: ast.AST):
    """None when the success branch of `<earlier>.relax_constraint(<later>)` stores the result in the slot of the earlier
    alternative and removes the slot of the later one; ("merge-wrong-slot"|"merge-wrong-removal", msg) on positive evidence
    of the contrary; ("merge-bookkeeping", msg) when the shape is not understood."""
    shape = lambda m: ("merge-bookkeeping", "AnyOf.get must replace the earlier alternative by the relaxed one and drop the later one (and nothing else): " + m)
    calls = [c for c in calls_in(fn) if call_attr(c) == "relax_constraint"]
    if len(calls) != 1:
        return shape(f"{len(calls)} relax_constraint calls in the function")
    call = calls[0]
    recv, arg = call.func.value, call.args[0]  # type: ignore[attr-defined]
    # the branch taken when the result is not None
    test_if = None
    for n in walk_local(fn):
        if isinstance(n, ast.If) and any(x is call for x in ast.walk(n.test)):
            test_if = n
    vname = None
    body = None
    if test_if is not None:
        t = test_if.test
        if isinstance(t, ast.Compare) and isinstance(t.left, ast.NamedExpr) and t.left.value is call and len(t.ops) == 1 and isinstance(t.comparators[0], ast.Constant) and t.comparators[0].value is None:
            vname = t.left.target.id
            body = test_if.body if isinstance(t.ops[0], ast.IsNot) else test_if.orelse if isinstance(t.ops[0], ast.Is) else None
    else:
        for n in walk_local(fn):
            if isinstance(n, ast.Assign) and n.value is call and isinstance(n.targets[0], ast.Name):
                vname = n.targets[0].id
        if vname:
            for n in walk_local(fn):
                if isinstance(n, ast.If) and isinstance(n.test, ast.Compare) and unparse(n.test.left) == vname and len(n.test.ops) == 1 and isinstance(n.test.comparators[0], ast.Constant) and n.test.comparators[0].value is None:
                    if isinstance(n.test.ops[0], ast.IsNot):
                        body = n.body
                    elif isinstance(n.test.ops[0], ast.Is) and n.orelse:
                        body = n.orelse
    if not vname or not body:
        return shape("the branch taken on a successful relaxation was not identified")
    # which list, which slots
    defs: dict[str, list[ast.AST]] = {}
    for n in walk_local(fn):
        if isinstance(n, ast.Assign) and len(n.targets) == 1 and isinstance(n.targets[0], ast.Name):
            defs.setdefault(n.targets[0].id, []).append(n.value)
    earlier_slot = later_slot = lst = None
    if isinstance(recv, ast.Name):
        for n in walk_local(fn):
            if isinstance(n, ast.For) and isinstance(n.target, ast.Tuple) and len(n.target.elts) == 2 and unparse(n.target.elts[1]) == recv.id and isinstance(n.iter, ast.Call) and unparse(n.iter.func) == "enumerate":
                src = n.iter.args[0]
                if isinstance(src, ast.Subscript) and isinstance(src.slice, ast.Slice) and src.slice.lower is None and src.slice.step is None:
                    lst, earlier_slot = unparse(src.value), unparse(n.target.elts[0])
                elif isinstance(src, ast.Name):
                    lst, earlier_slot = src.id, unparse(n.target.elts[0])
    elif isinstance(recv, ast.Subscript) and not isinstance(recv.slice, ast.Slice):
        lst, earlier_slot = unparse(recv.value), unparse(recv.slice)
    if isinstance(arg, ast.Name) and len(defs.get(arg.id, [])) == 1 and isinstance(defs[arg.id][0], ast.Subscript):
        d = defs[arg.id][0]
        if unparse(d.value) == lst and not isinstance(d.slice, ast.Slice):
            later_slot = unparse(d.slice)
    elif isinstance(arg, ast.Subscript) and unparse(arg.value) == lst and not isinstance(arg.slice, ast.Slice):
        later_slot = unparse(arg.slice)
    if lst is None or earlier_slot is None or later_slot is None:
        return shape("the slots of the two relaxed alternatives were not identified")
    stores, removals, order = [], [], []
    for st in body:
        for n in ast.walk(st):
            if isinstance(n, ast.Assign) and isinstance(n.targets[0], ast.Subscript) and unparse(n.targets[0].value) == lst:
                stores.append((unparse(n.targets[0].slice), unparse(n.value)))
                order.append("store")
            elif isinstance(n, ast.Call) and call_attr(n) == "pop" and unparse(n.func.value) == lst and len(n.args) == 1:  # type: ignore[attr-defined]
                removals.append(unparse(n.args[0]))
                order.append("remove")
            elif isinstance(n, ast.Delete):
                for tg in n.targets:
                    if isinstance(tg, ast.Subscript) and unparse(tg.value) == lst:
                        removals.append(unparse(tg.slice))
                        order.append("remove")
    pair = {earlier_slot, later_slot}
    if len(stores) != 1 or len(removals) != 1 or stores[0][1] != vname:
        return shape(f"stores {stores} / removals {removals} on the success branch")
    (slot, _), rem = stores[0], removals[0]
    covers = f"the relaxed constraint `{vname}` covers {lst}[{earlier_slot}] and {lst}[{later_slot}]"
    if slot not in pair:
        return ("merge-wrong-slot", f"{covers}, but it is stored in {lst}[{slot}]: an unrelated alternative is overwritten and the union shrinks")
    if rem not in pair:
        return ("merge-wrong-removal", f"{covers}, but {lst}[{rem}] is removed: an unrelated alternative is dropped and the union shrinks")
    if slot == rem:
        return ("merge-wrong-removal", f"{covers}, but it is stored in {lst}[{slot}] and the same slot is removed: the relaxed constraint is lost")
    if order == ["remove", "store"] and rem == earlier_slot:
        return ("merge-wrong-slot", f"{covers}; {lst}[{rem}] (the smaller index) is removed first, so the following store to {lst}[{slot}] lands on the alternative after the later one")
    return None


TYPEVAR_PLACEHOLDERS = {
    "TypeVarConstraint": "placeholder for a TypeVar: mapping_type_vars substitutes it away, its base constraint is only the TypeVar's bound",
    "IntTypeVarConstraint": "placeholder for an integer TypeVar, substituted away by mapping_type_vars",
}


def _constraint_fields(c: ClassInfo) -> list[str]:
    out = []
    for n, ann, _ in c.ann_fields():
        if ann is not None and re.search(r"(Attr|Range|Int)Constraint|\bConstraint\b", unparse(ann)) and not n.startswith("_"):
            out.append(n)
    return out


def check_forwarding(idx: Index, rep: Report) -> None:
    r = rep.rule("C09.R3", "wrapper constraints forward variables(), mapping_type_vars() and can_infer()/infer() over all of their constraint-typed fields; can_infer and infer are overridden together", floor=20)
    mods = [CONS, "xdsl/dialects/builtin.py", "xdsl/dialects/bufferization.py"]
    roots = ("AttrConstraint", "RangeConstraint", "IntConstraint")
    for m in mods:
        mi = idx.module(m)
        for c in mi.classes.values():
            if not any(idx.is_subclass(c, rt) for rt in roots) or c.name in roots:
                continue
            flds = _constraint_fields(c)
            if c.name in TYPEVAR_PLACEHOLDERS:
                r.notes.append(f"exempt: {c.fq} ({TYPEVAR_PLACEHOLDERS[c.name]})")
                continue
            ci, inf = c.method("can_infer"), c.method("infer")
            if (ci is None) != (inf is None):
                r.fail(c.fq + ":infer-pair", Finding("C09.R3", c.fq, "infer-unpaired", f"{c.name} overrides {'can_infer' if ci else 'infer'} without the other: a constraint that says it can infer must infer (and vice versa)", c.loc))
            elif ci is not None:
                r.ok(c.fq + ":infer-pair", None)
            if not flds:
                continue
            for meth in ("variables", "mapping_type_vars"):
                d = c.method(meth)
                inst = f"{c.fq}.{meth}"
                if d is None:
                    if meth == "variables":
                        # inheriting the default (no variables) only makes inference more conservative; recorded, not reported
                        r.notes.append(f"{c.fq} wraps {flds} but inherits the default variables() (empty set)")
                    continue
                t = unparse(d.node)
                missing = [fl for fl in flds if f"self.{fl}" not in t]
                if missing and "return self" not in [unparse(s) for s in d.node.body]:
                    r.fail(inst, Finding("C09.R3", d.fq, f"field-not-forwarded:{meth}:{','.join(missing)}", f"{c.name}.{meth} does not use the wrapped constraint field(s) {missing}", d.loc))
                elif missing:
                    r.fail(inst, Finding("C09.R3", d.fq, f"field-not-forwarded:{meth}:{','.join(missing)}", f"{c.name}.{meth} returns self although the class wraps constraints {missing} that may contain type variables", d.loc))
                else:
                    r.ok(inst, None)
            if ci is not None and inf is not None:
                # infer(context) binds no variable: whatever a sub-constraint may rely on must already be known to
                # the caller, so nested can_infer calls get the received set (or a smaller one), never a grown one
                prm = [a.arg for a in ci.node.args.args[1:2]]
                if prm:
                    ccfg = CFG(ci.node)
                    for k in calls_in(ci.node):
                        if call_attr(k) == "can_infer" and k.args:
                            dsc = describe_set(ci.node, ccfg, k.args[0], ccfg.node_of(k))
                            inst2 = f"{ci.fq}:{unparse(k)[:50]}"
                            grown = (dsc.bases - {prm[0]}) or dsc.adds or dsc.unknown
                            if grown:
                                r.fail(inst2, Finding("C09.R3", ci.fq, "can-infer-grows-known-set", f"`{unparse(k)[:80]}` asks a sub-constraint whether it can infer with more variables than the caller knows ({sorted(dsc.bases - {prm[0]}) + [a_.elem for a_ in dsc.adds] + dsc.unknown}), but {c.name}.infer resolves every sub-constraint in the same context without binding anything: can_infer answers True where infer raises", f"{ci.module.relpath}:{k.lineno}"))
                            else:
                                r.ok(inst2, None)
                for d in (ci, inf):
                    t = unparse(d.node)
                    if any(f"self.{fl}" in t for fl in flds) or "return True" in t or "return False" in t:
                        r.ok(f"{d.fq}", None)
                    else:
                        r.fail(d.fq, Finding("C09.R3", d.fq, f"infer-not-forwarded:{d.name}", f"{c.name}.{d.name} ignores its wrapped constraints {flds}", d.loc))
    r.samples[:] = ["VarConstraint.variables forwards self.constraint", "ParamAttrConstraint.mapping_type_vars maps every param_constrs entry", "AllOf.can_infer / infer overridden together"]


def check_binding_order(idx: Index, rep: Report) -> None:
    r = rep.rule("C09.R5", "a constraint variable is bound only after its inner constraint verified the value", floor=3)
    for cname, setter in (("VarConstraint", "set_attr_variable"), ("IntVarConstraint", "set_int_variable"), ("RangeVarConstraint", "set_range_variable")):
        f = idx.func(CONS, f"{cname}.verify")
        cfg = CFG(f.node)
        sets = [c for c in calls_in(f.node) if call_attr(c) == setter]
        vers = [c for c in calls_in(f.node) if unparse(c.func) == "self.constraint.verify"]
        if not sets or not vers:
            r.fail(f.fq, Finding("C09.R5", f.fq, "bind-unverified", f"{cname}.verify no longer verifies the inner constraint and binds the variable", f.loc))
            continue
        vn = {cfg.node_of(c) for c in vers}
        if all(cfg.path_avoiding(cfg.entry, cfg.node_of(s), lambda n: n.id in vn, follow_exc=False) is None for s in sets):
            r.ok(f.fq, f"{f.loc} self.constraint.verify(...) precedes {setter}")
        else:
            r.fail(f.fq, Finding("C09.R5", f.fq, "bind-before-verify", "a path binds the variable before the inner constraint accepted the value", f.loc))


def check_param_arity(idx: Index, rep: Report) -> None:
    """ParamAttrConstraint.verify pairs the parameter constraints with the parameters of the attribute; the pairing is
    only exhaustive on both sides when the two lengths were compared for equality first (or zip is strict)."""
    from ..astutil import norm_facts, text_facts

    r = rep.rule("C09.R7", "ParamAttrConstraint.verify rejects an attribute whose number of parameters differs from the number of parameter constraints (in either direction) before verifying them pairwise", floor=1)
    f = idx.func(CONS, "ParamAttrConstraint.verify")
    cfg = CFG(f.node)
    loops = []  # (loop, A text, B text, strict)
    for w in walk_local(f.node):
        if not (isinstance(w, ast.For) and any(call_attr(c) == "verify" for c in calls_in(w))):
            continue
        at = cfg.node_of(w)
        it = w.iter
        if isinstance(it, ast.Call) and unparse(it.func) == "zip" and len(it.args) == 2:
            strict_ = any(k.arg == "strict" and isinstance(k.value, ast.Constant) and k.value.value is True for k in it.keywords)
            loops.append((w, resolved_text(cfg, it.args[0], at), resolved_text(cfg, it.args[1], at), strict_))
        elif isinstance(it, ast.Call) and unparse(it.func) == "enumerate" and len(it.args) == 1 and isinstance(w.target, ast.Tuple) and isinstance(w.target.elts[0], ast.Name):
            i_ = w.target.elts[0].id
            others = {unparse(n.value) for n in ast.walk(w) if isinstance(n, ast.Subscript) and isinstance(n.slice, ast.Name) and n.slice.id == i_}
            if len(others) == 1:
                o = ast.parse(next(iter(others)), mode="eval").body
                loops.append((w, resolved_text(cfg, it.args[0], at), resolved_text(cfg, o, at), False))
        elif isinstance(it, ast.Call) and unparse(it.func) == "range" and len(it.args) == 1 and isinstance(w.target, ast.Name):
            i_ = w.target.id
            others = sorted({unparse(n.value) for n in ast.walk(w) if isinstance(n, ast.Subscript) and isinstance(n.slice, ast.Name) and n.slice.id == i_})
            if len(others) == 2:
                loops.append((w, *(resolved_text(cfg, ast.parse(o, mode="eval").body, at) for o in others), False))
    if len(loops) != 1:
        raise AnalysisError(f"{f.fq}: pairwise verification loop not found")
    w, a, b, strict = loops[0]
    nf = norm_facts(text_facts(f.node, w))
    eq = {(f"len({a}) == len({b})", True), (f"len({b}) == len({a})", True)}
    onesided = [t_ for t_, p_ in nf if re.fullmatch(rf"len\(({re.escape(a)}|{re.escape(b)})\) (<|>|<=|>=) len\(({re.escape(a)}|{re.escape(b)})\)", t_)]
    if strict or (nf & eq):
        r.ok(f.fq, f"{f.loc} lengths of `{a}` and `{b}` are equal when the pairwise loop runs")
    elif onesided:
        r.fail(f.fq, Finding("C09.R7", f.fq, "arity-one-sided", f"the pairwise loop over `{a}` / `{b}` runs after the one-sided test `{onesided[0]}` only: when the other sequence is the longer one its surplus entries are silently ignored by zip, so a constraint with more parameter constraints than the attribute has parameters accepts it", f.loc))
    else:
        r.fail(f.fq, Finding("C09.R7", f.fq, "arity-unchecked", f"the pairwise loop over `{a}` / `{b}` runs without a preceding rejecting `len(..) != len(..)` test: zip stops at the shorter sequence", f.loc))


def check_fresh_context(idx: Index, rep: Report) -> None:
    """Variable bindings live in a ConstraintContext; a verification must start from an empty one.  A context created
    inside a memoised function, at module level or as a default argument is shared between calls: a variable bound by
    one isa() / verify() call constrains the next one."""
    r = rep.rule("C09.R8", "a ConstraintContext is created per verification call: never inside a memoised function, at module level or as a default argument", floor=4)
    n = 0
    for rel in ("xdsl/utils/hints.py", "xdsl/irdl/constraints.py", "xdsl/irdl/attributes.py", "xdsl/irdl/operations.py"):
        mi = idx.module(rel)
        # module level / class level
        for st in mi.tree.body:
            if isinstance(st, (ast.Assign, ast.AnnAssign)) and st.value is not None and any(isinstance(c_, ast.Call) and unparse(c_.func).split(".")[-1] == "ConstraintContext" for c_ in ast.walk(st.value)):
                n += 1
                r.fail(f"{rel}:module", Finding("C09.R8", f"{mi.name}", f"shared-context:module:{st.lineno}", f"`{unparse(st)[:70]}` creates one ConstraintContext at import time", f"{rel}:{st.lineno}"))
        for f in raw_funcs(mi):
            calls = [c_ for c_ in calls_in(f.node) if unparse(c_.func).split(".")[-1] == "ConstraintContext"]
            defaults = [d_ for d_ in list(f.node.args.defaults) + [k_ for k_ in f.node.args.kw_defaults if k_ is not None] if any(isinstance(c_, ast.Call) and unparse(c_.func).split(".")[-1] == "ConstraintContext" for c_ in ast.walk(d_))]
            if not calls and not defaults:
                continue
            n += 1
            inst = f"{f.fq}"
            memo = [d_ for d_ in f.node.decorator_list if re.search(r"(^|\.)(cache|lru_cache|cached_property)$", unparse(d_.func if isinstance(d_, ast.Call) else d_))]
            if defaults:
                r.fail(inst, Finding("C09.R8", f.fq, "shared-context:default-argument", f"a ConstraintContext() default argument of {f.qualname} is evaluated once and shared by all calls", f.loc))
            elif memo and calls:
                r.fail(inst, Finding("C09.R8", f.fq, "shared-context:memoised", f"{f.qualname} is memoised (`@{unparse(memo[0])}`) and creates `{unparse(calls[0])}`: the same context object is handed out for every later call with an equal argument, so a constraint variable bound while checking one attribute (T := i32) is still bound when the next attribute is checked and `isa` answers False for an attribute the constraint accepts", f.loc))
            else:
                r.ok(inst, None)
    if n < 4:
        raise AnalysisError(f"only {n} ConstraintContext creation sites found")


def check_union_bases(idx: Index, rep: Report) -> None:
    """AnyOf.get_bases: the union of the alternatives' bases is unbounded (None) as soon as ONE alternative is unbounded.
    Skipping an alternative whose bases are None (right for an intersection, AllOf) drops the classes that alternative
    accepts from every enclosing dispatch table."""
    r = rep.rule("C09.R9", "AnyOf.get_bases is None whenever some alternative's get_bases() is None: an unbounded alternative is never skipped or filtered out of the union", floor=1)
    f = idx.func(CONS, "AnyOf.get_bases")
    fn = f.node  # helpers inlined: the rule follows the fold into a shared private helper
    skipped = []
    propagated = False
    bound = {n_.target.id for n_ in ast.walk(fn) if isinstance(n_, ast.NamedExpr) and isinstance(n_.value, ast.Call) and call_attr(n_.value) == "get_bases"}
    bound |= {s_.targets[0].id for s_ in ast.walk(fn) if isinstance(s_, ast.Assign) and len(s_.targets) == 1 and isinstance(s_.targets[0], ast.Name) and isinstance(s_.value, ast.Call) and call_attr(s_.value) == "get_bases"}

    def is_none_test(t: ast.AST, want_not: bool) -> bool:
        t = t.left if False else t
        if isinstance(t, ast.Compare) and len(t.ops) == 1 and isinstance(t.comparators[0], ast.Constant) and t.comparators[0].value is None:
            left = t.left.target if isinstance(t.left, ast.NamedExpr) else t.left
            on_bases = (isinstance(left, ast.Name) and left.id in bound) or (isinstance(t.left, ast.Call) and call_attr(t.left) == "get_bases")
            return on_bases and isinstance(t.ops[0], ast.IsNot if want_not else ast.Is)
        return False

    for n_ in ast.walk(fn):
        if isinstance(n_, ast.comprehension):
            for c_ in n_.ifs:
                if is_none_test(c_, True):
                    skipped.append((c_, f"the comprehension filter `{unparse(c_)}`"))
        if isinstance(n_, ast.If) and is_none_test(n_.test, False):
            if n_.body and isinstance(n_.body[-1], ast.Continue):
                skipped.append((n_, f"`if {unparse(n_.test)}: continue`"))
            elif n_.body and isinstance(n_.body[-1], ast.Return) and (n_.body[-1].value is None or (isinstance(n_.body[-1].value, ast.Constant) and n_.body[-1].value.value is None)):
                propagated = True
    if skipped:
        n0, what = skipped[0]
        r.fail(f.fq, Finding("C09.R9", f.fq, "unbounded-alternative-dropped", f"{what} leaves an alternative whose bases are unbounded (None) out of the union instead of making the union unbounded: an enclosing AnyOf then builds its dispatch table without the classes that alternative accepts and rejects them", f"{f.module.relpath}:{getattr(n0, 'lineno', f.raw_node.lineno)}"))
    elif propagated:
        r.ok(f.fq, f"{f.loc} an unbounded alternative makes the union unbounded")
    else:
        raise AnalysisError(f"{f.fq}: how an alternative with unbounded bases (None) is treated was not recognised")


def check(idx: Index, rep: Report, tier: str) -> str:
    rep.run(check_get_bases, idx, rep)
    rep.run(check_union_bases, idx, rep)
    rep.run(check_relax, idx, rep)
    rep.run(check_forwarding, idx, rep)
    rep.run(check_binding_order, idx, rep)
    rep.run(check_var_binding, idx, rep, "C09.R6")
    rep.run(check_param_arity, idx, rep)
    rep.run(check_fresh_context, idx, rep)
    return (
        "Guarded-action and table rules over xdsl/irdl/constraints.py and the constraint classes of builtin.py / "
        "bufferization.py: soundness of AnyOf's exact-class dispatch (every get_bases override), inclusion-guarded absorption "
        "and single widening in relax_constraint, forwarding of variables / type-variable mapping / inference over wrapped "
        "constraints, verify-before-bind and None-ness of the 'already bound' test. Extensional equality of accepted sets and "
        "agreement of the hint converter with isa() are not decided."
    )
