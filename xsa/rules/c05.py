"""C05 — custom assembly formats (narrow claim): parse/print pairing of directives and of hand-written
formats, consumed-input polarity, optional-group set_empty discipline, attr-dict elision vs refusal,
immutability of shared directive objects, position alignment of per-argument attribute arrays."""

from __future__ import annotations

import ast
import re

from ..astutil import call_attr, calls_in, guard_facts, subst_chain_aliases, text_facts, unparse, walk_local
from ..cfg import CFG
from ..dataflow import reaching_defs, resolved_text
from ..paths import element_calls, enum_paths
from ..report import Finding, Report
from ..seqterm import SeqEval
from ..setbuild import describe as describe_set
from ..srcindex import AnalysisError, ClassInfo, Index, raw_funcs

DAF = "xdsl/irdl/declarative_assembly_format.py"
FMT = "xdsl/dialects/utils/format.py"
MUTATORS = {"add", "update", "append", "extend", "pop", "clear", "remove", "discard", "insert", "setdefault", "popitem", "difference_update", "intersection_update", "symmetric_difference_update"}


def _is_abstract(c: ClassInfo) -> bool:
    return any(unparse(b).split(".")[-1] == "ABC" for b in c.base_exprs)


def check_directive_pairs(idx: Index, rep: Report) -> None:
    r = rep.rule("C05.R1", "every concrete format directive implements both parse and print (attribute directives: parse and print)", floor=20)
    mi = idx.module(DAF)
    n = 0
    for c in mi.classes.values():
        if _is_abstract(c):
            continue
        for root in ("FormatDirective", "AttrFormatDirective"):
            if idx.is_subclass(c, root) and c.name != root:
                n += 1
                has = {}
                for m in ("parse", "print"):
                    d = idx.find_method(c, m)
                    has[m] = d is not None and d.cls is not None and not any(x.endswith("abstractmethod") for x in d.decorator_names())
                if all(has.values()):
                    r.ok(c.fq, None)
                else:
                    miss = [m for m, v in has.items() if not v]
                    r.fail(c.fq, Finding("C05.R1", c.fq, "unpaired-directive:" + ",".join(miss), f"directive {c.name} has no concrete {miss}: what one side emits / consumes the other cannot", c.loc))
    r.samples[:] = ["OperandVariable: parse + print", "AttrDictDirective: parse + print", "OptionalGroupDirective: parse + print"]
    if n < 20:
        raise AnalysisError(f"only {n} concrete directives found")


def check_op_pairs(idx: Index, rep: Report, tier: str) -> None:
    r = rep.rule("C05.R1b", "every operation class that defines a custom print also has a custom parse in its class hierarchy (a printed custom form can be read back)", floor=100)
    n_print = n_parse = 0
    for mi in idx.modules.values():
        if not mi.relpath.startswith("xdsl/dialects/"):
            continue
        for c in mi.classes.values():
            own_print = c.method("print")
            own_parse = c.method("parse")
            is_op = any(d.endswith("irdl_op_definition") for d in c.decorator_names())
            if not is_op:
                continue
            if own_parse is not None:
                n_parse += 1
            if own_print is None:
                continue
            # a printer with (self, printer) signature
            if len(own_print.node.args.args) != 2:
                continue
            n_print += 1
            parse = idx.find_method(c, "parse")
            ok = parse is not None and parse.cls is not None and parse.cls.name not in ("Operation", "IRDLOperation")
            if ok:
                r.ok(c.fq, None)
            else:
                r.fail(c.fq, Finding("C05.R1b", c.fq, "print-without-parse", f"{c.name} defines a custom `print` but no custom `parse` is found in its class hierarchy: its custom form cannot be parsed back", c.loc))
    rep.extra["op_classes_with_custom_print"] = n_print
    rep.extra["op_classes_with_custom_parse"] = n_parse
    r.samples[:] = [f"{n_print} operation classes define print, {n_parse} define parse"]


def check_polarity(idx: Index, rep: Report) -> None:
    r = rep.rule("C05.R2", "parse / parse_optional / parse_types return True iff input was consumed: the result is positively correlated with the optional sub-parse (never `x is None` / `not x`)", floor=30)
    mi = idx.module(DAF)
    n = 0
    for c in mi.classes.values():
        if not (idx.is_subclass(c, "Directive") or idx.is_subclass(c, "AttrFormatDirective")):
            continue
        for meth in ("parse", "parse_optional", "parse_types"):
            d = c.method(meth)
            if d is None or any(x.endswith("abstractmethod") for x in d.decorator_names()):
                continue
            rets = [x for x in walk_local(d.node) if isinstance(x, ast.Return) and x.value is not None]
            if not rets:
                continue
            n += 1
            cfg = CFG(d.node)
            bad = None
            for rt in rets:
                t = resolved_text(cfg, rt.value, cfg.node_of(rt))
                if re.fullmatch(r".* is None", t) or t.startswith("not ") or re.fullmatch(r".* == None", t) or re.fullmatch(r"len\(.*\) == 0", t):
                    bad = (rt, t)
            if bad is not None:
                r.fail(d.fq, Finding("C05.R2", d.fq, "inverted-consumed-flag", f"`{unparse(bad[0])}` evaluates to `{bad[1]}`: the method reports 'input consumed' exactly when nothing was parsed, so an optional group anchored on it is treated as absent when its first element is present (e.g. `(type($a)^ `done`)?` cannot re-parse its own output)", f"{DAF}:{bad[0].lineno}"))
            else:
                r.ok(d.fq, None)
    r.samples[:] = ["OperandVariable.parse -> True after a mandatory parse", "VariadicOperandVariable.parse -> bool(operands)", "OptionalGroupDirective.parse -> result of then_first.parse_optional"]
    if n < 30:
        raise AnalysisError(f"only {n} parse implementations found")


def check_optional_group(idx: Index, rep: Report) -> None:
    r = rep.rule("C05.R3", "OptionalGroupDirective.parse parses one branch and calls set_empty on exactly the other; printing selects the branch with the anchor's is_present", floor=2)
    f = idx.func(DAF, "OptionalGroupDirective.parse")
    cfg = CFG(f.node)
    se = SeqEval(f.node, cfg)
    FIRST = "self.then_first.parse_optional(parser, state)"

    def res(e: ast.AST, near: ast.AST | None = None) -> str:
        if isinstance(e, ast.NamedExpr):
            e = e.value
        try:
            return resolved_text(cfg, e, cfg.node_of(near if near is not None else e))
        except Exception:
            return unparse(e)

    def strip(t: str) -> str:
        m = re.fullmatch(r"\(?\w+ := (.*?)\)?", t)
        return m.group(1) if m else t

    paths = [p for p in enum_paths(f.node) if p.end in ("return", "fall")]
    if not paths:
        raise AnalysisError(f"{f.fq}: no returning path")
    bad_d, bad_r = [], []
    for p in paths:
        pols = {pol for t, pol in p.facts if strip(res(t)) == FIRST}
        if len(pols) != 1:
            bad_d.append("a returning path does not depend on the result of parsing the first element")
            continue
        pol = pols.pop()
        calls = element_calls(p, se)
        want = {("all", "self.then_elements", "parse" if pol else "set_empty"), ("all", "self.else_elements", "set_empty" if pol else "parse")}
        got = None if calls is None else [c for c in calls if c[2] in ("parse", "set_empty", "parse_optional") and c[1] != "self.then_first"]
        if got is None or set(got) != want or len(got) != len(want):
            bad_d.append(f"when the first element is {'present' if pol else 'absent'} the group performs {got}; expected {sorted(want)}")
        rv = strip(res(p.value, p.effects[-1] if p.effects and isinstance(p.effects[-1], ast.AST) else None)) if p.value is not None else "None"
        if not (rv == FIRST or rv == str(pol)):
            bad_r.append(f"a path on which the first element is {'present' if pol else 'absent'} returns `{rv}`")
    if bad_d:
        r.fail(f.fq, Finding("C05.R3", f.fq, "set-empty-discipline", "the optional group must parse the elements of the taken branch and call set_empty on every element of the other branch (and only those): " + "; ".join(bad_d), f.loc))
    else:
        r.ok(f.fq, f"{f.loc} {len(paths)} paths: then-branch parsed / else-branch emptied, and vice versa")
    if bad_r:
        r.fail(f.fq + ":result", Finding("C05.R3", f.fq, "group-result", "the group's result must be the result of parsing its first element: " + "; ".join(bad_r), f.loc))
    else:
        r.ok(f.fq + ":result", None)
    g = idx.func(DAF, "OptionalGroupDirective.print")
    gcfg = CFG(g.node)
    gse = SeqEval(g.node, gcfg)
    bad_p = []
    gpaths = [p for p in enum_paths(g.node) if p.end in ("return", "fall")]
    for p in gpaths:
        pols = {pol for t, pol in p.fact_texts() if t == "self.anchor.is_present(op)"}
        if len(pols) != 1:
            bad_p.append("a printing path does not depend on anchor.is_present(op)")
            continue
        pol = pols.pop()
        calls = element_calls(p, gse)
        got = None if calls is None else [c for c in calls if c[2] == "print"]
        want = [("all", "self.then_whitespace", "print"), ("elem", "self.then_first", "print"), ("all", "self.then_elements", "print")] if pol else [("all", "self.else_elements", "print")]
        if got != want:
            bad_p.append(f"with the anchor {'present' if pol else 'absent'} the group prints {got}; expected {want}")
    if bad_p or not gpaths:
        r.fail(g.fq, Finding("C05.R3", g.fq, "group-print", "printing must select the then-elements iff the anchor is present, else the else-elements: " + "; ".join(bad_p), g.loc))
    else:
        r.ok(g.fq, f"{g.loc} anchor.is_present selects then / else elements")
    h = idx.func(DAF, "OptionalGroupDirective.set_empty")
    hse = SeqEval(h.node, CFG(h.node))
    allc = [element_calls(p, hse) for p in enum_paths(h.node)]
    want_e = {("elem", "self.then_first", "set_empty"), ("all", "self.then_elements", "set_empty"), ("all", "self.else_elements", "set_empty")}
    if all(c is not None and set(c) == want_e for c in allc):
        r.ok(h.fq, f"{h.loc} every element of both branches is emptied")
    else:
        r.fail(h.fq, Finding("C05.R3", h.fq, "group-set-empty", f"OptionalGroupDirective.set_empty must empty the first element and every then- and else-element; it performs {allc}", h.loc))


def check_attr_dict(idx: Index, rep: Report) -> None:
    r = rep.rule("C05.R4", "attr-dict: the names elided on print are the reserved names (refused on parse) plus entries equal to their declared default", floor=2)
    p = idx.func(DAF, "AttrDictDirective.print")
    q = idx.func(DAF, "AttrDictDirective.parse")
    qcfg = CFG(q.node)
    errs = [c for c in calls_in(q.node) if call_attr(c) in ("raise_error", "_raise_error")] + [n for n in walk_local(q.node) if isinstance(n, ast.Raise)]
    refused = False
    for c in errs:
        for t, pol in text_facts(q.node, c):
            if "self.reserved_attr_names" not in t:
                continue
            disjoint = "isdisjoint" in t
            if pol != disjoint:
                refused = True
    merges = [n for n in walk_local(q.node) if (isinstance(n, ast.AugAssign) and unparse(n.target) == "state.attributes") or (isinstance(n, ast.Expr) and isinstance(n.value, ast.Call) and unparse(n.value.func) == "state.attributes.update")]
    if not merges:
        raise AnalysisError(f"{q.fq}: the parsed dictionary is not merged into state.attributes")
    if refused:
        r.ok(q.fq, f"{q.loc} reserved names are refused in the parsed dictionary")
    else:
        r.fail(q.fq, Finding("C05.R4", q.fq, "reserved-not-refused", "the parser must refuse reserved attribute names inside attr-dict (no error is raised under a test of the parsed keys against self.reserved_attr_names)", q.loc))
    calls = [c for c in calls_in(p.node) if call_attr(c) == "print_op_attributes"]
    if len(calls) != 1:
        raise AnalysisError(f"{p.fq}: expected one print_op_attributes call")
    kw = {k.arg: k.value for k in calls[0].keywords}
    cfg = CFG(p.node)
    el_expr = kw.get("reserved_attr_names") or (calls[0].args[1] if len(calls[0].args) > 1 else None)
    dict_expr = calls[0].args[0] if calls[0].args else kw.get("attributes")
    if el_expr is None or dict_expr is None:
        raise AnalysisError(f"{p.fq}: print_op_attributes is called without the dictionary / the elided names")
    desc = describe_set(p.node, cfg, el_expr, cfg.node_of(calls[0]))
    dname = re.escape(unparse(dict_expr))
    bad = []
    if desc.unknown:
        raise AnalysisError(f"{p.fq}: construction of the elided-names set not understood: {desc.unknown}")
    if desc.bases != {"self.reserved_attr_names"}:
        bad.append(f"its base collections are {sorted(desc.bases)} (expected exactly self.reserved_attr_names)")
    if not desc.adds:
        bad.append("no entry equal to its declared default is elided")
    for ad in desc.adds:
        if len(ad.iters) != 1 or not ad.iters[0][1].endswith(".items()"):
            bad.append(f"`{ad.elem}` is added outside an iteration over the definitions")
            continue
        tg = [x.strip("() ") for x in ad.iters[0][0].split(",")]
        if len(tg) != 2 or ad.elem != tg[0]:
            bad.append(f"the added element `{ad.elem}` is not the name of the iterated definition")
            continue
        n_, d_ = re.escape(tg[0]), re.escape(tg[1])
        afacts = [(subst_chain_aliases(p.node, t), pol) for t, pol in ad.facts]
        eq = [t for t, pol in afacts if pol and (re.fullmatch(rf"{dname}\.get\({n_}\) == {d_}\.default_value|{d_}\.default_value == {dname}\.get\({n_}\)|{dname}\[{n_}\] == {d_}\.default_value", t))]
        if not eq:
            bad.append(f"`{ad.elem}` is elided under {sorted(ad.facts)}: without the test that the printed dictionary holds exactly the declared default, a non-default value is dropped from the output")
    if bad:
        r.fail(p.fq, Finding("C05.R4", p.fq, "elision-set", "the printer must elide the reserved names plus the entries equal to their declared default: " + "; ".join(bad), p.loc))
    else:
        r.ok(p.fq, f"{p.loc} elided = reserved ∪ {{entries equal to their default}}")


POSITIVE_MUT = '''
class D:
    def print(self, printer, state, op):
        elided = self.reserved_attr_names
        elided |= {1}
        self.names.add(2)
'''


def _self_mutations(cls_node: ast.ClassDef, methods=("print", "parse", "parse_optional", "parse_types", "is_present", "set_empty")) -> list[tuple[ast.AST, str]]:
    out = []
    for fn in [n for n in cls_node.body if isinstance(n, ast.FunctionDef) and n.name in methods]:
        aliases = {}
        for s in ast.walk(fn):
            if isinstance(s, ast.Assign) and len(s.targets) == 1 and isinstance(s.targets[0], ast.Name) and re.fullmatch(r"self\.\w+", unparse(s.value)):
                aliases[s.targets[0].id] = unparse(s.value)
        for s in ast.walk(fn):
            if isinstance(s, ast.AugAssign):
                t = unparse(s.target)
                if re.fullmatch(r"self\.\w+", t) or t in aliases:
                    out.append((s, aliases.get(t, t)))
            if isinstance(s, ast.Call) and isinstance(s.func, ast.Attribute) and s.func.attr in MUTATORS:
                t = unparse(s.func.value)
                if re.fullmatch(r"self\.\w+", t) or t in aliases:
                    out.append((s, aliases.get(t, t)))
            if isinstance(s, ast.Assign) and any(isinstance(t_, ast.Subscript) and (re.fullmatch(r"self\.\w+", unparse(t_.value)) or unparse(t_.value) in aliases) for t_ in s.targets):
                out.append((s, "self.<field>[…]"))
    return out


def check_immutability(idx: Index, rep: Report) -> None:
    r = rep.rule("C05.R5", "directive objects are shared by all instances of an operation class: parse / print never mutate a field of the directive in place", floor=2)
    pos = ast.parse(POSITIVE_MUT).body[0]
    if len(_self_mutations(pos)) != 2:  # type: ignore[arg-type]
        raise AnalysisError("directive-mutation detector self-check failed")
    r.ok("positive-example", "detector matches the built-in positive example (alias |= and self.field.add)")
    mi = idx.module(DAF)
    hits = 0
    for c in mi.classes.values():
        if not (idx.is_subclass(c, "Directive") or idx.is_subclass(c, "AttrFormatDirective")):
            continue
        for s, fld in _self_mutations(c.node):
            hits += 1
            r.fail(c.fq, Finding("C05.R5", c.fq, f"directive-mutated:{fld}", f"`{unparse(s)[:80]}` mutates `{fld}` of a directive object in place; the object is created once per operation class, so after one instance was printed every later instance is printed (and parsed) with the changed set", f"{DAF}:{s.lineno}"))
    if not hits:
        r.ok(DAF, f"{DAF}: no in-place mutation of directive fields in parse/print")


def check_alignment(idx: Index, rep: Report) -> None:
    r = rep.rule("C05.R6", "per-argument attribute arrays of function-like ops are built with one entry per argument (no filtering of the argument list)", floor=2)
    f = idx.func(FMT, "parse_func_op_like")
    n = 0
    for x in walk_local(f.node):
        if isinstance(x, (ast.GeneratorExp, ast.ListComp)) and any(unparse(g.iter) == "entry_arg_tuples" for g in x.generators):
            # comprehensions feeding positional arrays (not the any(...) presence test)
            from ..astutil import parent_map

            pm = parent_map(f.node)
            par = pm.get(id(x))
            if isinstance(par, ast.Call) and call_attr(par) == "any":
                continue
            n += 1
            filt = [unparse(i) for g in x.generators for i in g.ifs]
            inst = f"{f.fq}:{unparse(x)[:50]}"
            if filt:
                r.fail(inst, Finding("C05.R6", f.fq, "filtered-positional-array", f"`{unparse(x)[:90]}` drops arguments for which `{filt[0]}` is false: the array is shorter than the argument list, so attributes move to other arguments when the custom form is parsed back", f"{FMT}:{x.lineno}"))
            else:
                r.ok(inst, f"{FMT}:{x.lineno} one entry per argument")
    if n < 2:
        raise AnalysisError(f"{f.fq}: positional comprehensions over entry_arg_tuples not found")


DIL = "xdsl/dialects/utils/dynamic_index_list.py"


def check_index_list_reader(idx: Index, rep: Report) -> None:
    """print_dynamic_index_list emits every static entry with f"{integer}" for arbitrary i64 entries (offsets, strides
    and GEP indices may be negative); the element reader of every list parser that is in use must accept a sign."""
    r = rep.rule("C05.R7", "the element reader of every dynamic-index-list parser in use accepts every integer print_dynamic_index_list can emit (negative static entries included)", floor=1)
    mi = idx.module(DIL)
    pr = idx.func(DIL, "print_dynamic_index_list")
    emits = [n for n in walk_local(pr.node) if isinstance(n, ast.JoinedStr) and any(isinstance(v, ast.FormattedValue) and (v.format_spec is None) for v in n.values)] + [c for c in calls_in(pr.node) if call_attr(c) == "print_int"]
    if not emits:
        raise AnalysisError(f"{pr.fq}: the static entry is no longer printed as a plain integer")
    # list parsers of this module that are called from anywhere (other modules or the directive class)
    users: dict[str, int] = {}
    names = [n for n in mi.functions if n.startswith("parse_dynamic_index_list")]
    for m2 in idx.modules.values():
        for c in [x for x in ast.walk(m2.tree) if isinstance(x, ast.Call)]:
            nm = call_attr(c) or (c.func.id if isinstance(c.func, ast.Name) else None)
            if nm in names:
                users[nm] = users.get(nm, 0) + 1
    if not users:
        raise AnalysisError("no dynamic-index-list parser is in use")
    for nm in sorted(names):
        f = mi.functions[nm]
        if nm not in users:
            r.notes.append(f"{nm} has no caller in the repository: not an obligation")
            continue
        # element reader: the function called inside the lambda passed to parse_comma_separated_list
        elems = []
        for c in calls_in(f.node, local=False):
            nm2 = c.func.id if isinstance(c.func, ast.Name) else None
            if nm2 and nm2 in mi.functions and nm2.startswith("parse_dynamic_index"):
                elems.append(mi.functions[nm2])
        if not elems:
            raise AnalysisError(f"{f.fq}: element reader not found")
        for e in elems:
            ints = [c for c in calls_in(e.node) if call_attr(c) in ("parse_integer", "parse_optional_integer")]
            if not ints:
                raise AnalysisError(f"{e.fq}: no integer reader found")
            for c in ints:
                kw = {k.arg: unparse(k.value) for k in c.keywords}
                pos_neg = unparse(c.args[1]) if len(c.args) > 1 else None
                if kw.get("allow_negative", pos_neg) == "False":
                    r.fail(f"{f.fq}->{e.name}", Finding("C05.R7", e.fq, "negative-entry-rejected", f"`{unparse(c)}` refuses a sign, but print_dynamic_index_list prints static entries as plain integers and negative entries are valid (strides, offsets, GEP indices): the custom form of e.g. `llvm.getelementptr %p[-1]` or a subview with stride -1 cannot be parsed back ({users[nm]} call sites of {nm})", f"{e.module.relpath}:{c.lineno}"))
                else:
                    r.ok(f"{f.fq}->{e.name}", f"{e.module.relpath}:{c.lineno} `{unparse(c)}` accepts negative entries ({users[nm]} call sites of {nm})")


def check_default_inference(idx: Index, rep: Report) -> None:
    """The printer elides a property / attribute that equals its declared default (C05.R4).  After parsing, the
    constraint variables that such an entry binds must therefore be resolved from the default when the entry is
    absent, for properties and attributes alike."""
    r = rep.rule("C05.R8", "constraint-variable resolution after parsing reads an absent property / attribute from its declared default (the printer elides defaults)", floor=2)
    f = idx.func(DAF, "FormatProgram.resolve_constraint_variables")
    cfg = CFG(f.node)
    seen = set()
    for lp in walk_local(f.node):
        if not (isinstance(lp, ast.For) and isinstance(lp.iter, ast.Call) and call_attr(lp.iter) == "items" and isinstance(lp.target, ast.Tuple) and len(lp.target.elts) == 2):
            continue
        src = unparse(lp.iter.func.value)  # type: ignore[attr-defined]
        m = re.fullmatch(r"\w+\.(properties|attributes)", src)
        if not m:
            continue
        kind = m.group(1)
        name, d = unparse(lp.target.elts[0]), unparse(lp.target.elts[1])
        ver = [c for c in calls_in(lp) if call_attr(c) == "verify" and isinstance(c.func, ast.Attribute) and unparse(c.func.value) == f"{d}.constr" and c.args]
        if not ver:
            continue
        seen.add(kind)
        for c in ver:
            txt = resolved_text(cfg, c.args[0], cfg.node_of(c))
            inst = f"{f.fq}:{kind}"
            if f"state.{kind}" in txt and f"{d}.default_value" in txt:
                r.ok(inst, f"{f.module.relpath}:{c.lineno} `{txt[:80]}`")
            else:
                r.fail(inst, Finding("C05.R8", f.fq, f"default-not-inferred:{kind}", f"the {kind} loop verifies `{txt[:80]}`, which does not fall back to `{d}.default_value`: an entry equal to its default is elided by the printer, so on re-parsing the constraint variable it binds stays unresolved and the types inferred from it cannot be built", f"{f.module.relpath}:{c.lineno}"))
    # the opposite iteration: over the *parsed* values, looking the definition up - an elided default is never visited
    for lp in walk_local(f.node):
        if not (isinstance(lp, ast.For) and isinstance(lp.iter, ast.Call) and call_attr(lp.iter) == "items" and isinstance(lp.target, ast.Tuple) and len(lp.target.elts) == 2):
            continue
        src = resolved_text(cfg, lp.iter.func.value, cfg.node_of(lp))  # type: ignore[attr-defined]
        srcs = [src]
        # `for defs, parsed in ((op_def.properties, state.properties), (...)): for name, attr in parsed.items():`
        for outer in walk_local(f.node):
            if isinstance(outer, ast.For) and isinstance(outer.iter, (ast.Tuple, ast.List)) and isinstance(outer.target, ast.Tuple) and any(x is lp for x in ast.walk(outer)):
                for k_, t_ in enumerate(outer.target.elts):
                    if isinstance(t_, ast.Name) and t_.id == src:
                        srcs = [unparse(e_.elts[k_]) for e_ in outer.iter.elts if isinstance(e_, (ast.Tuple, ast.List)) and len(e_.elts) == len(outer.target.elts)]
        kinds = [m_.group(1) for s_ in srcs if (m_ := re.fullmatch(r"state\.(properties|attributes)", s_))]
        if not kinds or len(kinds) != len(srcs) or all(k_ in seen for k_ in kinds):
            continue
        kind = "/".join(kinds)
        name, v = unparse(lp.target.elts[0]), unparse(lp.target.elts[1])
        ver = [c for c in calls_in(lp) if call_attr(c) == "verify" and isinstance(c.func, ast.Attribute) and unparse(c.func.value).endswith(".constr") and c.args and unparse(c.args[0]) == v]
        if ver:
            seen.update(kinds)
            r.fail(f"{f.fq}:{kind}", Finding("C05.R8", f.fq, f"default-not-inferred:{kind}", f"the {kind} are verified by iterating the *parsed* entries (`for {name}, {v} in {unparse(lp.iter)}`): a definition whose value equals its default is elided by the printer, is therefore absent after parsing and is never visited, so the constraint variable it binds stays unresolved and the types inferred from it cannot be built", f"{f.module.relpath}:{ver[0].lineno}"))
    if seen != {"properties", "attributes"}:
        raise AnalysisError(f"{f.fq}: loops verifying the parsed properties and attributes against their definitions not found (found {sorted(seen)})")


def check_index_wraparound(idx: Index, rep: Report) -> None:
    """In a loop whose index starts at 0 (`enumerate(xs)`, `range(n)`), `ys[i - 1]` in the first iteration is `ys[-1]`,
    the LAST element (Python wraps negative indices): per-segment slices computed from running end offsets then give
    the first segment the wrong start."""
    r = rep.rule("C05.R9", "format code (print / parse methods of operations, attributes and custom directives) does not subscript with `i - k` inside a loop whose index i starts at 0 without excluding the first iterations", floor=None)
    n_loops = 0
    for mi in idx.modules.values():
        rel = mi.relpath
        if not (rel.startswith("xdsl/dialects/") or rel.startswith("xdsl/irdl/declarative_assembly_format")):
            continue
        for f in raw_funcs(mi):
            if not (f.name.startswith("print") or f.name.startswith("parse")):
                continue
            for w in walk_local(f.node):
                if not isinstance(w, ast.For):
                    continue
                ix = None
                if isinstance(w.iter, ast.Call) and unparse(w.iter.func) == "enumerate" and len(w.iter.args) == 1 and not w.iter.keywords and isinstance(w.target, ast.Tuple) and isinstance(w.target.elts[0], ast.Name):
                    ix = w.target.elts[0].id
                elif isinstance(w.iter, ast.Call) and unparse(w.iter.func) == "range" and len(w.iter.args) == 1 and isinstance(w.target, ast.Name):
                    ix = w.target.id
                if ix is None:
                    continue
                n_loops += 1
                for sub in ast.walk(w):
                    if isinstance(sub, ast.Subscript) and isinstance(sub.slice, ast.BinOp) and isinstance(sub.slice.op, ast.Sub) and isinstance(sub.slice.left, ast.Name) and sub.slice.left.id == ix and isinstance(sub.slice.right, ast.Constant) and isinstance(sub.slice.right.value, int) and sub.slice.right.value > 0:
                        facts = {(unparse(t_), p_) for t_, p_ in guard_facts(f.node, sub)}
                        guarded = any((t_ in (f"{ix} > 0", f"{ix} != 0", ix, f"{ix} >= 1", f"0 < {ix}") and p_) or (t_ in (f"{ix} == 0", f"not {ix}", f"{ix} < 1") and not p_) for t_, p_ in facts)
                        if not guarded:
                            r.fail(f"{f.fq}:{unparse(sub)}", Finding("C05.R9", f.fq, f"index-wraparound:{unparse(sub)}", f"`{unparse(sub)}` inside `{unparse(w).splitlines()[0][:60]}`: in the first iteration the subscript is -{sub.slice.right.value}, i.e. the last element - the first per-case slice starts at the total instead of 0 and the operands of the first case are dropped from the printed form", f"{rel}:{sub.lineno}"))
    r.ok("format loops scanned", f"{n_loops} zero-based index loops in print / parse code")


def check_reserved_names_source(idx: Index, rep: Report) -> None:
    """The names an attr-dict directive elides on print and refuses on parse are the *attributes* the format prints by
    name.  A property printed by a variable lives in another dictionary: a discardable attribute that happens to have the
    same name must still go through attr-dict."""
    r = rep.rule("C05.R10", "the reserved names handed to AttrDictDirective by the format parser are the attribute names seen in the format, nothing else (not the property names)", floor=1)
    DAFP = "xdsl/irdl/declarative_assembly_format_parser.py"
    n = 0
    for f in raw_funcs(idx.module(DAFP)):
        cfg = None
        for c in calls_in(f.node):
            if call_attr(c) != "AttrDictDirective" and unparse(c.func) != "AttrDictDirective":
                continue
            kw = {k.arg: k.value for k in c.keywords}
            e = kw.get("reserved_attr_names")
            if e is None:
                continue
            n += 1
            if cfg is None:
                cfg = CFG(f.node)
            d = describe_set(f.node, cfg, e, cfg.node_of(c))
            inst = f"{f.fq}:reserved_attr_names"
            if d.unknown:
                raise AnalysisError(f"{f.fq}: construction of reserved_attr_names not understood: {d.unknown[:2]}")
            extra = sorted(b for b in d.bases if b != "self.seen_attributes") + [a.elem for a in d.adds]
            if extra:
                r.fail(inst, Finding("C05.R10", f.fq, f"reserved-names-extra:{extra[0]}", f"`{unparse(e)}` also reserves {extra}: a discardable attribute with the name of a property that the format prints through a variable is silently dropped from the custom form and refused when parsed back, while the generic form keeps it", f"{DAFP}:{c.lineno}"))
            elif d.bases == {"self.seen_attributes"}:
                r.ok(inst, f"{DAFP}:{c.lineno} reserved names = the attribute names of the format")
            elif not d.bases and isinstance(e, ast.Call) and unparse(e) == "set()":
                r.ok(inst, f"{DAFP}:{c.lineno} nothing reserved")
            else:
                raise AnalysisError(f"{f.fq}: reserved_attr_names `{unparse(e)}` has no recognised source")
    if n == 0:
        raise AnalysisError(f"{DAFP}: no AttrDictDirective(reserved_attr_names=...) construction found")


def check(idx: Index, rep: Report, tier: str) -> str:
    rep.run(check_directive_pairs, idx, rep)
    rep.run(check_op_pairs, idx, rep, tier)
    rep.run(check_polarity, idx, rep)
    rep.run(check_optional_group, idx, rep)
    rep.run(check_attr_dict, idx, rep)
    rep.run(check_immutability, idx, rep)
    rep.run(check_alignment, idx, rep)
    rep.run(check_index_list_reader, idx, rep)
    rep.run(check_default_inference, idx, rep)
    rep.run(check_index_wraparound, idx, rep)
    rep.run(check_reserved_names_source, idx, rep)
    return (
        "Pairing / sibling-agreement rules over the declarative format engine and every hand-written operation format: "
        "parse+print pairing, consumed-input polarity of all parse implementations, set_empty discipline of optional groups, "
        "attr-dict elision vs refusal, no in-place mutation of shared directive objects, position alignment of per-argument "
        "arrays. That a particular format re-parses to the same operation is not decided (a keyword-level comparison was "
        "prototyped and rejected as imprecise, see DESIGN.md)."
    )
