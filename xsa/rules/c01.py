"""C01 — IR edits keep the tree and use-def chains consistent: link pairing, writers, use pairing,
index shifting, index classes, attach guards (DESIGN.md §2 C01)."""

from __future__ import annotations

import ast
import re

from ..astutil import alpha_same, attr_chain, call_attr, canon_cmp, calls_in, guard_facts, range_bounds, text_facts, unparse, walk_local
from ..cfg import CFG
from ..dataflow import Deriv, reaching_defs, resolved_text
from ..report import Finding, Report
from ..seqterm import SeqEval, removed_at, replaced_at, show
from ..srcindex import AnalysisError, Index, raw_funcs

CORE = "xdsl/ir/core.py"
REWRITER = "xdsl/rewriter.py"

NEXT_OF = {"_next_op": "_prev_op", "_next_block": "_prev_block", "_next_use": "_prev_use"}
PREV_OF = {v: k for k, v in NEXT_OF.items()}
LINK_FIELDS = set(NEXT_OF) | set(PREV_OF)
END_FIELDS = {"_first_op", "_last_op", "_first_block", "_last_block", "first_use"}
USE_FIELDS = {"_operands", "_operand_uses", "_successors", "_successor_uses", "_args"}
PROP_ALIAS = re.compile(r"(?<![\w])\.(next|prev|first|last)_(op|block)\b")

# who may write the structural fields: classes of xdsl/ir/core.py (+ one function of rewriter.py)
OWNER_CLASSES = {"Operation", "Block", "Region", "IRWithUses", "Use", "OpOperands", "OpSuccessors", "SSAValue", "BlockArgument", "OpResult", "IRUses", "_IRNode"}
WRITER_EXCEPTIONS = {
    # (relpath, qualname prefix): reason
    ("xdsl/transforms/test_constant_folding.py", "TestSpecialisedConstantFoldingPass"): "deliberately inlined benchmark pass (documented as such in the file)",
    ("xdsl/transforms/convert_pdl_to_pdl_interp/conversion.py", ""): "`node.parent` of predicate-tree MatcherNode, not an IR node",
    ("xdsl/utils/scoped_dict.py", "ScopedDict"): "ScopedDict.parent is the enclosing scope, not an IR link",
    ("xdsl/utils/disjoint_set.py", "IntDisjointSet"): "_parent is the union-find forest",
}


def canon(txt: str) -> str:
    return PROP_ALIAS.sub(lambda m: f"._{m.group(1)}_{m.group(2)}", txt)


def _strip_walrus(e: ast.AST) -> ast.AST:
    return e.value if isinstance(e, ast.NamedExpr) else e


class FnCtx:
    def __init__(self, f):
        self.f = f
        self.cfg = CFG(f.node)
        self.deriv = Deriv(self.cfg)

    def texts(self, e: ast.AST, at: int) -> set[str]:
        """All canonical texts `e` may stand for at node `at` (through reaching definitions)."""
        e = _strip_walrus(e)
        out = {canon(resolved_text(self.cfg, e, at))}
        if isinstance(e, ast.Name):
            for x in self.deriv.expand(e, at):
                x = _strip_walrus(x)
                if isinstance(x, ast.Name) and x.id.startswith("<opaque"):
                    continue
                out.add(canon(unparse(x)))
                # one more level of resolution on the expansion
        out.add(canon(unparse(e)))
        return out

    def fact_texts(self, node: ast.AST) -> set[str]:
        out = set()
        for t, pol in guard_facts(self.f.node, node):
            out.add(self._fact(t, pol))
        return out

    def _fact(self, t: ast.AST, pol: bool) -> str:
        if isinstance(t, ast.Compare) and len(t.ops) == 1 and isinstance(t.comparators[0], ast.Constant) and t.comparators[0].value is None and isinstance(t.ops[0], (ast.Is, ast.IsNot)):
            notnone = isinstance(t.ops[0], ast.IsNot) == pol
            left = _strip_walrus(t.left)
            try:
                at = self.cfg.node_of(t)
                txt = canon(resolved_text(self.cfg, left, at))
            except AnalysisError:
                txt = canon(unparse(left))
            return f"{txt} {'is not None' if notnone else 'is None'}"
        return f"{canon(unparse(t))} == {pol}"


def link_stores(fn: ast.AST):
    out = []
    for n in walk_local(fn):
        if isinstance(n, ast.Assign) and len(n.targets) == 1 and isinstance(n.targets[0], ast.Attribute) and n.targets[0].attr in LINK_FIELDS:
            out.append((n, n.targets[0].value, n.targets[0].attr, n.value))
    return out


def check_pairing(idx: Index, rep: Report) -> None:
    r = rep.rule("C01.R1", "every link store a.next = b is matched on the same paths by b.prev = a (and vice versa), for op, block and use lists", floor=30)
    mi = idx.module(CORE)
    n_fn = 0
    for f in raw_funcs(mi):
        stores = link_stores(f.node)
        if not stores:
            continue
        n_fn += 1
        cx = FnCtx(f)
        cfg = cx.cfg
        for n, recv, fld, val in stores:
            if isinstance(val, ast.Constant) and val.value is None:
                r.ok(f"{f.fq}:{unparse(n)}", None)
                continue
            at = cfg.node_of(n)
            partner = NEXT_OF.get(fld) or PREV_OF[fld]
            A, B = cx.texts(recv, at), cx.texts(val, at)
            inst = f"{f.fq}:{unparse(n.targets[0])}={unparse(val)}"
            found = None
            for m, recv2, fld2, val2 in stores:
                if m is n or fld2 != partner:
                    continue
                am = cfg.node_of(m)
                if not (cx.texts(recv2, am) & B and cx.texts(val2, am) & A):
                    continue
                # path condition
                pd1 = cfg.path_avoiding(at, cfg.exit, lambda x: x.id == am, follow_exc=True) is None
                pd2 = cfg.path_avoiding(am, cfg.exit, lambda x: x.id == at, follow_exc=True) is None
                fn_, fm = cx.fact_texts(n), cx.fact_texts(m)
                rn = {f"{t} is not None" for t in cx.texts(recv, at)}
                rm = {f"{t} is not None" for t in cx.texts(recv2, am)}
                guard_ok = (fm - fn_) <= rm and (fn_ - fm) <= rn
                if pd1 or pd2 or guard_ok:
                    found = m
                    break
            if found is None:
                # a partner store on the right receiver whose VALUE this analysis cannot resolve (result of a call, e.g. a
                # helper returning the last linked node): undecided, not a violation
                for m, recv2, fld2, val2 in stores:
                    if m is n or fld2 != partner:
                        continue
                    am = cfg.node_of(m)
                    if cx.texts(recv2, am) & B:
                        vt = cx.texts(val2, am)
                        opaque = isinstance(val2, ast.Call) or (isinstance(val2, ast.Name) and any(isinstance(v_, ast.Call) for _, v_ in reaching_defs(cfg, val2.id, am)))
                        if opaque:
                            raise AnalysisError(f"{f.fq}: `{unparse(n)}` may be paired by `{unparse(m)}`, whose value comes from a call this analysis does not look into ({sorted(vt)[:2]})")
            if found is not None:
                r.ok(inst, f"{f.module.relpath}:{n.lineno} `{unparse(n)}` <-> line {found.lineno} `{unparse(found)}`")
            else:
                # value possibly None and guarded? e.g. new_op._next_op = self._next_op with the back-link under `is not None`
                r.fail(inst, Finding("C01.R1", f.fq, f"unpaired:{canon(unparse(n.targets[0]))}={canon(unparse(val))}", f"`{unparse(n)}` has no matching `{sorted(B)[0]}.{partner} = {sorted(A)[0]}` on the same paths: forward and backward traversal of the list disagree", f"{f.module.relpath}:{n.lineno}"))
    if n_fn < 10:
        raise AnalysisError(f"only {n_fn} functions with link stores found in core.py (expected ≥ 10 primitives)")

    # use lists: Use objects are re-homed (OpOperands.__setitem__), so either remove_use clears the use's own
    # links or add_use re-initialises both on every path
    r = rep.rule("C01.R1u", "a Use inserted in a use list has both of its own link fields (re)initialised on every path", floor=1)
    add = idx.func(CORE, "IRWithUses.add_use")
    rem = idx.func(CORE, "IRWithUses.remove_use")
    use = add.node.args.args[1].arg
    cfg = CFG(add.node)
    missing = []
    for fld in ("_prev_use", "_next_use"):
        nodes = {cfg.node_of(n) for n, recv, fl, val in link_stores(add.node) if fl == fld and unparse(recv) == use}
        if not nodes or cfg.path_avoiding(cfg.entry, cfg.exit, lambda x: x.id in nodes) is not None:
            missing.append(fld)
    ruse = rem.node.args.args[1].arg
    rcfg = CFG(rem.node)
    cleared = True
    for fld in ("_prev_use", "_next_use"):
        nodes = {rcfg.node_of(n) for n, recv, fl, val in link_stores(rem.node) if fl == fld and unparse(recv) == ruse and isinstance(val, ast.Constant) and val.value is None}
        if not nodes or rcfg.path_avoiding(rcfg.entry, rcfg.exit, lambda x: x.id in nodes) is not None:
            cleared = False
    if missing and not cleared:
        r.fail(add.fq, Finding("C01.R1u", add.fq, "stale-use-links:" + ",".join(missing), f"add_use does not set {missing} of the inserted use on every path and remove_use does not clear them: a Use moved from the middle of one use list to another keeps a stale back pointer (its later removal splices the two lists)", add.loc))
    else:
        r.ok(add.fq, f"{add.loc} add_use sets use._prev_use and use._next_use on every path")
    # head of the list
    heads = [n for n in walk_local(add.node) if isinstance(n, ast.Assign) and unparse(n.targets[0]) == "self.first_use"]
    if len(heads) == 1 and unparse(heads[0].value) == use and cfg.path_avoiding(cfg.entry, cfg.exit, lambda x: x.id == cfg.node_of(heads[0])) is None:
        r.ok(add.fq + ":head")
    else:
        r.fail(add.fq + ":head", Finding("C01.R1u", add.fq, "head-not-updated", "add_use does not make the inserted use the head of the list on every path", add.loc))
    # remove_use: head updated iff the removed use was the head
    hs = [n for n in walk_local(rem.node) if isinstance(n, ast.Assign) and unparse(n.targets[0]) == "self.first_use"]
    cxr = FnCtx(rem)
    ok = False
    for h in hs:
        facts = cxr.fact_texts(h)
        if f"{ruse}._prev_use is None" in facts and canon(resolved_text(rcfg, h.value, rcfg.node_of(h))) == f"{ruse}._next_use":
            ok = True
    if ok:
        r.ok(rem.fq + ":head")
    else:
        r.fail(rem.fq + ":head", Finding("C01.R1u", rem.fq, "head-not-updated", "remove_use must set first_use to the removed use's successor exactly when the removed use has no predecessor", rem.loc))


END_OF = {"_next_op": "_last_op", "_prev_op": "_first_op", "_next_block": "_last_block", "_prev_block": "_first_block"}
LINK_READ = re.compile(r"\._(next|prev|first|last)_(op|block)$")
LINK_PRIMS = {"_insert_next_op": "_next_op", "_insert_prev_op": "_prev_op"}


def check_end_pointers(idx: Index, rep: Report) -> None:
    """A node N that receives `N.next = E`, where E is read from a neighbour's link and may be None, becomes the last
    node of its list exactly when E is None: the function must then store `<container>._last = N` (symmetric for prev /
    _first).  Calls of the link primitives `A._insert_next_op(N)` count as `N._next_op = A._next_op`."""
    r = rep.rule("C01.R1e", "a node linked in front of / behind a neighbour whose own link may be None (list end) is also stored as the container's first / last node", floor=2)
    mi = idx.module(CORE)
    for f in raw_funcs(mi):
        if f.name in LINK_PRIMS:
            continue  # the primitives only write node links; their callers are checked through the call form below
        events = []  # (stmt, node expr N, field, neighbour-link expr E)
        for n, recv, fld, val in link_stores(f.node):
            if fld in END_OF and not (isinstance(val, ast.Constant) and val.value is None):
                events.append((n, recv, fld, val))
        for c in calls_in(f.node):
            if call_attr(c) in LINK_PRIMS and len(c.args) == 1 and isinstance(c.func, ast.Attribute):
                fld = LINK_PRIMS[call_attr(c)]
                events.append((c, c.args[0], fld, ast.Attribute(value=c.func.value, attr=fld, ctx=ast.Load())))
        if not events:
            continue
        cx = FnCtx(f)
        cfg = cx.cfg
        end_stores = [(n, n.targets[0].attr, n.value) for n in walk_local(f.node) if isinstance(n, ast.Assign) and len(n.targets) == 1 and isinstance(n.targets[0], ast.Attribute) and n.targets[0].attr in END_FIELDS]
        for st, node, fld, e in events:
            at = cfg.node_of(st)
            if isinstance(e, ast.Attribute) and not hasattr(e, "lineno"):
                etxts = {canon(t + "." + fld) for t in cx.texts(e.value, at)}
            else:
                etxts = cx.texts(e, at)
            link_reads = {t for t in etxts if t.endswith('.' + fld) or t.endswith('.' + fld.lstrip('_'))}
            if not link_reads:
                continue  # a parameter / fresh node / self: never None
            facts = cx.fact_texts(st)
            if any(f"{t} is not None" in facts for t in etxts):
                continue
            # path-sensitive refinement: a local that captured the link read and is tested / re-bound on the None
            # branch (`p = t.prev; if p is None: p = first ...`) reaches this statement only through the not-None edge
            if isinstance(e, ast.Name):
                from ..astutil import conjuncts

                nm = e.id
                alld = {cfg.node_of(n_) for n_ in walk_local(f.node) if isinstance(n_, (ast.Assign, ast.AnnAssign)) and any(isinstance(t_, ast.Name) and t_.id == nm for t_ in (n_.targets if isinstance(n_, ast.Assign) else [n_.target]))}

                def est(n_: int, m_: int, lab, nm=nm) -> bool:
                    a_ = cfg.nodes[n_].ast
                    if a_ is None or lab not in ("T", "F") or not isinstance(a_, ast.expr):
                        return False
                    for atom, truth in conjuncts(a_, lab == "T"):
                        if isinstance(atom, ast.Compare) and len(atom.ops) == 1 and isinstance(atom.comparators[0], ast.Constant) and atom.comparators[0].value is None and isinstance(atom.left, ast.Name) and atom.left.id == nm:
                            if (isinstance(atom.ops[0], ast.IsNot) and truth) or (isinstance(atom.ops[0], ast.Is) and not truth):
                                return True
                    return False

                may_none = False
                for nid, v in reaching_defs(cfg, nm, at):
                    if v is None:
                        continue
                    vt = canon(resolved_text(cfg, v, nid))
                    if not (vt.endswith('.' + fld) or vt.endswith('.' + fld.lstrip('_'))):
                        continue
                    others = alld - {nid}
                    if cfg.path_avoiding(nid, at, lambda x: x.id in others, follow_exc=False, edge_ok=lambda a_, b_, lab: not est(a_, b_, lab)) is not None:
                        may_none = True
                if not may_none:
                    continue
            # the link read before this statement may have been captured in a local that is tested
            ntx = cx.texts(node, at)
            endf = END_OF[fld]
            # the end store must name the node of the *same* binding (same loop iteration) as the link store: some
            # path between the two statements does not pass a re-assignment of the node variable
            redefs = set()
            if isinstance(node, ast.Name):
                for n_ in walk_local(f.node):
                    if isinstance(n_, (ast.Assign, ast.AnnAssign)) and any(isinstance(t_, ast.Name) and t_.id == node.id for t_ in (n_.targets if isinstance(n_, ast.Assign) else [n_.target])):
                        redefs.add(cfg.node_of(n_))
                    if isinstance(n_, ast.For) and any(isinstance(t_, ast.Name) and t_.id == node.id for t_ in ast.walk(n_.target)):
                        redefs.add(cfg.node_of(n_))

            def same_binding(es) -> bool:
                en = cfg.node_of(es)
                if en == at or not redefs:
                    return True
                if isinstance(node, ast.Name) and isinstance(es.value, ast.Attribute) and not any(isinstance(x, ast.Name) and x.id == node.id for x in ast.walk(es.value)):
                    return True  # the end store reads the link itself (`x.next`), the expression the local stands for, not a local
                av = lambda x: x.id in redefs
                return cfg.path_avoiding(at, en, av, follow_exc=False) is not None or cfg.path_avoiding(en, at, av, follow_exc=False) is not None

            ok = any(ef == endf and (cx.texts(ev, cfg.node_of(es)) & ntx) and same_binding(es) for es, ef, ev in end_stores)
            inst = f"{f.fq}:{canon(unparse(node))}.{fld}"
            if ok:
                r.ok(inst, f"{f.module.relpath}:{st.lineno} `{unparse(st)[:60]}`: {endf} is updated to the linked node")
            else:
                r.fail(inst, Finding("C01.R1e", f.fq, f"end-pointer:{endf}", f"`{unparse(st)[:80]}` links `{unparse(node)}` {'behind' if 'next' in fld else 'in front of'} a node whose {fld} (`{sorted(link_reads)[0]}`) is None at the end of the list, but the function never stores `{endf} = {unparse(node)}`: the container's {endf} keeps pointing at the old end, so backward / forward traversals disagree", f"{f.module.relpath}:{st.lineno}"))


END_READ = re.compile(r"^(.*)\._?(first|last)_(op|block)$")


def check_end_node_relinked(idx: Index, rep: Report) -> None:
    """`E.next = V` where E is the container's current last node (read from `<C>.last_*`) and V is a node makes V (or
    the tail of its chain) the new end: the function must store `<C>._last_*` on every path through that store
    (symmetric for prev / first)."""
    r = rep.rule("C01.R1f", "a store that links a new node behind the container's current last node (in front of its first node) is accompanied, on every path through it, by a store of the container's last (first) pointer", floor=3)
    mi = idx.module(CORE)
    for f in raw_funcs(mi):
        stores = [x for x in link_stores(f.node) if x[2] in END_OF and not (isinstance(x[3], ast.Constant) and x[3].value is None)]
        if not stores:
            continue
        cx = FnCtx(f)
        cfg = cx.cfg
        for st, recv, fld, val in stores:
            at = cfg.node_of(st)
            endf = END_OF[fld]
            conts = set()
            for t in cx.texts(recv, at):
                m = END_READ.match(t)
                if m and "_" + m.group(2) + "_" + m.group(3) == endf:
                    conts.add(m.group(1))
            if not conts:
                continue
            end_nodes = set()
            for n in walk_local(f.node):
                if isinstance(n, ast.Assign) and len(n.targets) == 1 and isinstance(n.targets[0], ast.Attribute) and n.targets[0].attr == endf:
                    en = cfg.node_of(n)
                    if cx.texts(n.targets[0].value, en) & conts:
                        end_nodes.add(en)
            inst = f"{f.fq}:{canon(unparse(recv))}.{fld}"
            before = cfg.path_avoiding(cfg.entry, at, lambda n: n.id in end_nodes, follow_exc=False)
            after = cfg.path_avoiding(at, cfg.exit, lambda n: n.id in end_nodes, follow_exc=False)
            if before is not None and after is not None:
                r.fail(inst, Finding("C01.R1f", f.fq, f"end-node-relinked:{endf}", f"`{unparse(st)[:80]}` links a node {'behind' if 'next' in fld else 'in front of'} `{sorted(conts)[0]}`'s current {'last' if 'next' in fld else 'first'} node, but a path through it never stores `{sorted(conts)[0]}.{endf}`: the container's end pointer keeps naming the old end, so traversals from the two ends disagree and the next append cuts the new nodes off", f"{f.module.relpath}:{st.lineno}"))
            else:
                r.ok(inst, f"{f.module.relpath}:{st.lineno} `{unparse(st)[:60]}`: {endf} stored on every path")


def check_writers(idx: Index, rep: Report) -> None:
    r = rep.rule("C01.R2", "link / parent / use-list / argument-list fields are written only by the primitives of xdsl/ir/core.py (+ Rewriter.replace_value_with_new_type)", floor=60)
    fields = LINK_FIELDS | END_FIELDS | USE_FIELDS | {"parent"}
    count_core = 0
    for mi in idx.modules.values():
        for f in raw_funcs(mi):
            for n in walk_local(f.node):
                tgts = []
                if isinstance(n, ast.Assign):
                    tgts = n.targets
                elif isinstance(n, (ast.AugAssign, ast.AnnAssign)):
                    tgts = [n.target]
                flat = []
                for t in tgts:
                    flat.extend(t.elts if isinstance(t, (ast.Tuple, ast.List)) else [t])
                for t in flat:
                    if not (isinstance(t, ast.Attribute) and t.attr in fields):
                        continue
                    if t.attr == "first_use" and mi.relpath != CORE and not (unparse(t.value) != "self"):
                        pass
                    inst = f"{f.fq}:{unparse(t)}"
                    cls = f.qualname.split(".")[0]
                    if mi.relpath == CORE and cls in OWNER_CLASSES:
                        count_core += 1
                        r.ok(inst, None)
                        continue
                    if mi.relpath == REWRITER and f.qualname == "Rewriter.replace_value_with_new_type" and t.attr == "_args":
                        r.ok(inst, f"{f.loc} the one sanctioned writer outside core.py")
                        continue
                    exc = next((why for (rp, q), why in WRITER_EXCEPTIONS.items() if rp == mi.relpath and f.qualname.startswith(q)), None)
                    if exc is not None:
                        r.notes.append(f"exempt: {f.fq} writes {unparse(t)} ({exc})")
                        continue
                    if t.attr == "parent" and isinstance(t.value, ast.Name) and t.value.id == "self" and f.cls is not None and any(nm == "parent" for nm, _, _ in f.cls.ann_fields()):
                        r.notes.append(f"exempt: {f.fq} own field parent")
                        continue
                    r.fail(inst, Finding("C01.R2", f.fq, f"foreign-writer:{t.attr}", f"`{unparse(n)[:90]}` writes the structural field `{t.attr}` outside the list primitives of xdsl/ir/core.py: tree and use-def invariants are no longer guaranteed by the primitives", f"{mi.relpath}:{n.lineno}"))
    if count_core < 60:
        raise AnalysisError(f"only {count_core} structural-field writers found in core.py (floor 60)")


def check_use_pairing(idx: Index, rep: Report) -> None:
    r = rep.rule("C01.R3", "replacing operands/successors removes the old value's Use and adds the same Use object to the new value; stored tuple and uses tuple are updated together", floor=5)
    # --- whole-list setters and drop_all_references
    for q, vals, uses in (("Operation.operands.setter", "_operands", "_operand_uses"), ("Operation.successors.setter", "_successors", "_successor_uses")):
        f = idx.func(CORE, q)
        cfg = CFG(f.node)
        bad = []
        rem_loops = [w for w in walk_local(f.node) if isinstance(w, ast.For) and any(call_attr(c) == "remove_use" for c in calls_in(w))]
        add_loops = [w for w in walk_local(f.node) if isinstance(w, ast.For) and any(call_attr(c) == "add_use" for c in calls_in(w))]
        if len(rem_loops) != 1 or len(add_loops) != 1:
            raise AnalysisError(f"{f.fq}: expected one remove_use loop and one add_use loop")
        rl, al = rem_loops[0], add_loops[0]
        if resolved_text(cfg, rl.iter, cfg.node_of(rl)) != f"zip(self.{vals}, self.{uses})" or unparse(rl.body[0]) != f"{unparse(rl.target.elts[0])}.remove_use({unparse(rl.target.elts[1])})":  # type: ignore[attr-defined]
            bad.append(("remove-pairing", f"old uses are not removed pairwise from zip(self.{vals}, self.{uses})"))
        # new uses: the i-th new value gets Use(self, i), and that same object is what the uses tuple holds at i.
        # Two accepted constructions (anything else is undecided, not a violation):
        #   A  uses = tuple(Use(self, i) for i in range(len(new)));  for v, u in zip(new, uses): v.add_use(u)
        #   B  for i, v in enumerate(new): u = Use(self, i); v.add_use(u); uses.append(u)
        from ..setbuild import describe as describe_set, element_shape

        adds_ = [c for c in calls_in(al) if call_attr(c) == "add_use" and len(c.args) == 1]
        if len(adds_) != 1:
            raise AnalysisError(f"{f.fq}: expected one add_use call in the loop over the new values")
        ad = adds_[0]
        recv, arg = unparse(ad.func.value), ad.args[0]  # type: ignore[attr-defined]
        it = al.iter
        new_name = uses_name = None
        form = None
        if isinstance(it, ast.Call) and call_attr(it) == "zip" and len(it.args) >= 2 and isinstance(al.target, ast.Tuple) and len(al.target.elts) == 2:
            tg = [unparse(e_) for e_ in al.target.elts]
            if recv == tg[0] and unparse(arg) == tg[1]:
                form, new_name, uses_name = "A", unparse(it.args[0]), unparse(it.args[1])
            elif recv == tg[1] and unparse(arg) == tg[0]:
                form, new_name, uses_name = "A", unparse(it.args[1]), unparse(it.args[0])
            else:
                bad.append(("add-pairing", f"`{unparse(ad)}` does not add the use paired with the value by zip({', '.join(unparse(a_) for a_ in it.args[:2])})"))
            recycled = False
            if form == "A":
                # A': uses = <prefix of the old uses>[: len(new)] + tuple(Use(self, i) for i in range(len(prefix), len(new)))
                udefs = [v_ for _, v_ in reaching_defs(cfg, uses_name, cfg.node_of(al)) if v_ is not None]
                if len(udefs) == 1 and isinstance(udefs[0], ast.BinOp) and isinstance(udefs[0].op, ast.Add):
                    from ..polyform import canon as pcanon

                    L, R = udefs[0].left, udefs[0].right
                    Lr = resolved_text(cfg, L, cfg.node_of(al))
                    g = R.args[0] if isinstance(R, ast.Call) and unparse(R.func) == "tuple" and len(R.args) == 1 and isinstance(R.args[0], ast.GeneratorExp) else None
                    if g is not None and re.fullmatch(rf"self\.{uses}\[:len\((?:\w+\()?{re.escape(new_name)}\)?\)\]", Lr) and len(g.generators) == 1 and not g.generators[0].ifs and isinstance(g.generators[0].iter, ast.Call) and unparse(g.generators[0].iter.func) == "range" and len(g.generators[0].iter.args) in (1, 2) and unparse(g.elt) == f"Use(self, {unparse(g.generators[0].target)})":
                        recycled = True
                        ra_ = g.generators[0].iter.args
                        a_, b_ = (ast.Constant(value=0), ra_[0]) if len(ra_) == 1 else ra_
                        a_t = resolved_text(cfg, a_, cfg.node_of(al)).replace(Lr, "KEPT")
                        if pcanon(a_t) != pcanon("len(KEPT)") or unparse(b_) != f"len({new_name})":
                            bad.append(("new-uses", f"the uses appended behind the recycled prefix `{unparse(L)}` are numbered `range({unparse(a_)}, {unparse(b_)})`; they sit at positions len({unparse(L)}) .. len({new_name}) - 1, so an appended entry gets a Use whose index is not its position"))
            if form == "A" and not recycled:
                dsc = describe_set(f.node, cfg, ast.Name(id=uses_name, ctx=ast.Load()), cfg.node_of(al))
                okA = not dsc.unknown and not dsc.bases and len(dsc.adds) == 1 and len(dsc.adds[0].iters) == 1 and dsc.adds[0].iters[0][1] == f"range(len({new_name}))" and element_shape(dsc.adds[0]) == "Use(self, _x)" and not dsc.adds[0].facts
                if dsc.unknown:
                    raise AnalysisError(f"{f.fq}: construction of `{uses_name}` not understood: {dsc.unknown[:2]}")
                if not okA:
                    bad.append(("new-uses", f"the new Use objects (`{[a_.elem for a_ in dsc.adds]}` over {[a_.iters for a_ in dsc.adds]}) are not Use(self, idx) for every position idx of the new list"))
        elif isinstance(it, ast.Call) and call_attr(it) == "enumerate" and len(it.args) == 1 and isinstance(al.target, ast.Tuple) and len(al.target.elts) == 2:
            ix, v_ = (unparse(e_) for e_ in al.target.elts)
            new_name = unparse(it.args[0])
            utxt = resolved_text(cfg, arg, cfg.node_of(ad))
            if recv != v_:
                bad.append(("add-pairing", f"`{unparse(ad)}` is not applied to the enumerated value `{v_}`"))
            if utxt != f"Use(self, {ix})":
                bad.append(("new-uses", f"the use added to the value at position {ix} is `{utxt}`, not Use(self, {ix})"))
            apps = [c for c in calls_in(al) if call_attr(c) == "append" and len(c.args) == 1 and unparse(c.args[0]) == unparse(arg) and isinstance(c.func.value, ast.Name)]  # type: ignore[attr-defined]
            if len(apps) == 1:
                form, uses_name = "B", apps[0].func.value.id  # type: ignore[attr-defined]
            else:
                raise AnalysisError(f"{f.fq}: where the new uses are collected was not understood")
        else:
            raise AnalysisError(f"{f.fq}: the loop adding the new uses iterates `{unparse(it)}`, which is neither zip(new, uses) nor enumerate(new)")
        sts = {unparse(s_.targets[0]): s_ for s_ in walk_local(f.node) if isinstance(s_, ast.Assign) and isinstance(s_.targets[0], ast.Attribute)}
        sv, su = sts.get(f"self.{vals}"), sts.get(f"self.{uses}")
        if sv is None or su is None or unparse(sv.value) != new_name or re.sub(r"^tuple\((\w+)\)$", r"\1", unparse(su.value)) != uses_name:
            bad.append(("store", f"self.{vals} / self.{uses} are not both replaced by the new list and its uses"))
        if cfg.node_of(rl) in cfg.reachable(cfg.node_of(al)):
            bad.append(("order", "old uses must be removed before the new ones are added"))
        if bad:
            for k, m in bad:
                r.fail(f.fq, Finding("C01.R3", f.fq, k, m, f.loc))
        else:
            r.ok(f.fq, f"{f.loc} remove old (value,use) pairs; add Use(self, idx) to each new value; store both tuples")
    f = idx.func(CORE, "Operation.drop_all_references")
    texts = [unparse(s) for s in f.node.body]
    need = [
        "for operand, use in zip(self._operands, self._operand_uses):\n    operand.remove_use(use)",
        "self._operand_uses = ()",
        "for successor, use in zip(self._successors, self._successor_uses):\n    successor.remove_use(use)",
        "self._successor_uses = ()",
    ]
    miss = [t.split("\n")[0] for t in need if not any(alpha_same(s_, t) for s_ in f.node.body)]
    if miss:
        r.fail(f.fq, Finding("C01.R3", f.fq, "drop-refs", f"drop_all_references no longer contains {miss}: erased operations would stay in use lists (or uses would be removed twice)", f.loc))
    else:
        r.ok(f.fq, f"{f.loc} removes every (value,use) pair and clears the use tuples")
    # --- single-position setters
    for clsname, vals, uses in (("OpOperands", "_operands", "_operand_uses"), ("OpSuccessors", "_successors", "_successor_uses")):
        f = idx.func(CORE, f"{clsname}.__setitem__")
        cfg = CFG(f.node)
        ixn, newv = f.node.args.args[1].arg, f.node.args.args[2].arg
        rem = [c for c in calls_in(f.node) if call_attr(c) == "remove_use"]
        add = [c for c in calls_in(f.node) if call_attr(c) == "add_use"]
        bad = []
        if len(rem) != 1 or len(add) != 1:
            raise AnalysisError(f"{f.fq}: expected one remove_use and one add_use")
        rt = canon(resolved_text(cfg, rem[0], cfg.node_of(rem[0])))
        at_ = canon(resolved_text(cfg, add[0], cfg.node_of(add[0])))
        if rt != f"self._op.{vals}[{ixn}].remove_use(self._op.{uses}[{ixn}])":
            bad.append(("remove", f"`{rt}`: the Use stored at position {ixn} must be removed from the old value at position {ixn}"))
        if at_ != f"{newv}.add_use(self._op.{uses}[{ixn}])":
            bad.append(("add", f"`{at_}`: the same Use object must be added to the new value"))
        if cfg.node_of(rem[0]) in cfg.reachable(cfg.node_of(add[0])):
            bad.append(("order", "remove_use must precede add_use (same Use object is re-homed)"))
        # the stored tuple is the old one with exactly position ixn replaced by the new value
        sts = [n for n in walk_local(f.node) if isinstance(n, ast.Assign) and unparse(n.targets[0]) == f"self._op.{vals}"]
        if len(sts) != 1:
            raise AnalysisError(f"{f.fq}: expected one store to self._op.{vals}")
        nf = SeqEval(f.node, cfg).eval(sts[0].value, cfg.node_of(sts[0]))
        if nf != replaced_at(f"self._op.{vals}", ixn, newv):
            bad.append(("position-store", f"the stored tuple is `{show(nf)}`; it must be the old tuple with exactly position {ixn} replaced by {newv}"))
        if bad:
            for k, m in bad:
                r.fail(f.fq, Finding("C01.R3", f.fq, k, m, f.loc))
        else:
            r.ok(f.fq, f"{f.loc} {vals}[{ixn}].remove_use(uses[{ixn}]); {newv}.add_use(uses[{ixn}])")


def _slice_rebuild_ok(stmt_val: ast.AST, seq: str, ix: str, newv: str) -> bool:
    t = unparse(stmt_val)
    return f"*{seq}[:{ix}], {newv}, *{seq}[{ix} + 1:]" in t


def check_index_classes(idx: Index, rep: Report) -> None:
    r = rep.rule("C01.R5", "a position-taking mutator that rebuilds a tuple as (*xs[:i], v, *xs[i+1:]) is right for every index class {<0, in range, >=len} or rejects it", floor=3)
    sites = [("OpOperands.__setitem__", CORE), ("OpSuccessors.__setitem__", CORE)]
    for q, mod in sites:
        f = idx.func(mod, q)
        ixn = f.node.args.args[1].arg
        rebuilds = [n for n in walk_local(f.node) if isinstance(n, ast.Assign) and re.search(rf"\[:{ixn}\].*\[{ixn} \+ 1:\]", unparse(n.value))]
        if not rebuilds:
            r.ok(f.fq, f"{f.loc} no slice rebuild (element store)")
            continue
        for n in rebuilds:
            facts = guard_facts(f.node, n)
            txts = [canon_cmp(t) + (":T" if p else ":F") for t, p in facts]  # comparisons oriented with < / <=
            neg_guard = any(re.search(rf"\b{ixn} < 0:F|0 <= {ixn}\b.*:T", x) for x in txts)
            normalised = any(isinstance(s, ast.Assign) and unparse(s.targets[0]) == ixn and "len(" in unparse(s.value) for s in walk_local(f.node)) or any(isinstance(s, ast.AugAssign) and unparse(s.target) == ixn and "len(" in unparse(s.value) for s in walk_local(f.node))
            # a normalisation `i += len(xs)` alone is not enough (i = -len-1 stays negative): a rejection of negative
            # indices must hold at the rebuild, and it must be tested after the last assignment to the index
            last_assign = max([s.lineno for s in walk_local(f.node) if (isinstance(s, ast.Assign) and unparse(s.targets[0]) == ixn) or (isinstance(s, ast.AugAssign) and unparse(s.target) == ixn)] + [0])
            guard_lines = [t.lineno for t, p in facts if re.search(rf"\b{ixn} < 0|0 <= {ixn}\b", canon_cmp(t))]
            if neg_guard and all(g > last_assign for g in guard_lines):
                r.ok(f.fq, f"{f.loc} negative index {'normalised and ' if normalised else ''}rejected before the slice rebuild")
            else:
                r.fail(f.fq, Finding("C01.R5", f.fq, "negative-index", f"`{unparse(n)[:100]}`: for {ixn} = -1 the element access uses the last position but xs[:{ixn}] + [v] + xs[{ixn}+1:] = xs[:-1] + [v] + xs[0:]: the rebuilt tuple has 2n-1 entries for n uses", f"{f.module.relpath}:{n.lineno}"))
    # the same rebuild anywhere else in the IR core / rewriters: `xs[:i] + ... + xs[i + 1:]` (or the starred form) is only right
    # for i >= 0.  The index is fine when it comes from a position lookup (index(), get_*_index(), .index of a result /
    # argument, enumerate / range); an index handed in by the caller needs the negative case rejected (or normalised and
    # rejected) before the rebuild.
    done = {q for q, _ in sites}
    for mod in (CORE, "xdsl/rewriter.py", "xdsl/pattern_rewriter.py"):
        for f in raw_funcs(idx.module(mod)):
            if f.qualname in done:
                continue
            cfg = None
            for n in walk_local(f.node):
                if not isinstance(n, ast.Assign):
                    continue
                m = re.search(r"\[:(\w+)\].*\[\1 \+ 1:\]", unparse(n.value))
                if not m:
                    continue
                ixn = m.group(1)
                if cfg is None:
                    cfg = CFG(f.node)
                inst = f"{f.fq}:{ixn}"
                srcs = Deriv(cfg).expand(ast.Name(id=ixn, ctx=ast.Load()), cfg.node_of(n))
                params = {a.arg for a in f.node.args.posonlyargs + f.node.args.args + f.node.args.kwonlyargs}

                def nonneg(e: ast.AST) -> bool:
                    t = unparse(e)
                    if isinstance(e, ast.Call) and (call_attr(e) == "index" or re.fullmatch(r"get_\w*index", call_attr(e) or "") or t.startswith("len(")):
                        return True
                    if isinstance(e, ast.Attribute) and e.attr == "index":
                        return True
                    if isinstance(e, ast.Constant) and isinstance(e.value, int) and e.value >= 0:
                        return True
                    return False

                caller = [e for e in srcs if isinstance(e, ast.Name) and e.id in params]
                unknown = [e for e in srcs if not nonneg(e) and e not in caller]
                loopvar = any(isinstance(w, ast.For) and any(isinstance(x, ast.Name) and x.id == ixn for x in ast.walk(w.target)) for w in walk_local(f.node))
                if loopvar or (not caller and not unknown):
                    r.ok(inst, f"{f.module.relpath}:{n.lineno} index from a position lookup / loop counter")
                    continue
                if unknown and not caller:
                    raise AnalysisError(f"{f.fq}: where the index `{ixn}` of the slice rebuild comes from (`{unparse(unknown[0])[:50]}`) is not understood")
                # path form: from every assignment that can make the index negative (the caller's value, `i += len(xs)`),
                # each path to the rebuild crosses the non-negative edge of a test `i < 0` / `0 <= i` before any other
                # assignment of the index
                assigns = [s_ for s_ in walk_local(f.node) if (isinstance(s_, ast.Assign) and len(s_.targets) == 1 and unparse(s_.targets[0]) == ixn) or (isinstance(s_, ast.AugAssign) and unparse(s_.target) == ixn)]
                starts = [cfg.node_of(s_) for s_ in assigns if isinstance(s_, ast.AugAssign) or not nonneg(s_.value)]
                if ixn in params:
                    starts.append(cfg.entry)
                anodes = {cfg.node_of(s_) for s_ in assigns}
                good: set[tuple[int, str]] = set()
                for nd in cfg.nodes:
                    if nd.kind == "test" and nd.ast is not None:
                        c_ = canon_cmp(nd.ast)
                        if re.fullmatch(rf"{ixn} < 0", c_):
                            good.add((nd.id, "F"))
                        elif re.fullmatch(rf"0 <= {ixn}|{ixn} >= 0", c_):
                            good.add((nd.id, "T"))
                dst = cfg.node_of(n)
                leak = None
                for st_ in starts:
                    leak = cfg.path_avoiding(st_, dst, lambda x: x.id in anodes, follow_exc=False, edge_ok=lambda a_, b_, lab: (a_, lab) not in good)
                    if leak is not None:
                        break
                if leak is None:
                    r.ok(inst, f"{f.module.relpath}:{n.lineno} negative index rejected before the slice rebuild")
                else:
                    r.fail(inst, Finding("C01.R5", f.fq, "negative-index", f"`{unparse(n)[:100]}`: `{ixn}` can be the caller's `{caller[0].id}`; for -1 the element access `xs[{ixn}]` uses the last position but xs[:{ixn}] + xs[{ixn}+1:] = xs[:-1] + xs[0:]: the rebuilt tuple has 2n-1 entries and still contains the element", f"{f.module.relpath}:{n.lineno}"))
    # insert_arg / erase_arg / replace_value_with_new_type
    f = idx.func(CORE, "Block.insert_arg")
    index = f.node.args.args[2].arg
    stores = [n for n in walk_local(f.node) if isinstance(n, ast.Assign) and unparse(n.targets[0]) == "self._args"]
    if not stores:
        raise AnalysisError(f"{f.fq}: no store to self._args")
    for st in stores:
        nonneg, upper = range_bounds(text_facts(f.node, st), index)
        if nonneg and "len(self._args)" in upper:
            r.ok(f.fq, f"{f.loc} index range [0, len] established at the rebuild")
        else:
            r.fail(f.fq, Finding("C01.R5", f.fq, "index-range", f"insert_arg does not reject indices outside [0, len] before `{unparse(st)[:60]}` (known: {'>= 0' if nonneg else 'no lower bound'}, upper bounds {sorted(upper)})", f.loc))


def check_arg_shift(idx: Index, rep: Report) -> None:
    r = rep.rule("C01.R4", "argument/result indices are shifted for exactly the suffix and the tuple is rebuilt around the same position; a retyped value keeps its index and owner", floor=3)
    for q, kind in (("Block.insert_arg", "insert"), ("Block.erase_arg", "erase")):
        f = idx.func(CORE, q)
        cfg = CFG(f.node)
        se = SeqEval(f.node, cfg)
        bad = []
        if kind == "insert":
            index = f.node.args.args[2].arg
            ctor = [c for c in calls_in(f.node) if call_attr(c) == "BlockArgument"]
            if len(ctor) != 1:
                raise AnalysisError(f"{f.fq}: expected one BlockArgument(...) construction")
            cargs = [resolved_text(cfg, x, cfg.node_of(ctor[0])) for x in ctor[0].args]
            if not (len(cargs) >= 3 and cargs[1] == "self" and cargs[2] == index):
                bad.append(("new-arg", "the new BlockArgument must be created with owner self and the insertion index"))
            delta, first_shifted = 1, index
        else:
            arg = f.node.args.args[1].arg
            index = f"{arg}.index"
            delta, first_shifted = -1, f"{index} + 1"
            facts = text_facts(f.node, f.node.body[-1])
            if not any((t, p) in ((f"{arg}.block is not self", False), (f"{arg}.block is self", True), (f"{arg}.block != self", False), (f"{arg}.block == self", True)) for t, p in facts) and not any(isinstance(n, ast.If) and unparse(n.test) in (f"{arg}.block is not self", f"not {arg}.block is self", f"{arg}.block != self") and isinstance(n.body[-1], ast.Raise) for n in walk_local(f.node)):
                bad.append(("owner", "erase_arg must reject an argument of another block"))
        stores = [n for n in walk_local(f.node) if isinstance(n, ast.Assign) and unparse(n.targets[0]) == "self._args"]
        if len(stores) != 1:
            raise AnalysisError(f"{f.fq}: expected one store to self._args, found {len(stores)}")
        st = stores[0]
        nf = se.eval(st.value, cfg.node_of(st))
        if kind == "insert":
            ok_nf = nf is not None and len(nf) == 3 and nf[0] == ("slice", "self._args", None, index) and nf[1][0] == "elem" and nf[2] == ("slice", "self._args", index, None)
            if ok_nf:
                ev = nf[1][1]
                rd = [v for _, v in reaching_defs(cfg, ev, cfg.node_of(st))] if ev.isidentifier() else []
                if not (len(rd) == 1 and rd[0] is not None and any(x is ctor[0] for x in ast.walk(rd[0]))):
                    ok_nf = False
        else:
            ok_nf = nf == removed_at("self._args", index)
        if not ok_nf:
            bad.append(("rebuild", f"argument tuple is rebuilt as `{show(nf)}`; expected " + ("args[:i] + [new] + args[i:]" if kind == "insert" else "args[:i] + args[i+1:]") + f" with i = {index}"))
        # shift loop: every argument of the old suffix, and only those, gets index +/- 1
        loops = []
        for n in walk_local(f.node):
            if isinstance(n, ast.For) and isinstance(n.target, ast.Name):
                aug = [b for b in n.body if isinstance(b, ast.AugAssign) and unparse(b.target) == f"{n.target.id}.index"]
                if aug:
                    loops.append((n, aug))
        if len(loops) != 1:
            bad.append(("shift", f"expected one loop adjusting `.index` of the arguments after the position, found {len(loops)}"))
        else:
            lp, aug = loops[0]
            it = se.eval(lp.iter, cfg.node_of(lp))
            step = aug[0]
            sgn = 1 if isinstance(step.op, ast.Add) else -1 if isinstance(step.op, ast.Sub) else 0
            amount = unparse(step.value)
            if it != (("slice", "self._args", first_shifted, None),) or len(lp.body) != 1 or (sgn * (int(amount) if amount.lstrip("-").isdigit() else 0)) != delta:
                bad.append(("shift", f"the loop adjusts `{show(it)}` by {'+' if sgn > 0 else '-'}{amount}; arguments at positions >= {first_shifted} must have their index changed by {delta:+d}"))
            # the loop must see the OLD tuple: either it runs before the store, or its iterable was captured before it
            if cfg.node_of(lp) in cfg.reachable(cfg.node_of(st)):
                cap_before = isinstance(lp.iter, ast.Name) and all(cfg.node_of(st) in cfg.reachable(d) and d not in cfg.reachable(cfg.node_of(st)) for d, _ in reaching_defs(cfg, lp.iter.id, cfg.node_of(lp)))
                if not cap_before:
                    bad.append(("order", "indices must be shifted on the old tuple before it is rebuilt (otherwise the new argument is shifted too)"))
        (r.ok(f.fq, f"{f.loc} suffix {delta:+d}; {show(nf)}") if not bad else [r.fail(f.fq, Finding("C01.R4", f.fq, k, m, f.loc)) for k, m in bad])
    f = idx.func(REWRITER, "Rewriter.replace_value_with_new_type")
    cfg = CFG(f.node)
    val = f.node.args.args[0].arg
    bad = []
    for ctor, owner in (("OpResult", f"{val}.op"), ("BlockArgument", f"{val}.block")):
        cs = [c for c in calls_in(f.node) if call_attr(c) == ctor]
        if len(cs) != 1:
            raise AnalysisError(f"{f.fq}: expected one {ctor}(...) construction")
        at = cfg.node_of(cs[0])
        a = [resolved_text(cfg, x, at) for x in cs[0].args]
        if len(a) < 3 or a[1] != owner or a[2] != f"{val}.index":
            bad.append((f"ctor-{ctor}", f"replacement {ctor} is built with ({', '.join(a)}); it must keep owner {owner} and index {val}.index"))
    # the local(s) holding the replacement value: targets of the OpResult / BlockArgument constructions
    new_names = {n.targets[0].id for n in walk_local(f.node) if isinstance(n, ast.Assign) and len(n.targets) == 1 and isinstance(n.targets[0], ast.Name) and isinstance(n.value, ast.Call) and call_attr(n.value) in ("OpResult", "BlockArgument")}
    if not new_names:
        raise AnalysisError(f"{f.fq}: the replacement value is not bound to a local")
    rebuilds = [n for n in walk_local(f.node) if isinstance(n, ast.Assign) and "*" in unparse(n.value)]
    for n in rebuilds:
        t = resolved_text(cfg, n.value, cfg.node_of(n))
        if not re.search(rf"\[:{val}\.index\], .*, \*.*\[{val}\.index \+ 1:\]", t) or not any(isinstance(x, ast.Name) and x.id in new_names for x in ast.walk(n.value)):
            bad.append(("rebuild", f"`{unparse(n)[:80]}` does not replace exactly position {val}.index"))
    if not any(isinstance(s, ast.Expr) and isinstance(s.value, ast.Call) and unparse(s.value.func) == f"{val}.replace_all_uses_with" and len(s.value.args) == 1 and unparse(s.value.args[0]) in new_names for s in f.node.body):
        bad.append(("reroute", "uses of the old value are not re-routed to the new value"))
    (r.ok(f.fq, f"{f.loc} same owner/index, position replaced, uses re-routed") if not bad else [r.fail(f.fq, Finding("C01.R4", f.fq, k, m, f.loc)) for k, m in bad])


def check_attach(idx: Index, rep: Report) -> None:
    r = rep.rule("C01.R6", "insertion APIs write links only after _attach_* (no parent, not an ancestor); erase is guarded by 'detached'", floor=10)
    for q, child in (("Block._attach_op", "operation"), ("Region._attach_block", "block")):
        f = idx.func(CORE, q)
        c = f.node.args.args[1].arg
        tests = [unparse(n.test) for n in f.node.body if isinstance(n, ast.If) and isinstance(n.body[0], ast.Raise)]
        st = [unparse(s) for s in f.node.body if isinstance(s, ast.Assign)]
        ok = any(t in (f"{c}.parent", f"{c}.parent is not None") for t in tests) and f"{c}.is_ancestor(self)" in tests and st == [f"{c}.parent = self"]
        (r.ok(f.fq, f"{f.loc} rejects attached child and ancestor cycles") if ok else r.fail(f.fq, Finding("C01.R6", f.fq, "attach-guards", f"{q} must raise when the child has a parent or is an ancestor of the container, then set child.parent = self", f.loc)))
    # every function that links a *parameter-derived* node into a list attaches it first
    mi = idx.module(CORE)
    for f in raw_funcs(mi):
        if f.cls is None or f.cls.name not in ("Block", "Region"):
            continue
        if f.name in ("_attach_op", "_attach_block"):
            continue
        ends = [n for n in walk_local(f.node) if isinstance(n, ast.Assign) and isinstance(n.targets[0], ast.Attribute) and n.targets[0].attr in END_FIELDS | LINK_FIELDS and unparse(n.targets[0].value) == "self"]
        inserts = f.name in ("insert_op_after", "insert_op_before", "add_op", "add_block", "insert_block_before")
        if not inserts:
            continue
        cfg = CFG(f.node)
        att = {cfg.node_of(c) for c in calls_in(f.node) if call_attr(c) in ("_attach_op", "_attach_block")}
        delegating = {cfg.node_of(c) for c in calls_in(f.node) if call_attr(c) in ("insert_op_after", "insert_op_before", "add_op", "add_block", "insert_block_before") and call_attr(c) != f.name}
        cx = FnCtx(f)
        new_params = {a.arg for a in f.node.args.args[1:2]}

        def derives_new(e: ast.AST, at: int) -> bool:
            ts = cx.texts(e, at) - {canon(unparse(_strip_walrus(e)))} or cx.texts(e, at)
            return all(("next(" in t) or (t in new_params) for t in ts)

        # link stores that involve a node known to be new on every path (old neighbours re-asserted in the
        # StopIteration handlers of the iterator-driven functions are not insertions)
        linkers = {cfg.node_of(c) for c in calls_in(f.node) if call_attr(c) in ("_insert_next_op", "_insert_prev_op")} | {
            cfg.node_of(n) for n, recv, fl, val in link_stores(f.node) if derives_new(recv, cfg.node_of(n)) or derives_new(val, cfg.node_of(n))
        }
        bad = False
        for ln in linkers:
            # the first link write must be preceded by an attach on every path
            p = cfg.path_avoiding(cfg.entry, ln, lambda x: x.id in att)
            if p is not None:
                # allowed when every node on the path that writes is itself after... (loop back-edges): check the
                # path does not contain an earlier linker either (i.e. this is the first write)
                if not any(x in linkers for x in p[:-1]):
                    bad = True
        if bad:
            r.fail(f.fq, Finding("C01.R6", f.fq, "link-before-attach", "a node can be linked into the list before _attach_* checked that it is detached and not an ancestor", f.loc))
        else:
            r.ok(f.fq, f"{f.loc} links only after _attach_*")
    for q in ("Operation.erase", "Block.erase", "Region.erase"):
        f = idx.func(CORE, q)
        asserts = [unparse(n.test) for n in f.node.body if isinstance(n, ast.Assert)] + [unparse(n.test) for n in f.node.body if isinstance(n, ast.If) and isinstance(n.body[0], ast.Raise)]
        if "self.parent is None" in asserts or "self.parent is not None" in asserts or "self.parent" in asserts:
            r.ok(f.fq, f"{f.loc} requires a detached node")
        else:
            r.fail(f.fq, Finding("C01.R6", f.fq, "erase-attached", "erase must require `self.parent is None`: erasing an attached node leaves it in its container's list", f.loc))
    # detach primitives: parent cleared and both own links cleared
    for q, c in (("Block.detach_op", "op"), ("Region.detach_block", "block")):
        f = idx.func(CORE, q)
        cfg = CFG(f.node)
        cname = f.node.args.args[1].arg
        par = {cfg.node_of(n) for n in walk_local(f.node) if isinstance(n, ast.Assign) and unparse(n) == f"{cname}.parent = None"}
        if not par or cfg.path_avoiding(cfg.entry, cfg.exit, lambda x: x.id in par, follow_exc=False) is not None:
            r.fail(f.fq, Finding("C01.R6", f.fq, "detach-parent", "a path detaches the node without clearing its parent", f.loc))
        else:
            r.ok(f.fq, f"{f.loc} parent cleared on every path")
        if not any(isinstance(n, ast.If) and "parent is not self" in unparse(n.test) and isinstance(n.body[0], ast.Raise) for n in walk_local(f.node)):
            r.fail(f.fq + ":owner", Finding("C01.R6", f.fq, "detach-foreign", "detach must reject a node whose parent is another container", f.loc))
        else:
            r.ok(f.fq + ":owner")


def check_iterators(idx: Index, rep: Report) -> None:
    """The block / operation iterators read the link of a node *before* handing the node out (the next node is fixed while the
    current one is still attached).  Loops such as `for block in region.blocks: block.drop_all_references()` clear the links
    of the node they were just given; an iterator that follows the link of a node it handed out earlier stops after the
    first element, and the remaining nodes keep their entries in the use lists."""
    r = rep.rule("C01.R7", "the linked-list iterators follow the link of the node they are about to return, never of a node handed out by an earlier call", floor=3)
    mi = idx.module(CORE)
    LINKS = {"next_block", "_next_block", "prev_block", "_prev_block", "next_op", "_next_op", "prev_op", "_prev_op"}
    n = 0
    for cname, c in mi.classes.items():
        if not re.fullmatch(r"_(Region|Block)\w*Iterator", cname):
            continue
        m = c.method("__next__")
        if m is None:
            continue
        n += 1
        fn = m.node
        rets = [x for x in walk_local(fn) if isinstance(x, ast.Return) and x.value is not None]
        returned = {unparse(x.value) for x in rets}
        reads = [x for x in ast.walk(fn) if isinstance(x, ast.Attribute) and x.attr in LINKS and isinstance(x.ctx, ast.Load) and not (isinstance(x.value, ast.Name) and x.value.id == "self")]
        inst = f"{c.fq}.__next__"
        stale = [x for x in reads if unparse(x.value) not in returned]
        if not reads:
            raise AnalysisError(f"{c.fq}.__next__: no link is followed")
        if stale:
            r.fail(inst, Finding("C01.R7", m.fq, f"stale-link:{stale[0].attr}", f"`{unparse(stale[0])}` follows the link of `{unparse(stale[0].value)}`, which is not the node this call returns ({sorted(returned)}): the link of a node handed out earlier may have been cleared or re-pointed by the loop body (drop_all_references, erase, detach), so the iteration ends early or wanders into another list", f"{CORE}:{stale[0].lineno}"))
        else:
            r.ok(inst, f"{m.loc} the link is read off the node being returned, before it is handed out")
    if n < 3:
        raise AnalysisError(f"only {n} linked-list iterators found in {CORE}")


def check_attach_last(idx: Index, rep: Report) -> None:
    """_attach_* sets child.parent: it is the commit point of an insertion.  Every rejection (explicit raise) of the
    insertion API must come before it, otherwise a failed call leaves a node that claims a parent but is in no list."""
    r = rep.rule("C01.R6b", "no insertion API can raise after _attach_op / _attach_block has set the child's parent (validation precedes the commit point)", floor=6)
    mi = idx.module(CORE)
    for f in raw_funcs(mi):
        atts = [c for c in calls_in(f.node) if call_attr(c) in ("_attach_op", "_attach_block")]
        if not atts or f.name in ("_attach_op", "_attach_block"):
            continue
        cfg = CFG(f.node)
        raises = [n for n in walk_local(f.node) if isinstance(n, ast.Raise) and n.exc is not None]
        for a in atts:
            an = cfg.node_of(a)
            after = cfg.reachable(an)
            late = [x for x in raises if cfg.node_of(x) in after and cfg.node_of(x) != an]
            # re-raising inside an except handler of an exhausted iterator is not a rejection of the inserted node
            inst = f"{f.fq}:{a.lineno - f.node.lineno}"
            if late:
                x = late[0]
                r.fail(inst, Finding("C01.R6b", f.fq, "raise-after-attach", f"`{unparse(x)[:80]}` (line {x.lineno}) can be reached after `{unparse(a)}` has set the child's parent: a rejected call leaves the node with a parent although it is in no list (later insertions are refused, erase asserts)", f"{f.module.relpath}:{x.lineno}"))
            else:
                r.ok(inst, None)
    r.samples[:] = ["Block.insert_op_before: `existing_op.parent is not self` is tested before self._attach_op(new_op)"]
    # the same for the list itself: a rejection after the first link / end-pointer store leaves the list half-edited
    r2 = rep.rule("C01.R6d", "no editing primitive of Block / Region / Operation rejects the call (explicit raise) after it has already written a link or end-pointer field: validation precedes the first store", floor=None)
    n_fn = 0
    for f in raw_funcs(mi):
        if f.cls is None or f.cls.name not in ("Block", "Region", "Operation"):
            continue
        stores = [x for x in walk_local(f.node) if isinstance(x, ast.Assign) and len(x.targets) == 1 and isinstance(x.targets[0], ast.Attribute) and x.targets[0].attr in LINK_FIELDS | END_FIELDS]
        raises = [n for n in walk_local(f.node) if isinstance(n, ast.Raise) and n.exc is not None]
        if not stores or not raises:
            continue
        n_fn += 1
        cfg = CFG(f.node)
        inst = f"{f.fq}:validation-first"
        bad = None
        for st in stores:
            after = cfg.reachable(cfg.node_of(st), follow_exc=False)
            late = [x for x in raises if cfg.node_of(x) in after]
            if late:
                bad = (st, late[0])
                break
        if bad:
            st, x = bad
            r2.fail(inst, Finding("C01.R6d", f.fq, f"raise-after-store:{st.targets[0].attr}", f"`{unparse(x)[:70]}` (line {x.lineno}) can be reached after `{unparse(st)[:60]}` (line {st.lineno}) has been written: the rejected call leaves the list with that store done and the rest of the edit missing (forward and backward order, or the end pointers, disagree for the next call)", f"{f.module.relpath}:{x.lineno}"))
        else:
            r2.ok(inst, f"{f.loc} every raise precedes the first link / end-pointer store")
    rep.extra.setdefault("c01_r6d_functions", n_fn)


def _parents(fn: ast.AST) -> dict[int, ast.AST]:
    par: dict[int, ast.AST] = {}
    for n in ast.walk(fn):
        for c in ast.iter_child_nodes(n):
            par[id(c)] = n
    return par


def check_bulk_repair(idx: Index, rep: Report) -> None:
    """A bulk insertion that chains the new nodes itself leaves the list open while it runs: the end pointer / the link
    back to the node behind the insertion point is written once, after the loop.  `_attach_*` is the validation of the
    *next* child and raises for a child that already has a parent: when it sits in that loop, the pending store must
    also run on the way out of a rejected call (a `finally`), otherwise the children linked so far are in the forward
    list while the end pointer / backward link still describes the old list."""
    r = rep.rule("C01.R6c", "a bulk insertion that validates a child (_attach_*) inside its linking loop writes the deferred end pointer / closing link in a `finally` (a rejected later child leaves a consistent list)", floor=2)
    mi = idx.module(CORE)
    n = 0
    for f in raw_funcs(mi):
        if f.cls is None or f.cls.name not in ("Block", "Region"):
            continue
        par = _parents(f.node)
        stores = [x for x in walk_local(f.node) if isinstance(x, ast.Assign) and len(x.targets) == 1 and isinstance(x.targets[0], ast.Attribute) and x.targets[0].attr in LINK_FIELDS | END_FIELDS]
        if not stores:
            continue

        def chain(x: ast.AST) -> list[ast.AST]:
            out = []
            while id(x) in par:
                x = par[id(x)]
                out.append(x)
            return out

        for a in calls_in(f.node):
            if call_attr(a) not in ("_attach_op", "_attach_block"):
                continue
            up = chain(a)
            loops = [x for x in up if isinstance(x, (ast.For, ast.While))]
            if not loops:
                continue
            loop = loops[-1]
            inside = [x for x in stores if loop in chain(x)]
            if not inside:
                continue
            n += 1
            inst = f"{f.fq}:{call_attr(a)}"
            deferred = [x for x in stores if loop not in chain(x) and x.lineno > loop.lineno]
            tries = [x for x in up if isinstance(x, ast.Try) and x.finalbody]
            unprotected = [x for x in deferred if not any(any(x is y or x in list(ast.walk(y)) for y in t.finalbody) for t in tries)]
            if unprotected:
                x = unprotected[0]
                r.fail(inst, Finding("C01.R6c", f.fq, f"deferred-store-skipped-on-rejection:{x.targets[0].attr}", f"`{unparse(a)}` (line {a.lineno}) validates each child inside the loop that links the children, and raises for one that already has a parent; `{unparse(x)[:70]}` (line {x.lineno}) is only written on the normal way out: after `[new, attached]` is rejected, `new` is in the forward list while the end pointer / backward link still describes the old list", f"{CORE}:{x.lineno}"))
            else:
                r.ok(inst, f"{f.loc} {len(deferred)} deferred store(s), all in a finally around the loop" if deferred else f"{f.loc} nothing deferred past the loop")
    if n < 2:
        raise AnalysisError(f"{CORE}: {n} bulk linking loops with _attach_* found (add_block and insert_block_before expected)")


def check(idx: Index, rep: Report, tier: str) -> str:
    rep.run(check_pairing, idx, rep)
    rep.run(check_end_pointers, idx, rep)
    rep.run(check_end_node_relinked, idx, rep)
    rep.run(check_writers, idx, rep)
    rep.run(check_use_pairing, idx, rep)
    rep.run(check_arg_shift, idx, rep)
    rep.run(check_index_classes, idx, rep)
    rep.run(check_attach, idx, rep)
    rep.run(check_attach_last, idx, rep)
    rep.run(check_bulk_repair, idx, rep)
    rep.run(check_iterators, idx, rep)
    return (
        "AST/CFG rules over the intrusive-list and use-list primitives of xdsl/ir/core.py and every writer of a structural "
        "field in the repository: link stores come in next/prev pairs on the same paths, Use objects are re-initialised "
        "when re-homed, only the primitives write link/parent/use fields (whole-repository sweep), operand/successor "
        "replacement re-homes the same Use, argument indices are shifted for exactly the suffix, slice rebuilds are right "
        "for every index class, insertion goes through _attach_*, a node linked next to a list end is stored as the "
        "container's first / last node. Client code that bypasses the API is outside the model."
    )
