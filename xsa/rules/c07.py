"""C07 — parsing terminates promptly and fails only with diagnostics: regex ambiguity (ReDoS),
Unicode-wide lexer predicates, and a classification of every non-diagnostic exception site of the
lexer / parser modules (guards, sibling agreement, reviewed invariants)."""

from __future__ import annotations

import ast
import re

from .. import regexlang as rx
from ..astutil import call_attr, calls_in, guard_facts, norm_facts, parent_map, unparse, walk_local, text_facts
from ..cfg import CFG
from ..report import Finding, Report
from ..rx_extract import all_compiles
from ..srcindex import AnalysisError, FuncInfo, Index, dotted, raw_funcs

LEXER = "xdsl/utils/mlir_lexer.py"
GLEXER = "xdsl/utils/lexer.py"
PARSER_MODULES = [
    "xdsl/parser/core.py",
    "xdsl/parser/attribute_parser.py",
    "xdsl/parser/base_parser.py",
    "xdsl/parser/generic_parser.py",
    "xdsl/parser/affine_parser.py",
    LEXER,
    GLEXER,
]
REGEX_MODULES = PARSER_MODULES + ["xdsl/utils/arg_spec.py", "xdsl/ir/core.py", "xdsl/irdl/declarative_assembly_format_parser.py"]
DIAGNOSTIC = {"ParseError", "MultipleSpansParseError", "VerifyException", "DiagnosticException"}

# Reviewed internal invariants: (function qualname, kind, regex on the normalised statement) -> reason.
# A site listed here cannot be reached with a failing condition from input text.
INVARIANTS: list[tuple[str, str, str, str]] = [
    ("ForwardDeclaredValue.owner", "raise", r"raise ValueError", "API guard; the parser never reads `.owner` of a forward-declared value (checked: no `.owner` load in xdsl/parser)"),
    ("AttrParser._parse_dialect_type_or_attribute_body", "raise", r"raise TypeError", "registry invariant: a registered attribute class is a ParametrizedAttribute or a Data subclass"),
    ("AttrParser._parse_unregistered_attr_body", "assert", r"assert \w+ is not None", "slice between two token positions of the same input is always in range"),
    ("AttrParser.parse_dense_int_or_fp_elements_attr", "assert", r"assert len\(\w+\) == 1", "an unshaped tensor literal is a single element by construction of _parse_tensor_literal"),
    ("AttrParser._TensorLiteralElement.to_complex", "raise", r"raise NotImplementedError", "ComplexType only admits float or integer element types (rejected with a diagnostic when the type is parsed)"),
    ("AttrParser.parse_optional_symbol_name", "assert", r"assert len\(\w+\.text\) > 1", "an AT_IDENT token is '@' followed by at least one character (lexer raises ParseError otherwise)"),
    ("AttrParser.parse_optional_builtin_int_or_float_attr", "assert", r"assert isinstance\(\w+, int\)", "is_hexadecimal_token is only set for INTEGER_LIT tokens"),
    ("AttrParser.parse_optional_builtin_int_or_float_attr", "next", r"next\(\w+\.iter_unpack\(\w+\)\)", "raw has exactly compile_time_size bytes, so exactly one element is unpacked"),
    ("AttrParser.parse_optional_builtin_int_or_float_attr", "iter_unpack", r"\w+\.iter_unpack\(\w+\)", "raw has exactly compile_time_size bytes"),
    ("AttrParser._parse_optional_integer_or_float_type", "int()", r"int\(\w+\.group\(1\)\)", "group 1 of the type regex is \\d+; int() accepts every Unicode decimal digit"),
    ("BaseParser.parse_optional_punctuation", "assert", r"assert MLIRTokenKind\.is_spelling_of_punctuation", "precondition on a parameter that is a string constant at the call sites"),
    ("BaseParser.parse_punctuation", "assert", r"assert MLIRTokenKind\.is_spelling_of_punctuation", "precondition on a parameter that is a string constant at the call sites"),
    ("GenericParser.raise_error", "assert", r"assert isinstance\(at_position, Position\)", "type narrowing of a parameter union"),
    ("GenericParser._consume_token", "assert", r"assert expected_kind is None or \w+\.kind == expected_kind", "callers check the kind first; each call site with an explicit kind is checked separately by rule C07.R3d"),
    ("GenericParser.parse_optional_comma_separated_list", "raise", r"raise ValueError\('Cannot use `Delimiter\.NONE`", "API misuse guard on a parameter"),
    ("MLIRTokenKind.get_punctuation_kind_from_name", "assert", r"assert MLIRTokenKind\.is_spelling_of_punctuation", "precondition on a parameter"),
    ("MLIRTokenKind.get_int_value", "raise", r"raise ValueError\('Token is not an integer literal", "kind precondition: callers only pass INTEGER_LIT tokens"),
    ("MLIRTokenKind.get_float_value", "raise", r"raise ValueError\('Token is not a float literal", "kind precondition: callers only pass FLOAT_LIT tokens"),
    ("MLIRTokenKind.get_string_literal_value", "raise", r"raise ValueError\('Token is not a string literal", "kind precondition"),
    ("MLIRLexer._lex_prefixed_ident", "assert", r"assert self\.pos != 0", "called from lex() after one character was consumed"),
    ("MLIRLexer._lex_prefixed_ident", "assert", r"assert \w+ == '%'", "lex() dispatches here only for '#', '!', '^', '%'"),
    ("Lexer.lex", "raise", r"raise NotImplementedError\(\)", "abstract method, overridden by MLIRLexer"),
    ("AttrParser._TensorLiteralElement.to_complex", "int()", r"int\(self\.value\[[01]\]\)", "components of a parsed complex literal are bool/int/float"),
    ("StringLiteral.bytes_contents", "int()", r"int\(\w+, 16\)", "guarded by all(c in hexdigits ...) on the same two characters"),
    ("StringLiteral.bytes_contents", "to_bytes", r"int\(\w+, 16\)\.to_bytes\(1, 'big'\)", "two hex digits fit one byte"),
    ("StringLiteral.string_contents", "decode", r"self\.bytes_contents\.decode\(\)", "total on literals the lexer classified as STRING_LIT; every caller in the parsers is checked by rule C07.R3e (decode-unclassified-literal)"),
    ("MLIRTokenKind.get_int_value", "int()", r"int\(span\.text, 1[06]\)", "INTEGER_LIT text is [0-9]+ or 0x[0-9a-fA-F]+ once the digit dispatch of the lexer is ASCII-only (rule C07.R2)"),
    ("MLIRTokenKind.get_float_value", "float()", r"float\(span\.text\)", "FLOAT_LIT text matches the lexer's decimal float grammar once the digit dispatch is ASCII-only (rule C07.R2)"),
]


def _literal_keys(idx: Index, mi, cls, e: ast.AST) -> set[str] | None:
    """keys of a dict / members of a tuple, list, set or str that `e` names (class attribute, module constant or literal)"""
    v = e
    if isinstance(e, ast.Attribute) and isinstance(e.value, ast.Name) and e.value.id in ("self", "cls", getattr(cls, "name", "")) and cls is not None:
        v = cls.class_assigns().get(e.attr)
    elif isinstance(e, ast.Name):
        v = mi.assigns.get(e.id)
    if isinstance(v, ast.Dict) and all(isinstance(k, ast.Constant) and isinstance(k.value, str) for k in v.keys):
        return {k.value for k in v.keys}  # type: ignore[union-attr]
    if isinstance(v, (ast.Tuple, ast.List, ast.Set)) and all(isinstance(k, ast.Constant) and isinstance(k.value, str) for k in v.elts):
        return {k.value for k in v.elts}  # type: ignore[union-attr]
    if isinstance(v, ast.Constant) and isinstance(v.value, str):
        return set(v.value)
    return None


def _prefixed_dispatch_assert(idx: Index, mi, f, x: ast.Assert):
    """True: the assertion `c in TABLE` / `TABLE.get(c) is not None` cannot fail for the characters lex() dispatches to
    _lex_prefixed_ident; a string: the character for which it fails; None: not this shape."""
    t = x.test
    table = None
    if isinstance(t, ast.Compare) and len(t.ops) == 1 and isinstance(t.ops[0], ast.In):
        table = t.comparators[0]
    elif isinstance(t, ast.Compare) and len(t.ops) == 1 and isinstance(t.ops[0], ast.IsNot) and isinstance(t.comparators[0], ast.Constant) and t.comparators[0].value is None and isinstance(t.left, ast.Name):
        defs = [a for a in walk_local(f.node) if isinstance(a, ast.Assign) and len(a.targets) == 1 and unparse(a.targets[0]) == t.left.id]
        if len(defs) == 1 and isinstance(defs[0].value, ast.Call) and call_attr(defs[0].value) == "get":
            table = defs[0].value.func.value  # type: ignore[union-attr]
    if table is None:
        return None
    keys = _literal_keys(idx, mi, f.cls, table)
    if keys is None:
        return None
    # the characters lex() sends here
    sent: set[str] | None = None
    for g in mi.functions.values():
        if g.qualname != "MLIRLexer.lex":
            continue
        for n in walk_local(g.raw_node):
            if isinstance(n, ast.If) and any(call_attr(c) == "_lex_prefixed_ident" for c in calls_in(n)) and n.body and isinstance(n.body[0], ast.Return):
                tt = n.test
                if isinstance(tt, ast.Compare) and len(tt.ops) == 1 and isinstance(tt.ops[0], ast.In):
                    sent = _literal_keys(idx, mi, g.cls, tt.comparators[0])
    if sent is None:
        return None
    missing = sorted(sent - keys)
    return True if not missing else repr(missing[0])


def check_redos(idx: Index, rep: Report, tier: str) -> None:
    r = rep.rule("C07.R1", "no regex used by the lexers/parsers has a starred group with an ambiguous inner repeat followed by a failable continuation (catastrophic backtracking)", floor=20)
    # self-check of the detector on the textbook positive / negative
    if not rx.redos(r"(a+)+b") or rx.redos(r"(a|b)*c"):
        raise AnalysisError("ReDoS detector self-check failed")
    mods = list(REGEX_MODULES)
    if tier == "thorough":
        mods = sorted(idx.by_relpath)
    for m in mods:
        for site, pat, fl, line in all_compiles(idx, m):
            if pat is None:
                r.notes.append(f"{site}: pattern not a compile-time constant (skipped)")
                continue
            try:
                probs = rx.redos(pat, fl)
            except (NotImplementedError, re.error) as e:
                r.notes.append(f"{site}: unsupported regex construct ({e})")
                continue
            inst = f"{m}:{pat[:40]}"
            if probs and m in REGEX_MODULES:
                fn = _enclosing(idx, m, line)
                r.fail(inst, Finding("C07.R1", fn, f"redos:{pat[:60]}", f"regex {pat!r}: {probs[0]}; an unterminated input makes matching time grow exponentially", f"{m}:{line}"))
            elif probs:
                r.notes.append(f"{site}: ambiguous starred group in {pat!r} (outside the anchored parser modules, reported only)")
                r.ok(inst, None)
            else:
                r.ok(inst, f"{site} {pat[:50]!r}")


def _enclosing(idx: Index, relpath: str, line: int) -> str:
    mi = idx.module(relpath)
    best = None
    for f in raw_funcs(mi):
        if f.node.lineno <= line <= (f.node.end_lineno or 0):
            if best is None or f.node.lineno > best.node.lineno:
                best = f
    if best is not None:
        return best.fq
    for c in mi.classes.values():
        if c.node.lineno <= line <= (c.node.end_lineno or 0):
            # class attribute: name it
            for st in c.node.body:
                if isinstance(st, ast.Assign) and st.lineno <= line <= (st.end_lineno or st.lineno):
                    return f"{c.fq}.{unparse(st.targets[0])}"
            return c.fq
    for st in mi.tree.body:
        if isinstance(st, ast.Assign) and st.lineno <= line <= (st.end_lineno or st.lineno):
            return f"{mi.name}.{unparse(st.targets[0])}"
    return mi.name


def check_unicode_predicates(idx: Index, rep: Report) -> None:
    r = rep.rule("C07.R2", "the lexer dispatches to number lexing only on ASCII digits (str.isnumeric/isdigit/isdecimal are Unicode-wide; int()/float() and the token regexes are not)", floor=1)
    lex = idx.func(LEXER, "MLIRLexer.lex")
    found = False
    for c_ in calls_in(lex.node):
        if call_attr(c_) != "_lex_number":
            continue
        found = True
        # what is known about the dispatching character where _lex_number is called
        pos = [t_ for t_, p_ in guard_facts(lex.node, c_) if p_]
        wide = [x for t_ in pos for x in calls_in(t_, local=False) if call_attr(x) in ("isnumeric", "isdigit", "isdecimal", "isalnum")]
        asc = [x for t_ in pos for x in calls_in(t_, local=False) if call_attr(x) == "isascii"]
        shown = " and ".join(unparse(t_) for t_ in pos if any(call_attr(x) in ("isnumeric", "isdigit", "isdecimal", "isalnum", "isascii") for x in calls_in(t_, local=False)))
        if wide and not (asc and all(unparse(a_.func.value) == unparse(w_.func.value) for a_ in asc for w_ in wide)):  # type: ignore[attr-defined]
            r.fail(lex.fq + ":number", Finding("C07.R2", lex.fq, f"unicode-digit-dispatch:{call_attr(wide[0])}", f"`{shown}` sends every Unicode numeric character (e.g. `²`, `٣`) to _lex_number; the resulting INTEGER_LIT/FLOAT_LIT text is passed to int()/float(), which raise ValueError for `²`", f"{LEXER}:{c_.lineno}"))
        else:
            r.ok(lex.fq + ":number", f"{LEXER}:{c_.lineno} `{shown}`")
    if not found:
        raise AnalysisError(f"{lex.fq}: dispatch to _lex_number not found")
    # letter predicates: recorded (a non-ASCII letter yields a BARE_IDENT token and later a diagnostic, not an internal error)
    for n in walk_local(idx.module(LEXER).tree):
        pass
    cnt = 0
    for f in raw_funcs(idx.module(LEXER)):
        for c in calls_in(f.node):
            if call_attr(c) == "isalpha":
                cnt += 1
    r.notes.append(f"{cnt} uses of str.isalpha() in the lexer accept non-ASCII letters as identifier starts; they produce tokens and diagnostics, no internal error (recorded, not reported)")


# ---------------------------------------------------------------------------------------------
# exception sites


def _kind_of(x: ast.AST) -> str | None:
    if isinstance(x, ast.Raise) and x.exc is not None:
        nm = dotted(x.exc).split(".")[-1]
        if nm not in DIAGNOSTIC and nm != "?":
            return "raise"
    elif isinstance(x, ast.Assert):
        return "assert"
    elif isinstance(x, ast.Call):
        ca = call_attr(x)
        if isinstance(x.func, ast.Name) and ca in ("int", "float") and x.args and not isinstance(x.args[0], ast.Constant):
            return ca + "()"
        if ca in ("to_bytes", "decode", "fromhex", "pack", "unpack", "iter_unpack") and isinstance(x.func, ast.Attribute):
            return ca
        if ca == "zip" and any(k.arg == "strict" for k in x.keywords):
            return "zip-strict"
        if ca == "next" and len(x.args) == 1 and isinstance(x.func, ast.Name):
            return "next"
        if ca == "index" and isinstance(x.func, ast.Attribute) and len(x.args) == 1:
            return "index"
    return None


def _in_try_catching(pm, node: ast.AST, excs: set[str]) -> bool:
    n = node
    while id(n) in pm:
        p = pm[id(n)]
        if isinstance(p, ast.Try) and any(n is s or any(n is y for y in ast.walk(s)) for s in p.body):
            for h in p.handlers:
                names = set()
                if h.type is None:
                    return True
                for t in (h.type.elts if isinstance(h.type, ast.Tuple) else [h.type]):
                    names.add(dotted(t).split(".")[-1])
                if names & (excs | {"Exception", "BaseException"}):
                    return True
        n = p
    return False


PARTIAL_EXC = {
    "int()": {"ValueError", "TypeError", "OverflowError"},
    "float()": {"ValueError", "TypeError", "OverflowError"},
    "to_bytes": {"OverflowError"},
    "decode": {"UnicodeDecodeError", "UnicodeError", "ValueError"},
    "fromhex": {"ValueError"},
    "pack": {"error", "struct.error"},
    "unpack": {"error"},
    "iter_unpack": {"error"},
    "zip-strict": {"ValueError"},
    "next": {"StopIteration"},
    "index": {"ValueError"},
}


def _union_members(ann: str) -> list[str]:
    return [a.strip() for a in ann.split("|")]


def check_sites(idx: Index, rep: Report) -> None:
    r = rep.rule("C07.R3", "every non-diagnostic raise / assert / partial builtin in the lexer and parser modules is guarded (validity test on the same value, enclosing try converting to a diagnostic) or is a reviewed internal invariant", floor=40)
    used_inv: set[int] = set()
    owner_loads = 0
    for m in PARSER_MODULES:
        mi = idx.module(m)
        for x in ast.walk(mi.tree):
            if isinstance(x, ast.Attribute) and x.attr == "owner" and isinstance(x.ctx, ast.Load) and m.startswith("xdsl/parser"):
                owner_loads += 1
    for m in PARSER_MODULES:
        mi = idx.module(m)
        for f in raw_funcs(mi):
            pm = None
            for x in walk_local(f.node):
                kind = _kind_of(x)
                if kind is None:
                    continue
                if pm is None:
                    pm = parent_map(f.node)
                txt = unparse(x)
                inst = f"{f.fq}:{kind}:{txt[:50]}"
                # the dispatch assertion of _lex_prefixed_ident in table form: `assert c in TABLE` / `assert TABLE.get(c) is not None`
                # holds iff the table has a key for every character lex() sends here (decided, not just matched)
                if kind == "assert" and f.qualname == "MLIRLexer._lex_prefixed_ident":
                    verdict = _prefixed_dispatch_assert(idx, mi, f, x)
                    if verdict is True:
                        r.ok(inst, f"{m}:{x.lineno} the table tested by the assertion has a key for every character lex() dispatches here")
                        continue
                    if isinstance(verdict, str):
                        r.fail(inst, Finding("C07.R3", f.fq, "prefix-table-incomplete", f"`{txt[:80]}`: lex() sends {verdict} to _lex_prefixed_ident but the table has no entry for it: AssertionError on that character", f"{m}:{x.lineno}"))
                        continue
                # reviewed invariant?
                inv = next((i for i, (q, k, pat, why) in enumerate(INVARIANTS) if q == f.qualname and (k == kind or (k == "raise" and kind == "raise")) and re.search(pat, txt)), None)
                if inv is not None:
                    if INVARIANTS[inv][0] == "ForwardDeclaredValue.owner" and owner_loads:
                        r.fail(inst, Finding("C07.R3", f.fq, "owner-of-forward-value", "the parser now reads `.owner`; ForwardDeclaredValue.owner raises ValueError", f.loc))
                        continue
                    used_inv.add(inv)
                    r.ok(inst, f"{m}:{x.lineno} invariant: {INVARIANTS[inv][3]}")
                    continue
                if kind in ("raise", "assert"):
                    what = "AssertionError" if kind == "assert" else dotted(x.exc).split(".")[-1]  # type: ignore[attr-defined]
                    r.fail(inst, Finding("C07.R3", f.fq, f"{kind}:{_norm(txt)}", f"`{txt[:90]}` raises {what}, which is not a parse/verification diagnostic, and the condition is not a reviewed internal invariant: input text can escape with an internal error", f"{m}:{x.lineno}"))
                    continue
                # partial builtins
                if _in_try_catching(pm, x, PARTIAL_EXC[kind]):
                    r.ok(inst, f"{m}:{x.lineno} `{txt[:50]}` inside try/except converting the error")
                    continue
                arg = x.args[0] if x.args else (x.func.value if isinstance(x.func, ast.Attribute) else None)  # type: ignore[attr-defined]
                if kind in ("to_bytes", "decode", "index"):
                    arg = x.func.value  # type: ignore[attr-defined]
                argt = unparse(arg) if arg is not None else ""
                facts = guard_facts(f.node, x)
                mention = [(t, p) for t, p in facts if argt and argt in unparse(t)]
                ok = False
                why = ""
                if kind == "index" and any(isinstance(t, ast.Compare) and isinstance(t.ops[0], ast.In) and p and unparse(t.left) == unparse(x.args[0]) and unparse(t.comparators[0]) == argt for t, p in facts):
                    ok, why = True, "guarded by a membership test on the same list"
                elif kind in ("int()", "float()") and mention:
                    # finite partition over the declared union of the field, when known
                    ann = _field_annotation(f, argt)
                    if ann:
                        surviving = _surviving_members(_union_members(ann), mention, argt)
                        badm = [s for s in surviving if s.split("[")[0] not in ("int", "float", "bool")]
                        if badm:
                            r.fail(inst, Finding("C07.R3", f.fq, f"{kind}:{_norm(txt)}:unguarded-members", f"`{txt}`: the declared type of `{argt}` is `{ann}`; the guards before the call let {badm} through, for which {kind} raises TypeError", f"{m}:{x.lineno}"))
                            continue
                        if kind == "float()" and any(s in ("int",) for s in surviving):
                            r.fail(inst, Finding("C07.R3", f.fq, f"{kind}:{_norm(txt)}:int-overflow", f"`{txt}`: `{argt}` may be an arbitrarily large parsed integer; float() raises OverflowError above 1.8e308 (e.g. a 400-digit literal with a float element type)", f"{m}:{x.lineno}"))
                            continue
                    ok, why = True, f"guarded by a validity test on `{argt}`"
                if ok:
                    r.ok(inst, f"{m}:{x.lineno} `{txt[:50]}` {why}")
                else:
                    exc = sorted(PARTIAL_EXC[kind])[0]
                    r.fail(inst, Finding("C07.R3", f.fq, f"{kind}:{_norm(txt)}", f"`{txt[:90]}` can raise {'/'.join(sorted(PARTIAL_EXC[kind]))} on values derived from the input and is neither guarded by a validity test on `{argt}` nor inside a try that converts the error into a diagnostic", f"{m}:{x.lineno}"))
    stale = [INVARIANTS[i] for i in range(len(INVARIANTS)) if i not in used_inv]
    for q, k, pat, why in stale:
        r.notes.append(f"reviewed invariant no longer present: {q} {k} /{pat}/")


def _norm(t: str) -> str:
    return re.sub(r"\s+", " ", t)[:70]


def _field_annotation(f: FuncInfo, argt: str) -> str | None:
    if argt.startswith("self.") and f.cls is not None and "." not in argt[5:] and "[" not in argt:
        for n, ann, _ in f.cls.ann_fields():
            if n == argt[5:] and ann is not None:
                return unparse(ann)
    return None


def _surviving_members(members: list[str], facts, argt: str) -> list[str]:
    """Members of the union that can reach the call given `if [not] isinstance(arg, T): <terminate>` guards."""
    alive = list(members)
    for t, pol in facts:
        neg = False
        e = t
        if isinstance(e, ast.UnaryOp) and isinstance(e.op, ast.Not):
            neg, e = True, e.operand
        if isinstance(e, ast.Call) and call_attr(e) == "isinstance" and unparse(e.args[0]) == argt:
            tys = unparse(e.args[1]).replace("(", "").replace(")", "")
            tyset = {x.strip() for x in re.split(r"[|,]", tys)}
            holds = pol != neg  # isinstance(arg, T) is known to be `holds`

            def is_inst(mem: str) -> bool:
                base = mem.split("[")[0]
                if base in tyset:
                    return True
                return base == "bool" and "int" in tyset  # bool is a subclass of int

            alive = [m_ for m_ in alive if is_inst(m_) == holds]
    return alive


def check_name_hint_guards(idx: Index, rep: Report) -> None:
    r = rep.rule("C07.R3a", "every place that turns parsed text into a name hint carries the is_valid_name guard (the setter raises ValueError)", floor=3)
    n = 0
    for m in PARSER_MODULES:
        mi = idx.module(m)
        for f in raw_funcs(mi):
            for x in walk_local(f.node):
                if isinstance(x, ast.Assign) and isinstance(x.targets[0], ast.Attribute) and x.targets[0].attr == "name_hint":
                    n += 1
                    val = unparse(x.value)
                    facts = guard_facts(f.node, x)
                    ok = any(p and isinstance(t, ast.Call) and call_attr(t) == "is_valid_name" and unparse(t.args[0]) == val for t, p in facts)
                    inst = f"{f.fq}:{unparse(x)}"
                    if ok:
                        r.ok(inst, f"{m}:{x.lineno} under is_valid_name({val})")
                    else:
                        r.fail(inst, Finding("C07.R3a", f.fq, f"name-hint-unguarded:{unparse(x)}", f"`{unparse(x)}` is not guarded by is_valid_name({val}); a label such as `^0` makes the name_hint setter raise ValueError (sibling sites carry the guard)", f"{m}:{x.lineno}"))


CONSUME_EXEMPT = {
    ("AttrParser.parse_shape_dimension", "MLIRTokenKind.INTEGER_LIT"): "the kind was checked to be INTEGER_LIT or QUESTION and the QUESTION case returned / raised just above",
}


def check_consume_token(idx: Index, rep: Report) -> None:
    r = rep.rule("C07.R3d", "_consume_token(<kind>) (which asserts the kind) is called only after the current token was checked to be of that kind", floor=12)
    for m in PARSER_MODULES:
        mi = idx.module(m)
        for f in raw_funcs(mi):
            for c in calls_in(f.node):
                if call_attr(c) == "_consume_token" and c.args:
                    kind = unparse(c.args[0])
                    if f.qualname.endswith("_consume_token") or f.qualname.endswith("_parse_optional_token") or f.qualname.endswith("_parse_token"):
                        # the generic helpers pass their own parameter after checking it
                        pass
                    facts = guard_facts(f.node, c)
                    def kind_checked(t: ast.AST, p: bool) -> bool:
                        if isinstance(t, ast.Compare) and len(t.ops) == 1:
                            l, rr = unparse(t.left), unparse(t.comparators[0])
                            if {l, rr} == {"self._current_token.kind", kind}:
                                return (isinstance(t.ops[0], (ast.Eq, ast.Is)) and p) or (isinstance(t.ops[0], (ast.NotEq, ast.IsNot)) and not p)
                        return False
                    ok = any(kind_checked(t, p) for t, p in facts)
                    inst = f"{f.fq}:_consume_token({kind})"
                    if not ok:
                        # a kind established by a dominating peek of the same token (name.kind / token.kind == kind)
                        ok = any(isinstance(t, ast.Compare) and kind in unparse(t) and ".kind" in unparse(t) and ((isinstance(t.ops[0], (ast.Eq, ast.Is)) and p) or (isinstance(t.ops[0], (ast.NotEq, ast.IsNot)) and not p)) for t, p in facts)
                    if not ok and (f.qualname, kind) in CONSUME_EXEMPT:
                        membership = any(isinstance(t, ast.Compare) and isinstance(t.ops[0], ast.NotIn) and not p and kind in unparse(t.comparators[0]) and unparse(t.left) == "self._current_token.kind" for t, p in facts)
                        ok = membership
                    if ok:
                        r.ok(inst, f"{m}:{c.lineno} kind checked before consuming")
                    else:
                        r.fail(inst, Finding("C07.R3d", f.fq, f"consume-unchecked:{kind}", f"`{unparse(c)}` asserts that the current token is {kind} but nothing on the path checked it: other input makes _consume_token raise AssertionError", f"{m}:{c.lineno}"))


def check_external_raisers(idx: Index, rep: Report) -> None:
    r = rep.rule("C07.R3e", "calls from the parsers into constructors that raise non-diagnostic errors on bad values are fed validated values (sibling agreement)", floor=4)
    ap = idx.module("xdsl/parser/attribute_parser.py")
    # (1) ParametrizedAttribute.new(param_list): ValueError (zip strict) when the parameter count differs
    for f in raw_funcs(ap):
        for c in calls_in(f.node):
            if call_attr(c) == "new" and isinstance(c.func, ast.Attribute) and unparse(c.func.value) == "attr_def":
                pm = parent_map(f.node)
                facts = guard_facts(f.node, c)
                ok = _in_try_catching(pm, c, {"ValueError"}) or any("len(" in unparse(t) for t, p in facts)
                inst = f"{f.fq}:attr_def.new"
                if ok:
                    r.ok(inst, f"{ap.relpath}:{c.lineno} parameter count validated / error converted")
                else:
                    r.fail(inst, Finding("C07.R3e", f.fq, "attr-new-param-count", f"`{unparse(c)}`: ParametrizedAttribute.new zips parameters with strict=True; a wrong number of parameters in the text (e.g. `!llvm.void<i32>`) raises ValueError instead of a diagnostic", f"{ap.relpath}:{c.lineno}"))
    # (2) packing integer elements: from_list(type, values) with values from an unvalidated reader
    f = idx.func("xdsl/parser/attribute_parser.py", "AttrParser.parse_dense_int_or_fp_elements_attr")
    fl = [c for c in calls_in(f.node) if call_attr(c) == "from_list"]
    if not fl:
        raise AnalysisError(f"{f.fq}: from_list calls not found")
    validated = any(call_attr(c) in ("_parse_typed_integer", "verify_value", "value_range") for c in calls_in(f.node)) or any(isinstance(n, ast.Try) and any(dotted(h.type).endswith("ValueError") for h in n.handlers if h.type is not None) and any(call_attr(c) == "from_list" for c in calls_in(n)) for n in walk_local(f.node))
    g = idx.func("xdsl/parser/attribute_parser.py", "AttrParser._parse_builtin_densearray_attr")
    sibling_validates = any(call_attr(c) == "_parse_typed_integer" for c in calls_in(g.node, local=False))
    if sibling_validates:
        r.ok(g.fq, f"{g.loc} dense array integers read with _parse_typed_integer (range-checked)")
    if validated:
        r.ok(f.fq, f"{f.loc} dense element integers validated before packing")
    else:
        r.fail(f.fq, Finding("C07.R3e", f.fq, "dense-int-unvalidated", "integer elements of a dense literal are converted with to_int() and packed by from_list() without a range check (the dense-array reader uses _parse_typed_integer): `dense<300> : tensor<1xi8>` raises ValueError", f.loc))
    # (3) string_contents (UTF-8 decode) is only applied to literals the lexer classified as STRING_LIT
    for m in ("xdsl/parser/attribute_parser.py", "xdsl/parser/core.py", "xdsl/parser/base_parser.py"):
        mi = idx.module(m)
        for fn in raw_funcs(mi):
            for x in walk_local(fn.node):
                if isinstance(x, ast.Attribute) and x.attr == "string_contents":
                    recv = unparse(x.value)
                    built = [c for c in calls_in(fn.node) if call_attr(c) == "StringLiteral" and any(isinstance(s, ast.Assign) and s.value is c and unparse(s.targets[0]) == recv for s in walk_local(fn.node))]
                    pm = parent_map(fn.node)
                    inst = f"{fn.fq}:{recv}.string_contents"
                    if built and not _in_try_catching(pm, x, {"UnicodeDecodeError", "UnicodeError", "ValueError"}):
                        r.fail(inst, Finding("C07.R3e", fn.fq, "decode-unclassified-literal", f"`{recv}.string_contents` decodes a literal built directly from a token span that the lexer did not classify as STRING_LIT: `@\"\\FF\"` raises UnicodeDecodeError", f"{m}:{x.lineno}"))
                    else:
                        r.ok(inst, f"{m}:{x.lineno}")
    # (4) affine expression operators are partial
    f = idx.func("xdsl/parser/affine_parser.py", "AffineParser._create_binop_expr")
    pm = parent_map(f.node)
    for x in walk_local(f.node):
        if isinstance(x, ast.BinOp) and isinstance(x.op, (ast.Mult, ast.FloorDiv, ast.Mod)) or (isinstance(x, ast.Call) and call_attr(x) == "ceil_div"):
            op = {ast.Mult: "*", ast.FloorDiv: "//", ast.Mod: "%"}.get(type(getattr(x, "op", None)), "ceil_div")
            inst = f"{f.fq}:{op}"
            if _in_try_catching(pm, x, {"NotImplementedError", "ZeroDivisionError", "Exception"}):
                r.ok(inst, f"{f.loc} `{unparse(x)}` inside try")
            else:
                r.fail(inst, Finding("C07.R3e", f.fq, f"affine-partial-op:{op}", f"`{unparse(x)}`: AffineExpr.{op} raises NotImplementedError for semi-affine operands{' and ZeroDivisionError when folding a constant division by zero' if op in ('//', '%') else ''}; the parser does not convert it (e.g. `affine_map<(d0) -> (d0 * d0)>`, `(1 floordiv 0)`)", f"{f.module.relpath}:{x.lineno}"))
    # (5) external resources
    f = idx.func("xdsl/parser/core.py", "Parser._parse_external_resources")
    if any(isinstance(x, ast.Raise) and dotted(x.exc).endswith("NotImplementedError") for x in walk_local(f.node)):
        pass  # reported by C07.R3 (raise site)


def check_optional_chars(idx: Index, rep: Report) -> None:
    r = rep.rule("C07.R4", "a character looked up past the current position (Input.at / slice: `str | None`) is used as a string only under a bounds / not-None guard", floor=3)
    mi = idx.module(LEXER)
    n = 0
    for f in raw_funcs(mi):
        for c in calls_in(f.node):
            if unparse(c.func) == "self.input.at":
                n += 1
                pm = parent_map(f.node)
                # how is the result used?
                p = pm[id(c)]
                while isinstance(p, ast.Call) and call_attr(p) == "cast":
                    c_out = p
                    p = pm[id(p)]
                default = None
                if isinstance(p, ast.BoolOp) and isinstance(p.op, ast.Or) and len(p.values) == 2 and isinstance(p.values[1], ast.Constant) and isinstance(p.values[1].value, str) and any(y is c for y in ast.walk(p.values[0])):
                    default = p.values[1].value
                    lookup_expr = p
                    p = pm[id(p)]
                user = p
                off = unparse(c.args[0])
                inst = f"{f.fq}:at({off})"
                if default is not None:
                    m_ = re.fullmatch(r"self\.pos \+ (\d+)", off)
                    need = int(m_.group(1)) + 1 if m_ else None
                    facts = text_facts(f.node, c)
                    bounded = any(p_ and (mm := re.fullmatch(r"self\._is_in_bounds\((\d*)\)", t)) and (int(mm.group(1) or 1) >= (need or 10**9)) for t, p_ in facts)
                    member = isinstance(user, ast.Compare) and len(user.ops) == 1 and isinstance(user.ops[0], (ast.In, ast.NotIn)) and user.left is lookup_expr and not isinstance(user.comparators[0], (ast.List, ast.Tuple, ast.Set, ast.Dict))
                    if default == "" and member and not bounded:
                        r.fail(inst, Finding("C07.R4", f.fq, f"empty-default-member:{off}", f"`{unparse(user)[:70]}`: at end of input the lookup is None and is replaced by '' - and `'' in <str>` is True for every string, so the test succeeds with no character there (e.g. input ending in `0x` is lexed as a hexadecimal literal without digits and int('0x', 16) raises ValueError)", f"{LEXER}:{c.lineno}"))
                    else:
                        r.ok(inst, f"{LEXER}:{c.lineno} None replaced by {default!r}" + (" under a bounds guard" if bounded else ""))
                    continue
                risky = isinstance(user, ast.Compare) and isinstance(user.ops[0], (ast.In, ast.NotIn)) and user.left is not c and not isinstance(user.comparators[0], (ast.List, ast.Tuple, ast.Set, ast.Dict)) or isinstance(user, ast.Attribute)
                if isinstance(user, ast.Compare) and isinstance(user.ops[0], (ast.In, ast.NotIn)):
                    # `x in <str>` raises TypeError for None unless the container is a list/tuple/set literal
                    left_is_lookup = any(y is c for y in ast.walk(user.left))
                    risky = left_is_lookup and not isinstance(user.comparators[0], (ast.List, ast.Tuple, ast.Set, ast.Dict))
                if not risky:
                    r.ok(inst, f"{LEXER}:{c.lineno} result only compared / stored")
                    continue
                m_ = re.fullmatch(r"self\.pos \+ (\d+)", off)
                need = int(m_.group(1)) + 1 if m_ else (0 if re.fullmatch(r"self\.pos - \d+", off) else None)
                facts = text_facts(f.node, c)
                ok = need == 0 or any(p_ and (mm := re.fullmatch(r"self\._is_in_bounds\((\d*)\)", t)) and (int(mm.group(1) or 1) >= (need or 10**9)) for t, p_ in facts)
                if ok:
                    r.ok(inst, f"{LEXER}:{c.lineno} guarded by _is_in_bounds({need})")
                else:
                    r.fail(inst, Finding("C07.R4", f.fq, f"unbounded-lookahead:{off}", f"`{unparse(user)[:70]}` uses the character at {off} as a string without `_is_in_bounds({need})`: at end of input the lookup is None and `None in <str>` raises TypeError", f"{LEXER}:{c.lineno}"))
    # a slice of the buffer is '' past the end of the input, and `'' in <str>` is True
    for f in raw_funcs(mi):
        for cmp_ in walk_local(f.node):
            if isinstance(cmp_, ast.Compare) and len(cmp_.ops) == 1 and isinstance(cmp_.ops[0], (ast.In, ast.NotIn)) and isinstance(cmp_.left, ast.Subscript) and isinstance(cmp_.left.slice, ast.Slice) and re.fullmatch(r"(\w+\.)*content|content", unparse(cmp_.left.value)) and not isinstance(cmp_.comparators[0], (ast.List, ast.Tuple, ast.Set, ast.Dict)):
                n += 1
                inst = f"{f.fq}:slice@{cmp_.lineno}"
                facts = text_facts(f.node, cmp_)
                if any(p_ and re.fullmatch(r"self\._is_in_bounds\((\d*)\)", t) for t, p_ in facts):
                    r.ok(inst, f"{LEXER}:{cmp_.lineno} slice membership under a bounds guard")
                else:
                    r.fail(inst, Finding("C07.R4", f.fq, f"empty-slice-member:{unparse(cmp_.left.slice)}", f"`{unparse(cmp_)[:70]}`: past the end of the input the slice is '' and `'' in <str>` is True for every string, so the test succeeds with no character there (input ending in `0x` is lexed as a hexadecimal literal without digits and int('0x', 16) raises ValueError)", f"{LEXER}:{cmp_.lineno}"))
    if n < 2:
        raise AnalysisError("expected at least 2 look-ahead reads of the input in the MLIR lexer")


def check_tuple_index(idx: Index, rep: Report) -> None:
    """`%name#<index>`: the index is converted from token text and later subscripts a tuple of results.  The upper
    bound is tested where it is used; the lower bound must come from the language the text is validated against
    (int() also accepts `-2`, `1_0`, ` 7 `: a negative index silently selects another result or raises IndexError)."""
    r = rep.rule("C07.R5", "an SSA tuple index converted from token text is validated against a language of plain decimal digits (or tested >= 0) before int(), and tested against the tuple size where it subscripts", floor=2)
    f = idx.func("xdsl/parser/core.py", "Parser.parse_optional_unresolved_operand")
    fn = f.node
    mi = f.module
    ints = [c for c in calls_in(fn) if isinstance(c.func, ast.Name) and c.func.id == "int" and c.args]
    if not ints:
        raise AnalysisError(f"{f.fq}: conversion of the tuple index not found")
    digits_only = rx.from_regex(r"[0-9]+")
    from ..rx_extract import compile_call, const_str

    for c in ints:
        arg = unparse(c.args[0])
        ok = None
        for t, pol in guard_facts(fn, c):
            # `re.fullmatch(P, text) is None` was false  /  `P.fullmatch(text)` was true
            call = None
            if isinstance(t, ast.Compare) and len(t.ops) == 1 and isinstance(t.ops[0], (ast.Is, ast.IsNot)) and unparse(t.comparators[0]) == "None" and isinstance(t.left, ast.Call):
                if (isinstance(t.ops[0], ast.Is) and not pol) or (isinstance(t.ops[0], ast.IsNot) and pol):
                    call = t.left
            elif isinstance(t, ast.Call) and pol:
                call = t
            if call is None or call_attr(call) != "fullmatch":
                # explicit sign test on the converted value
                continue
            if unparse(call.func) == "re.fullmatch" and len(call.args) >= 2 and unparse(call.args[1]) == arg:
                pat_e = call.args[0]
            elif isinstance(call.func, ast.Attribute) and call.args and unparse(call.args[0]) == arg:
                pat_e = call.func.value
            else:
                continue
            # resolve the pattern: class attribute holding re.compile(...) or a literal
            pat = None
            if isinstance(pat_e, ast.Attribute) and unparse(pat_e.value) in ("self", "cls") and f.cls is not None:
                v = f.cls.class_assigns().get(pat_e.attr)
                if v is not None:
                    pat = compile_call(idx, mi, v, f.cls)
            elif isinstance(pat_e, ast.Constant) and isinstance(pat_e.value, str):
                pat = (pat_e.value, 0)
            if pat is None:
                raise AnalysisError(f"{f.fq}: pattern `{unparse(pat_e)}` of the tuple-index validation cannot be resolved")
            w = rx.included(rx.from_regex(pat[0], pat[1]), digits_only)
            ok = (w, pat[0])
        inst = f"{f.fq}:int({arg})"
        loc = f"{mi.relpath}:{c.lineno}"
        if ok is None:
            # a later explicit `index < 0` rejection?
            pm = parent_map(fn)
            neg = [n for n in walk_local(fn) if isinstance(n, ast.Compare) and len(n.ops) == 1 and ((isinstance(n.ops[0], ast.Lt) and unparse(n.comparators[0]) == "0") or (isinstance(n.ops[0], ast.GtE) and unparse(n.comparators[0]) == "0"))]
            if neg:
                r.ok(inst, f"{loc} sign of the converted index is tested")
            else:
                r.fail(inst, Finding("C07.R5", f.fq, "index-language", f"`{unparse(c)}` converts the text after `#` without validating it against plain decimal digits: int() accepts `-2`, `+1`, `1_0` (all lexed as one HASH_IDENT), so `%0#-2` reaches the result tuple with a negative index and raises IndexError (or silently selects another result)", loc))
        elif ok[0] is None:
            r.ok(inst, f"{loc} text validated by fullmatch({ok[1]!r}) ⊆ [0-9]+ before int()")
        else:
            r.fail(inst, Finding("C07.R5", f.fq, "index-language", f"the tuple index is validated with {ok[1]!r}, which also admits `{rx.show(ok[0])}`: not a plain non-negative decimal", loc))
    # upper bound where the index subscripts a tuple of SSA values
    from ..astutil import range_bounds
    from ..dataflow import resolved_text as _rt

    n_sub = 0
    for g in raw_funcs(mi):
        if g.cls is None or g.cls.name != "Parser":
            continue
        gcfg = None
        for sub in walk_local(g.node):
            if not (isinstance(sub, ast.Subscript) and isinstance(sub.ctx, ast.Load) and not isinstance(sub.slice, (ast.Slice, ast.Constant, ast.Tuple))):
                continue
            if gcfg is None:
                gcfg = CFG(g.node)
            try:
                at = gcfg.node_of(sub)
            except Exception:
                continue
            base = _rt(gcfg, sub.value, at)
            if not (re.fullmatch(r"self\.ssa_values\[[^\]]+\]", unparse(sub.value)) or re.fullmatch(r"self\.ssa_values(\[.+\]|\.get\(.+\))", base) or (g.name == "_register_ssa_definition" and unparse(sub.value) == "values")):
                continue
            if unparse(sub.slice) in ("0", "-1"):
                continue
            ix = unparse(sub.slice)
            n_sub += 1
            facts = text_facts(g.node, sub)
            _, upper = range_bounds(facts, ix)
            sizes = {f"len({base})", f"len({unparse(sub.value)})"}
            ok_ = any(u.endswith(" - 1") and (u[:-4] in sizes or _rt(gcfg, ast.parse(u[:-4], mode="eval").body, at) in sizes) for u in upper)
            inst = f"{g.fq}:{unparse(sub)[:40]}"
            if ok_:
                r.ok(inst, f"{mi.relpath}:{sub.lineno} `{ix}` < size tested before `{unparse(sub)}`")
            else:
                r.fail(inst, Finding("C07.R5", g.fq, "index-upper-bound", f"`{unparse(sub)}` is reached with `{ix}` known only to satisfy {sorted('<= ' + u for u in upper) or 'nothing'}: `%v#N` with N equal to (or above) the number of results raises IndexError instead of a diagnostic", f"{mi.relpath}:{sub.lineno}"))
    # a constant position of a result tuple (`values[0]`): the tuple may be empty (`%a:0 = ...` binds `a` to ()), so the
    # access needs the same evidence - expected count on today's tree: zero such accesses
    for g in raw_funcs(mi):
        if g.cls is None or g.cls.name != "Parser":
            continue
        gcfg = None
        for sub in walk_local(g.node):
            if not (isinstance(sub, ast.Subscript) and isinstance(sub.ctx, ast.Load) and isinstance(sub.slice, ast.Constant) and isinstance(sub.slice.value, int)):
                continue
            if gcfg is None:
                gcfg = CFG(g.node)
            try:
                at = gcfg.node_of(sub)
                base = _rt(gcfg, sub.value, at)
            except Exception:
                continue
            if not re.fullmatch(r"self\.ssa_values(\[.+\]|\.get\(.+\))", base):
                continue
            k_ = sub.slice.value
            bt = unparse(sub.value)
            facts = {(t_, p_) for t_, p_ in norm_facts(text_facts(g.node, sub))}
            sized = any((p_ and re.fullmatch(rf"len\((?:{re.escape(bt)}|{re.escape(base)})\) (>|>=|!=) \d+|\d+ < len\((?:{re.escape(bt)}|{re.escape(base)})\)", t_)) or (k_ in (0, -1) and p_ and t_ in (bt, base)) for t_, p_ in facts)
            inst = f"{g.fq}:{unparse(sub)[:40]}"
            if sized:
                r.ok(inst, f"{mi.relpath}:{sub.lineno} `{unparse(sub)}` under a size test")
            else:
                r.fail(inst, Finding("C07.R5", g.fq, f"constant-index-unbounded:{k_}", f"`{unparse(sub)}` takes element {k_} of the result tuple bound to an SSA name without any test of its size: `%a:0 = ...` binds the name to an empty tuple, and a later `%a` escapes with IndexError instead of the 'tuple index out of bounds' diagnostic", f"{mi.relpath}:{sub.lineno}"))
    if n_sub < 2:
        raise AnalysisError(f"{mi.relpath}: only {n_sub} tuple-element accesses of SSA value tuples found (expected resolve_operand, parse_optional_operand, _register_ssa_definition)")

BUFFER = re.compile(r"^(content|self\.content|(\w+\.)*input\.content)$")
LENGTH = r"(?:length|self\.len|(?:\w+\.)*input\.len|len\((?:content|self\.content|(?:\w+\.)*input\.content)\))"


def check_raw_indexing(idx: Index, rep: Report) -> None:
    """Direct indexing of the input buffer `content[i]` (the raw scanners bypass Input.at): on every path from the last
    assignment of the index to the subscript an edge establishes `i < <length>`; otherwise the index can equal the
    length at end of input and IndexError escapes instead of a diagnostic."""
    from ..astutil import conjuncts

    r = rep.rule("C07.R6", "the input buffer is indexed directly (`content[i]`) only where `i < length` was established after the last assignment of i", floor=3)
    n = 0
    for rel in PARSER_MODULES:
        for f in raw_funcs(idx.module(rel)):
            # local aliases of the buffer and of its length in this function (whatever they are called)
            buf_alias = {s_.targets[0].id for s_ in walk_local(f.node) if isinstance(s_, ast.Assign) and len(s_.targets) == 1 and isinstance(s_.targets[0], ast.Name) and re.fullmatch(r"(self\.content|(\w+\.)*input\.content)", unparse(s_.value))}
            buf_re = "|".join(["self\\.content", "(?:\\w+\\.)*input\\.content"] + sorted(re.escape(a_) for a_ in buf_alias | {"content"}))
            BUFFER = re.compile(rf"^({buf_re})$")
            len_alias = {s_.targets[0].id for s_ in walk_local(f.node) if isinstance(s_, ast.Assign) and len(s_.targets) == 1 and isinstance(s_.targets[0], ast.Name) and re.fullmatch(rf"(self\.len|(\w+\.)*input\.len|len\((?:{buf_re})\))", unparse(s_.value))}
            LENGTH = "(?:" + "|".join(["self\\.len", "(?:\\w+\\.)*input\\.len", rf"len\((?:{buf_re})\)"] + sorted(re.escape(a_) for a_ in len_alias | {"length"})) + ")"
            subs = [x for x in walk_local(f.node) if isinstance(x, ast.Subscript) and isinstance(x.ctx, ast.Load) and not isinstance(x.slice, ast.Slice) and BUFFER.match(unparse(x.value)) and not isinstance(x.slice, ast.Constant)]
            if not subs:
                continue
            cfg = CFG(f.node)
            # local alias of the buffer: content = <...>.input.content is matched by name `content`
            for x in subs:
                n += 1
                it = unparse(x.slice)
                names = {y.id for y in ast.walk(x.slice) if isinstance(y, ast.Name)}
                defs = {cfg.node_of(s_) for s_ in walk_local(f.node) if isinstance(s_, (ast.Assign, ast.AugAssign, ast.AnnAssign)) and any(isinstance(t_, ast.Name) and t_.id in names for t_ in ast.walk(s_.targets[0] if isinstance(s_, ast.Assign) else s_.target))}
                pat = re.compile(rf"^{re.escape(it)} < {LENGTH}$|^{LENGTH} > {re.escape(it)}$")
                npat = re.compile(rf"^{re.escape(it)} >= {LENGTH}$|^{LENGTH} <= {re.escape(it)}$")

                def est(a_: int, b_: int, lab) -> bool:
                    e_ = cfg.nodes[a_].ast
                    if e_ is None or lab not in ("T", "F") or not isinstance(e_, ast.expr):
                        return False
                    for atom, truth in conjuncts(e_, lab == "T"):
                        t_ = unparse(atom)
                        if (truth and pat.match(t_)) or ((not truth) and npat.match(t_)):
                            return True
                    return False

                # expression-level guard in the same boolean expression: `i < length and content[i] == ...`
                from ..astutil import guard_facts as _gf

                def same_expr(t_: ast.AST) -> bool:
                    """t_ and the subscript sit in one expression (short-circuit guard), with no statement between"""
                    pm_ = parent_map(f.node)
                    a_ = x
                    while id(a_) in pm_ and not isinstance(pm_[id(a_)], ast.stmt):
                        a_ = pm_[id(a_)]
                    return any(y is t_ for y in ast.walk(a_))

                if any(((pol and pat.match(unparse(t_))) or ((not pol) and npat.match(unparse(t_)))) and same_expr(t_) for t_, pol in _gf(f.node, x)):
                    un = cfg.node_of(x)
                    # ... provided i is not reassigned between that test and the subscript (same expression / statement)
                    r.ok(f"{f.fq}:{unparse(x)}@{x.lineno}", None)
                    continue
                un = cfg.node_of(x)
                starts = list(defs) + [cfg.entry]
                bad = None
                for d_ in starts:
                    others = defs - {d_}
                    if d_ == un:
                        continue
                    pth = cfg.path_avoiding(d_, un, lambda nd: nd.id in others, follow_exc=False, edge_ok=lambda a_, b_, lab: not est(a_, b_, lab))
                    if pth is not None:
                        bad = (d_, pth)
                        break
                inst = f"{f.fq}:{unparse(x)}@{x.lineno}"
                if bad is None:
                    r.ok(inst, f"{rel}:{x.lineno} `{it} < length` established after the last assignment of the index")
                else:
                    r.fail(inst, Finding("C07.R6", f.fq, f"unbounded-index:{unparse(x)}", f"`{unparse(x)}` (line {x.lineno}) is reached from `{cfg.nodes[bad[0]].text()[:50]}` without `{it} < length` being tested in between: at end of input the index equals the length and IndexError escapes instead of a ParseError", f"{rel}:{x.lineno}"))
    if n < 3:
        raise AnalysisError(f"only {n} direct indexings of the input buffer found")


def check_find_sentinel(idx: Index, rep: Report) -> None:
    """`s.find(sub, start)` answers -1 when there is no occurrence; using that value as a position moves the cursor
    backwards (to 0 after `+ 1`), which re-lexes the input forever.  The result must be compared with -1 / 0 first."""
    r = rep.rule("C07.R7", "the result of str.find on the input is tested against -1 before it is used as a position", floor=2)
    n = 0
    for rel in PARSER_MODULES:
        for f in raw_funcs(idx.module(rel)):
            finds = [c for c in calls_in(f.node) if call_attr(c) == "find" and isinstance(c.func, ast.Attribute)]
            if not finds:
                continue
            pm = parent_map(f.node)
            cfg = CFG(f.node)
            for c in finds:
                n += 1
                inst = f"{f.fq}:find@{c.lineno}"
                par = pm.get(id(c))
                SENT = lambda cmp_: isinstance(cmp_, ast.Compare) and len(cmp_.ops) == 1 and any(isinstance(k_, ast.Constant) and k_.value in (-1, 0) or (isinstance(k_, ast.UnaryOp) and isinstance(k_.op, ast.USub)) for k_ in [cmp_.left] + cmp_.comparators)
                # (x := s.find(...)) > -1   /   s.find(...) == -1
                if isinstance(par, ast.NamedExpr):
                    par = pm.get(id(par))
                if SENT(par):
                    r.ok(inst, f"{rel}:{c.lineno} compared with the sentinel at once")
                    continue
                if isinstance(par, (ast.Assign, ast.AnnAssign)) and isinstance((par.targets[0] if isinstance(par, ast.Assign) else par.target), ast.Name):
                    nm = (par.targets[0] if isinstance(par, ast.Assign) else par.target).id
                    dn = cfg.node_of(par)
                    tests = {cfg.node_of(t_) for t_ in walk_local(f.node) if SENT(t_) and any(isinstance(y, ast.Name) and y.id == nm for y in ast.walk(t_))}
                    uses = [u for u in walk_local(f.node) if isinstance(u, ast.Name) and u.id == nm and isinstance(u.ctx, ast.Load) and not any(SENT(a_) for a_ in _ancestors(pm, u))]
                    from ..astutil import guard_facts as _gf2

                    uses = [u for u in uses if not any(SENT(t_) and any(isinstance(y, ast.Name) and y.id == nm for y in ast.walk(t_)) for t_, _ in _gf2(f.node, u))]
                    bad = [u for u in uses if cfg.node_of(u) != dn and cfg.path_avoiding(dn, cfg.node_of(u), lambda nd: nd.id in tests, follow_exc=False) is not None]
                    if bad:
                        r.fail(inst, Finding("C07.R7", f.fq, f"find-sentinel-unchecked:{nm}", f"`{unparse(par)}` may be -1 (no occurrence) and `{nm}` is used at line {bad[0].lineno} without a test against -1", f"{rel}:{bad[0].lineno}"))
                    else:
                        r.ok(inst, f"{rel}:{c.lineno} `{nm}` tested against -1 before use")
                    continue
                # used directly inside an expression (arithmetic, assignment to a position)
                r.fail(inst, Finding("C07.R7", f.fq, "find-sentinel-unchecked:expr", f"`{unparse(par)[:80]}` uses the result of find directly: when there is no occurrence (input ends inside a `//` comment without a newline) it is -1, so the position becomes 0 and the lexer starts over from the beginning of the input - the parser never terminates", f"{rel}:{c.lineno}"))
    if n < 2:
        raise AnalysisError(f"only {n} str.find calls found in the lexer / parser modules")


def _ancestors(pm, n):
    while id(n) in pm:
        n = pm[id(n)]
        yield n


def _list_locals(fn: ast.AST) -> dict[str, list[ast.AST]]:
    """locals / parameters that are lists: name -> defining expressions (empty for an annotated parameter)"""
    out: dict[str, list[ast.AST]] = {}
    a = fn.args  # type: ignore[attr-defined]
    for x in a.posonlyargs + a.args + a.kwonlyargs:
        if x.annotation is not None and re.match(r"(list|Sequence|MutableSequence)\[", unparse(x.annotation)):
            out[x.arg] = []
    for n in ast.walk(fn):
        tv = None
        if isinstance(n, ast.Assign) and len(n.targets) == 1 and isinstance(n.targets[0], ast.Name):
            tv = (n.targets[0].id, n.value)
        elif isinstance(n, ast.AnnAssign) and isinstance(n.target, ast.Name) and n.value is not None:
            tv = (n.target.id, n.value)
        if tv is None:
            continue
        v = tv[1]
        if isinstance(v, (ast.List, ast.ListComp)) or (isinstance(v, ast.Call) and unparse(v.func) in ("list", "sorted")):
            out.setdefault(tv[0], []).append(v)
    return out


def check_quadratic(idx: Index, rep: Report) -> None:
    """Time roughly proportional to the input: a linear scan of a list whose length grows with the input (`L.count(x)`,
    `L.index(x)`, `x in L`, `x in L[:i]`) repeated for every element of that same list (or of the list it was built from,
    or inside the loop that appends to it) is quadratic in the number of entries of one dictionary / list literal."""
    r = rep.rule("C07.R8", "no parser / lexer function scans an input-sized list linearly (count / index / membership / slice membership) once per element of that list", floor=None)
    pos = ast.parse("def f(attrs: list[tuple[str, int]]):\n    keys = [k for k, _ in attrs]\n    return next((k for k in keys if keys.count(k) > 1), None)\n").body[0]
    neg = ast.parse("def f(attrs: list[tuple[str, int]]):\n    seen: set[str] = set()\n    for k, _ in attrs:\n        if k in seen:\n            return k\n        seen.add(k)\n    return None\n").body[0]

    def scan(fn: ast.AST) -> list[tuple[ast.AST, str, str]]:
        lists = _list_locals(fn)
        if not lists:
            return []
        # which lists have input-proportional length relative to which iteration source
        def src_names(e: ast.AST) -> set[str]:
            return {x.id for x in ast.walk(e) if isinstance(x, ast.Name)}

        derived: dict[str, set[str]] = {nm: {nm} for nm in lists}
        for nm, defs in lists.items():
            for d in defs:
                if isinstance(d, ast.ListComp):
                    for g in d.generators:
                        derived[nm] |= src_names(g.iter) & set(lists)
                elif isinstance(d, ast.Call) and d.args:
                    derived[nm] |= src_names(d.args[0]) & set(lists)
        found = []
        loops: list[tuple[ast.AST, ast.AST, list[ast.AST]]] = []  # (loop node, iter expr, body nodes)
        for n in ast.walk(fn):
            if isinstance(n, (ast.For, ast.AsyncFor)):
                loops.append((n, n.iter, n.body))
            elif isinstance(n, (ast.ListComp, ast.SetComp, ast.GeneratorExp, ast.DictComp)):
                g0 = n.generators[0]
                body = [n.elt] if not isinstance(n, ast.DictComp) else [n.key, n.value]
                loops.append((n, g0.iter, body + list(g0.ifs) + [x for g in n.generators[1:] for x in [g.iter] + list(g.ifs)]))
        for loop, it, body in loops:
            it_lists = {nm for nm in src_names(it) if nm in lists}
            if isinstance(it, ast.Call) and unparse(it.func) in ("enumerate", "reversed") and it.args:
                it_lists = {nm for nm in src_names(it.args[0]) if nm in lists}
            # lists appended to in this loop grow with it
            grown = {unparse(c.func.value) for b in body for c in ast.walk(b) if isinstance(c, ast.Call) and isinstance(c.func, ast.Attribute) and c.func.attr in ("append", "extend") and isinstance(c.func.value, ast.Name) and c.func.value.id in lists}
            related = set()
            for nm in lists:
                if nm in grown or derived[nm] & it_lists or any(nm in derived.get(s_, set()) for s_ in it_lists):
                    related.add(nm)
            if not related:
                continue
            for b in body:
                for x in ast.walk(b):
                    if isinstance(x, ast.Call) and isinstance(x.func, ast.Attribute) and x.func.attr in ("count", "index") and isinstance(x.func.value, ast.Name) and x.func.value.id in related:
                        found.append((x, x.func.value.id, f".{x.func.attr}()"))
                    if isinstance(x, ast.Compare) and len(x.ops) == 1 and isinstance(x.ops[0], (ast.In, ast.NotIn)):
                        c0 = x.comparators[0]
                        base = c0.value if isinstance(c0, ast.Subscript) and isinstance(c0.slice, ast.Slice) else c0
                        if isinstance(base, ast.Name) and base.id in related:
                            found.append((x, base.id, "membership test"))
        return found

    if len(scan(pos)) != 1 or scan(neg):
        raise AnalysisError("C07.R8: the quadratic-scan detector fails its positive / negative example")
    r.ok("self-check", "list.count inside a generator over the same list: recognised; set membership: not reported")
    nfun = 0
    for m in REGEX_MODULES:
        mi = idx.module(m)
        for f in raw_funcs(mi):
            nfun += 1
            for x, nm, what in scan(f.node):
                inst = f"{f.fq}:{nm}{what}"
                r.fail(inst, Finding("C07.R8", f.fq, f"quadratic-scan:{what}", f"`{unparse(x)[:70]}` is a linear {what} of the list `{nm}`, evaluated once per element of a loop over that list (or over the list it is built from / inside the loop that fills it): a single dictionary or list literal with n entries costs n^2 steps, so parsing time is no longer proportional to the input size", f"{m}:{x.lineno}"))
    rep.extra.setdefault("c07_r8_functions", nfun)


def check_block_table(idx: Index, rep: Report) -> None:
    """Parser.blocks maps a label to (block, span of its definition or None while only forward-referenced);
    Parser.forward_block_references has an entry exactly for the labels in the second state.  `_parse_block` pops that
    entry with a one-argument dict.pop (KeyError when absent), so the two tables must move together: a (block, None)
    entry is stored only together with a forward reference, the pop happens only for an entry whose span is None, and the
    definition span is recorded before the function goes on -- otherwise a second definition of the same label finds
    'span None' again and pops a key that is gone."""
    r = rep.rule("C07.R9", "the forward-reference table and the block table of the parser change together: a one-argument pop of forward_block_references is reached only for an entry whose definition span is None, and the span is recorded on every path after it", floor=2)
    PC = "xdsl/parser/core.py"
    mi = idx.module(PC)
    n_pop = 0
    for f in raw_funcs(mi):
        fn = f.node
        cfg = None
        # (1) a (block, None) entry is stored only where a forward reference is recorded
        for st in walk_local(fn):
            if isinstance(st, ast.Assign) and isinstance(st.targets[0], ast.Subscript) and unparse(st.targets[0].value) == "self.blocks" and isinstance(st.value, ast.Tuple) and len(st.value.elts) == 2 and isinstance(st.value.elts[1], ast.Constant) and st.value.elts[1].value is None:
                key = unparse(st.targets[0].slice)
                paired = any(isinstance(c, ast.Call) and call_attr(c) == "append" and unparse(c.func.value) == f"self.forward_block_references[{key}]" for c in calls_in(fn))
                inst = f"{f.fq}:forward-entry"
                if paired:
                    r.ok(inst, f"{PC}:{st.lineno} forward-declared block registered together with its reference")
                else:
                    r.fail(inst, Finding("C07.R9", f.fq, "forward-entry-unpaired", f"`{unparse(st)[:70]}` registers a block as 'not defined yet' without recording a forward reference for `{key}`: its definition then pops a missing key (KeyError)", f"{PC}:{st.lineno}"))
        # (2)+(3) the pop
        for c in calls_in(fn):
            if call_attr(c) == "pop" and isinstance(c.func, ast.Attribute) and unparse(c.func.value) == "self.forward_block_references" and len(c.args) == 1:
                n_pop += 1
                if cfg is None:
                    cfg = CFG(fn)
                key = unparse(c.args[0])
                inst = f"{f.fq}:pop"
                facts = norm_facts(text_facts(fn, c))
                # the span local: second component unpacked from self.blocks[key]
                span_names = [unparse(t.elts[1]) for a in walk_local(fn) if isinstance(a, ast.Assign) and unparse(a.value) == f"self.blocks[{key}]" for t in a.targets if isinstance(t, ast.Tuple) and len(t.elts) == 2]
                span_none = any((f"{sn} is not None", False) in facts or (f"{sn} is None", True) in facts for sn in span_names) or (f"self.blocks[{key}][1] is None", True) in facts
                member = (f"{key} in self.forward_block_references", True) in facts
                if not (span_none or member):
                    r.fail(inst, Finding("C07.R9", f.fq, "pop-unguarded", f"`{unparse(c)}` raises KeyError for a label without a pending forward reference, and nothing on the way establishes that the entry of `{key}` is still undefined (span None) or that the key is present", f"{PC}:{c.lineno}"))
                    continue
                if member:
                    r.ok(inst, f"{PC}:{c.lineno} pop under a membership test")
                    continue
                rec = {cfg.node_of(st) for st in walk_local(fn) if isinstance(st, ast.Assign) and isinstance(st.targets[0], ast.Subscript) and unparse(st.targets[0].value) == "self.blocks" and unparse(st.targets[0].slice) == key and isinstance(st.value, ast.Tuple) and len(st.value.elts) == 2 and not (isinstance(st.value.elts[1], ast.Constant) and st.value.elts[1].value is None)}
                pnode = cfg.node_of(c)
                leak = cfg.path_avoiding(pnode, cfg.exit, lambda x: x.id in rec, follow_exc=False)
                if leak is None:
                    r.ok(inst, f"{PC}:{c.lineno} entry is 'undefined' at the pop and its definition span is recorded afterwards")
                else:
                    r.fail(inst, Finding("C07.R9", f.fq, "definition-not-recorded", f"after `{unparse(c)}` the entry `self.blocks[{key}]` keeps the span None: a second `^{{label}}:` for the same label passes the re-declaration test again and pops a key that is no longer there - KeyError instead of the 're-declaration of block' diagnostic", f"{PC}:{c.lineno}"))
    if n_pop == 0:
        raise AnalysisError(f"{PC}: no one-argument pop of forward_block_references found (expected in _parse_block)")


def check_typed_integer(idx: Index, rep: Report) -> None:
    """_parse_typed_integer is what makes an integer from the text safe to pack: the dense-array reader and the typed-integer
    readers hand its result to from_list / IntegerAttr, which raise ValueError for a value outside the type's range.  Every
    value it returns must therefore have passed `type.verify_value` (whose VerifyException is turned into a diagnostic)."""
    r = rep.rule("C07.R10", "every path of AttrParser._parse_typed_integer to a return passes the range check type.verify_value (inside the try that turns its VerifyException into a diagnostic)", floor=1)
    f = idx.func("xdsl/parser/attribute_parser.py", "AttrParser._parse_typed_integer")
    cfg = CFG(f.node)
    tname = f.node.args.args[1].arg
    checks = {cfg.node_of(c) for c in calls_in(f.node) if call_attr(c) == "verify_value" and isinstance(c.func, ast.Attribute) and unparse(c.func.value) == tname}
    if not checks:
        r.fail(f.fq, Finding("C07.R10", f.fq, "range-check-missing", "_parse_typed_integer no longer calls type.verify_value: out-of-range literals reach from_list / IntegerAttr and raise ValueError", f.loc))
        return
    leak = cfg.path_avoiding(cfg.entry, cfg.exit, lambda x: x.id in checks, follow_exc=False)
    if leak is None:
        r.ok(f.fq, f"{f.loc} every returned value passed {tname}.verify_value")
    else:
        r.fail(f.fq, Finding("C07.R10", f.fq, "range-check-bypassed", "a path returns a value that did not pass the range check (" + " -> ".join(cfg.describe(leak)[-3:]) + "): callers pack the result without a further check, so a value outside the type's range (`true` for `si1` / a zero-width type, ...) escapes as ValueError instead of a diagnostic", f.loc))


def check(idx: Index, rep: Report, tier: str) -> str:
    rep.run(check_redos, idx, rep, tier)
    rep.run(check_unicode_predicates, idx, rep)
    rep.run(check_sites, idx, rep)
    rep.run(check_name_hint_guards, idx, rep)
    rep.run(check_consume_token, idx, rep)
    rep.run(check_external_raisers, idx, rep)
    rep.run(check_optional_chars, idx, rep)
    rep.run(check_tuple_index, idx, rep)
    rep.run(check_raw_indexing, idx, rep)
    rep.run(check_find_sentinel, idx, rep)
    rep.run(check_quadratic, idx, rep)
    rep.run(check_block_table, idx, rep)
    rep.run(check_typed_integer, idx, rep)
    return (
        "Regular-language ambiguity analysis of every regex of the lexer/parser modules (ReDoS), Unicode-width check of "
        "the lexer's digit dispatch, and a guard / sibling-agreement classification of every raise, assert and partial "
        "builtin (int, float, to_bytes, decode, fromhex, zip strict, next, index) in xdsl/parser/*.py and the lexers, plus "
        "the calls into constructors known to raise non-diagnostic errors. Implicit KeyError/IndexError/TypeError from "
        "arbitrary subscripts and calls, and dialect-defined parse methods, are not decided."
    )
