"""C21 — x86 backend (narrow claim): SysV ABI tables, sub-register index tables, push/pop pairing,
arith->x86 op table, no silent truncation of immediates."""

from __future__ import annotations

import ast
import re

from ..astutil import call_attr, calls_in, unparse, walk_local
from ..cfg import CFG
from ..dataflow import resolved_text
from ..report import Finding, Report
from ..srcindex import AnalysisError, Index

REG = "xdsl/dialects/x86/registers.py"
FUNC = "xdsl/backend/x86/lowering/convert_func_to_x86_func.py"
ARITH = "xdsl/backend/x86/lowering/convert_arith_to_x86.py"
PE = "xdsl/backend/x86/prologue_epilogue_insertion.py"
OPS = "xdsl/dialects/x86/ops.py"

# System V AMD64 psABI, §3.2.3 (parameter passing) and §3.2.1 (registers preserved across calls)
SYSV_ARGS = ["rdi", "rsi", "rdx", "rcx", "r8", "r9"]
SYSV_RET = "rax"
SYSV_CALLEE_SAVED = {"rbx", "rbp", "r12", "r13", "r14", "r15"}
# x86-64 register encoding order and the names of the 32/16/8-bit views (Intel SDM vol. 1 §3.4.1)
R64 = ["rax", "rcx", "rdx", "rbx", "rsp", "rbp", "rsi", "rdi"] + [f"r{i}" for i in range(8, 16)]
R32 = ["eax", "ecx", "edx", "ebx", "esp", "ebp", "esi", "edi"] + [f"r{i}d" for i in range(8, 16)]
R16 = ["ax", "cx", "dx", "bx", "sp", "bp", "si", "di"] + [f"r{i}w" for i in range(8, 16)]
R8 = ["al", "cl", "dl", "bl", "spl", "bpl", "sil", "dil"] + [f"r{i}b" for i in range(8, 16)]


def _int_dict(idx: Index, mod: str, name: str) -> dict[str, int]:
    v = idx.module(mod).assigns.get(name)
    if not isinstance(v, ast.Dict):
        from ..srcindex import AnchorMissing

        raise AnchorMissing(f"{mod}: {name} not found")
    return {k.value: val.value for k, val in zip(v.keys, v.values)}  # type: ignore[union-attr]


POSITIVE_TRUNC = '''
class DI_Operation:
    def __init__(self, immediate, *, destination):
        if isinstance(immediate, int):
            immediate = IntegerAttr(immediate, si32, truncate_bits=True)
'''


def _truncating_immediates(tree: ast.AST) -> list[ast.Call]:
    out = []
    for fn in [n for n in ast.walk(tree) if isinstance(n, ast.FunctionDef)]:
        for c in [x for x in ast.walk(fn) if isinstance(x, ast.Call)]:
            if not (call_attr(c) in ("IntegerAttr", "from_int_and_width") and c.args and any(k.arg == "truncate_bits" and unparse(k.value) == "True" for k in c.keywords)):
                continue
            # (a) an instruction constructor wrapping its immediate parameter; (b) any function of a lowering wrapping
            # a value into an immediate-typed attribute (si32 / ui32 / i32 immediates of the x86 dialect)
            in_ctor = fn.name == "__init__" and re.search(r"imm|offset|immediate", unparse(c.args[0]))
            imm_typed = len(c.args) > 1 and re.search(r"\b(si|ui|i)(8|16|32)\b", unparse(c.args[1]))
            if in_ctor or (fn.name != "__init__" and imm_typed):
                out.append(c)
    return out


def check_stack_params(idx: Index, rep: Report) -> None:
    """The k-th stack-carried parameter (k = 0 for the 7th input) lives at [rsp + 8 * (k + 1)] on entry.  The loader
    consumes the block arguments in position order with a counter: counter and position stay in step only if every
    stack parameter goes through the loop and nothing else removes one."""
    r = rep.rule("C21.R6", "stack-carried parameters are loaded from 8 * (position + 1) above rsp: the loading loop runs once per stack parameter of the signature, in order, and no stack parameter is removed outside it", floor=2)
    from ..polyform import canon as pcanon

    f = idx.func(FUNC, "LowerFuncOp.match_and_rewrite")
    cfg = CFG(f.node)
    loads = [c for c in calls_in(f.node) if call_attr(c) == "DM_MovOp" and any(k.arg == "memory_offset" for k in c.keywords)]
    if len(loads) != 1:
        raise AnalysisError(f"{f.fq}: load of a stack-carried parameter (DM_MovOp with memory_offset) not found")
    ld = loads[0]
    lp = next((w for w in walk_local(f.node) if isinstance(w, ast.For) and any(x is ld for x in ast.walk(w))), None)
    if lp is None or not isinstance(lp.target, ast.Name):
        raise AnalysisError(f"{f.fq}: the stack parameter load is not in a counting loop")
    i = lp.target.id
    off = next(k.value for k in ld.keywords if k.arg == "memory_offset")
    at = cfg.node_of(ld)
    if pcanon(resolved_text(cfg, off, at)) == pcanon(f"STACK_SLOT_SIZE_BYTES * ({i} + 1)"):
        r.ok(f.fq + ":offset", f"{f.module.relpath}:{ld.lineno} offset = slot * ({i} + 1)")
    else:
        r.fail(f.fq + ":offset", Finding("C21.R6", f.fq, "stack-offset", f"the {i}-th stack parameter is loaded from `{unparse(off)}`; the System V layout puts it at STACK_SLOT_SIZE_BYTES * ({i} + 1) above rsp (return address first)", f"{f.module.relpath}:{ld.lineno}"))
    it = lp.iter
    n_txt = resolved_text(cfg, it.args[0], cfg.node_of(lp)) if isinstance(it, ast.Call) and unparse(it.func) == "range" and len(it.args) == 1 else None
    want = {pcanon("len(op.function_type.inputs.data) - MAX_REG_PASSING_INPUTS"), pcanon("len(op.function_type.inputs) - MAX_REG_PASSING_INPUTS"), pcanon("len(op.args) - MAX_REG_PASSING_INPUTS")}
    if n_txt is not None and pcanon(n_txt) in want:
        r.ok(f.fq + ":count", f"{f.module.relpath}:{lp.lineno} one iteration per stack parameter of the signature")
    else:
        r.fail(f.fq + ":count", Finding("C21.R6", f.fq, "stack-param-count", f"the loading loop runs `{unparse(it)}` times (resolved: {n_txt}); it must run once per stack-carried parameter of the signature (number of inputs - MAX_REG_PASSING_INPUTS), otherwise the counter that gives the stack slot no longer matches the parameter's position", f"{f.module.relpath}:{lp.lineno}"))
    # erasures of block arguments outside the two loading loops
    for c in calls_in(f.node):
        if call_attr(c) == "erase_arg":
            owner = next((w for w in walk_local(f.node) if isinstance(w, ast.For) and any(x is c for x in ast.walk(w))), None)
            in_loader = owner is lp or (owner is not None and any(call_attr(k) in ("DS_MovOp", "DM_MovOp") for k in calls_in(owner)))
            if not in_loader:
                r.fail(f.fq + ":erase", Finding("C21.R6", f.fq, "stack-param-removed", f"`{unparse(c)}` removes a block argument outside the loading loops: the stack parameters after it are loaded from the slot of an earlier parameter", f"{f.module.relpath}:{c.lineno}"))


def check(idx: Index, rep: Report, tier: str) -> str:
    r = rep.rule("C21.R1", "argument, return and callee-saved register tables are those of the System V AMD64 ABI", floor=3)
    by_name = _int_dict(idx, REG, "X86_INDEX_BY_NAME")
    inv = {v: k for k, v in by_name.items()}
    fmod = idx.module(FUNC)
    a = fmod.assigns.get("ARG_PASSING_REGISTER_INDICES")
    if not isinstance(a, ast.List):
        raise AnalysisError("ARG_PASSING_REGISTER_INDICES not found")
    names = [inv.get(e.value) for e in a.elts]  # type: ignore[union-attr]
    if names == SYSV_ARGS:
        r.ok("args", f"{FUNC}: integer arguments in {names}")
    else:
        r.fail("args", Finding("C21.R1", "xdsl.backend.x86.lowering.convert_func_to_x86_func.ARG_PASSING_REGISTER_INDICES", "arg-registers", f"argument registers resolve to {names}; the System V AMD64 ABI passes integer arguments in {SYSV_ARGS}", FUNC))
    rv = fmod.assigns.get("RETURN_PASSING_REGISTER")
    if isinstance(rv, ast.Constant) and inv.get(rv.value) == SYSV_RET:
        r.ok("ret", f"{FUNC}: result in rax")
    else:
        r.fail("ret", Finding("C21.R1", "xdsl.backend.x86.lowering.convert_func_to_x86_func.RETURN_PASSING_REGISTER", "return-register", f"the return register resolves to {inv.get(getattr(rv, 'value', None))}; the ABI returns integers in rax", FUNC))
    cs = idx.module(PE).assigns.get("X86_CALLEE_SAVED_REGISTERS")
    rmod = idx.module(REG)
    got = set()
    if isinstance(cs, (ast.List, ast.Tuple, ast.Set)):
        for e in cs.elts:
            d = rmod.assigns.get(unparse(e))
            m = re.fullmatch(r"Reg64Type\.from_name\('(\w+)'\)", unparse(d)) if d is not None else None
            got.add(m.group(1) if m else unparse(e))
    if got == SYSV_CALLEE_SAVED:
        r.ok("callee-saved", f"{PE}: {sorted(got)}")
    else:
        r.fail("callee-saved", Finding("C21.R1", "xdsl.backend.x86.prologue_epilogue_insertion.X86_CALLEE_SAVED_REGISTERS", "callee-saved", f"callee-saved set is {sorted(got)}; the ABI preserves {sorted(SYSV_CALLEE_SAVED)} (and rsp)", PE))

    r = rep.rule("C21.R2", "the four register-name tables give every 64/32/16/8-bit view of a register the same index (hardware encoding order)", floor=4)
    for tname, ref in (("X86_INDEX_BY_NAME", R64), ("REG32_INDEX_BY_NAME", R32), ("REG16_INDEX_BY_NAME", R16), ("REG8_INDEX_BY_NAME", R8)):
        d = _int_dict(idx, REG, tname)
        want = {n: i for i, n in enumerate(ref)}
        if d == want:
            r.ok(tname, f"{REG}: {len(d)} names in encoding order")
        else:
            diff = sorted(k for k in set(d) | set(want) if d.get(k) != want.get(k))
            r.fail(tname, Finding("C21.R2", f"xdsl.dialects.x86.registers.{tname}", f"index-table:{','.join(diff)[:40]}", f"{tname} disagrees with the register encoding for {diff}: a sub-register would alias a different physical register", REG))

    r = rep.rule("C21.R3", "callee-saved registers are popped in exactly the reverse order of the pushes (same collection), before every return", floor=2)
    f = idx.func(PE, "X86PrologueEpilogueInsertion._process_function")
    push_loops = [w for w in walk_local(f.node) if isinstance(w, ast.For) and any(call_attr(c) == "S_PushOp" for c in calls_in(w))]
    pop_loops = [w for w in walk_local(f.node) if isinstance(w, ast.For) and any(call_attr(c) == "D_PopOp" for c in calls_in(w))]
    span = lambda w: (w.end_lineno or w.lineno) - w.lineno
    push_loops = sorted(push_loops, key=span)[:1]
    pop_loops = sorted(pop_loops, key=span)[:1]
    if len(push_loops) != 1 or len(pop_loops) != 1:
        raise AnalysisError(f"{f.fq}: push / pop loops not found")
    cfg3 = CFG(f.node)

    def _coll(e: ast.AST, at: ast.AST) -> str:
        t_ = resolved_text(cfg3, e, cfg3.node_of(at))
        while True:
            m_ = re.fullmatch(r"(?:tuple|list)\((.*)\)", t_)
            if not m_:
                return t_
            t_ = m_.group(1)

    pushed = _coll(push_loops[0].iter, push_loops[0])
    popped = _coll(pop_loops[0].iter, pop_loops[0])
    if popped == f"reversed({pushed})" or (re.fullmatch(r"(.*)\[::-1\]", popped) and popped[:-6] == pushed):
        r.ok(f.fq + ":order", f"{f.loc} push over `{pushed}`, pop over reversed of the same collection")
    else:
        r.fail(f.fq + ":order", Finding("C21.R3", f.fq, "push-pop-order", f"registers are pushed in the order of `{pushed}` but popped in the order of `{popped}`: when the two orders differ, saved values are restored into the wrong registers", f.loc))
    t = unparse(f.node)
    pc = [c for c in calls_in(push_loops[0]) if call_attr(c) == "S_PushOp"][0]
    qc = [c for c in calls_in(pop_loops[0]) if call_attr(c) == "D_PopOp"][0]
    reg_p, reg_q = unparse(push_loops[0].target), unparse(pop_loops[0].target)
    same_reg = f"GetRegisterOp({reg_p})" in unparse(push_loops[0]) and f"destination={reg_q}" in unparse(qc)
    fparam = f.node.args.args[1].arg
    outer = [w for w in walk_local(f.node) if isinstance(w, ast.For) and unparse(w.iter) == f"{fparam}.body.blocks" and any(x is pop_loops[0] for x in ast.walk(w))]
    from ..astutil import text_facts as _tf21

    ret_names = [m_.group(1) for t_, p_ in _tf21(f.node, pop_loops[0]) if p_ and (m_ := re.fullmatch(r"isinstance\((\w+), x86_func\.RetOp\)", t_))]
    before_ret = bool(outer) and any(f"InsertPoint.before({rn})" in unparse(outer[-1]) for rn in ret_names)
    if same_reg and before_ret:
        r.ok(f.fq + ":returns", f"{f.loc} every RetOp is preceded by the pops of the pushed registers")
    else:
        r.fail(f.fq + ":returns", Finding("C21.R3", f.fq, "epilogue-missing", "not every return is preceded by an epilogue restoring the pushed registers", f.loc))
    if "if res.type in X86_CALLEE_SAVED_REGISTERS" in t:
        r.ok(f.fq + ":set", None)
    # which registers count as callee-saved in the scan: the checked table, or an index set equal to the ABI's
    t_ = unparse(f.node)
    if "in X86_CALLEE_SAVED_REGISTERS" not in t_:
        helper_calls = [c_ for c_ in calls_in(f.node, local=False) if isinstance(c_.func, ast.Name) and idx.try_func(PE, c_.func.id) is not None]
        sets_ = []
        for c_ in helper_calls:
            h = idx.try_func(PE, c_.func.id)
            for nm_ in {x.id for x in ast.walk(h.as_raw().node) if isinstance(x, ast.Name)}:
                v_ = idx.module(PE).assigns.get(nm_)
                if v_ is not None and isinstance(v_, ast.Call) and unparse(v_.func) in ("frozenset", "set", "tuple") and v_.args and isinstance(v_.args[0], (ast.Tuple, ast.List, ast.Set)):
                    vals_: set[int] | None = set()
                    for e_ in v_.args[0].elts:
                        if isinstance(e_, ast.Constant) and isinstance(e_.value, int):
                            vals_.add(e_.value)
                        elif isinstance(e_, ast.Starred) and isinstance(e_.value, ast.Call) and unparse(e_.value.func) == "range" and all(isinstance(a_, ast.Constant) for a_ in e_.value.args):
                            vals_ |= set(range(*[a_.value for a_ in e_.value.args]))
                        else:
                            vals_ = None
                            break
                    if vals_ is not None:
                        sets_.append((nm_, vals_, v_))
        if len(sets_) != 1:
            raise AnalysisError(f"{f.fq}: the test that decides which written registers are callee-saved was not understood")
        nm_, vals_, v_ = sets_[0]
        by_name_ = _int_dict(idx, REG, "X86_INDEX_BY_NAME")
        want_ = {by_name_[n_] for n_ in SYSV_CALLEE_SAVED if n_ in by_name_}
        if vals_ == want_:
            r.ok(f.fq + ":saved-set", f"{PE}: index set {sorted(vals_)} = callee-saved registers of the ABI")
        else:
            inv_ = {v: k for k, v in by_name_.items()}
            r.fail(f.fq + ":saved-set", Finding("C21.R3", f.fq, f"callee-saved-indices:{nm_}", f"`{nm_} = {unparse(v_)}` evaluates to {sorted(vals_)}; the callee-saved registers of the System V ABI have the indices {sorted(want_)}: {sorted(inv_.get(i_, str(i_)) for i_ in want_ - vals_)} missing, {sorted(inv_.get(i_, str(i_)) for i_ in vals_ - want_)} extra - a function that writes a missing one does not save it", PE))
    # which operations are scanned for written callee-saved registers: only pure register getters may be left out
    from ..setbuild import describe as _describe3

    scans, dsc3 = [], None
    cand_exprs = [push_loops[0].iter] + [ast.Name(id=nm_, ctx=ast.Load()) for nm_ in sorted({t_.id for st_ in walk_local(f.node) if isinstance(st_, (ast.Assign, ast.AnnAssign)) for t_ in (st_.targets if isinstance(st_, ast.Assign) else [st_.target]) if isinstance(t_, ast.Name)})]
    for ce_ in cand_exprs:
        d_ = _describe3(f.node, cfg3, ce_, cfg3.node_of(push_loops[0]))
        sc_ = [a_ for a_ in d_.adds if a_.iters and re.fullmatch(r"\w+\.walk\(\)", a_.iters[0][1])]
        if sc_ and not d_.unknown:
            scans, dsc3 = sc_, d_
            break
    if len(scans) != 1:
        raise AnalysisError(f"{f.fq}: scan of the function's operations for written registers not found")
    opv = scans[0].iters[0][0]
    GETTERS = {"GetRegisterOp", "GetAVXRegisterOp", "GetMaskRegisterOp"}
    op_facts = [(t_, p_) for t_, p_ in scans[0].facts if re.search(rf"\b{re.escape(opv)}\b", t_) and not re.search(rf"\b{re.escape(opv)}\.results\b", t_)]
    if not op_facts:
        r.ok(f.fq + ":scan", f"{f.loc} every operation is scanned")

    class _C:  # condition in the spelling the classification below expects
        def __init__(self, t_, p_):
            self.t = t_ if p_ else f"not {t_}"

    conds_ = [_C(t_, p_).t for t_, p_ in op_facts]
    for ct in conds_:
        m_ = re.fullmatch(rf"not isinstance\({opv}, \(?((?:[\w.]+(?:, | \| )?)+)\)?\)", ct)
        if m_ and {x.split(".")[-1] for x in re.split(r", | \| ", m_.group(1))} <= GETTERS:
            r.ok(f.fq + ":scan", f"{f.loc} every operation except the register getters is scanned")
            continue
        if ct in (f"{opv}.operands", f"len({opv}.operands) > 0", f"len({opv}.operands) != 0", f"bool({opv}.operands)"):
            # operations of the x86 dialect that define a register result without having an operand
            mi_ops = idx.module("xdsl/dialects/x86/ops.py")
            writers = []
            for c_ in mi_ops.classes.values():
                ops_, res_ = set(), set()
                for k_ in idx.mro(c_):
                    for n_, v_ in k_.class_assigns().items():
                        if isinstance(v_, ast.Call):
                            fn_ = unparse(v_.func).split(".")[-1]
                            if fn_ in ("operand_def", "var_operand_def", "opt_operand_def"):
                                ops_.add(n_)
                            if fn_ in ("result_def", "var_result_def", "opt_result_def"):
                                res_.add(n_)
                if "name" in c_.class_assigns() and res_ and not ops_ and c_.name not in GETTERS:
                    writers.append(c_.name)
            if writers:
                r.fail(f.fq + ":scan", Finding("C21.R3", f.fq, "writer-skipped", f"the scan for written callee-saved registers skips operations without operands (`{ct}`), but {writers} define a register result without having an operand (`mov r, imm`): a constant materialised in rbx / r12-r15 is not saved and the caller's value is lost", f.loc))
            else:
                r.ok(f.fq + ":scan", f"{f.loc} no operand-less x86 operation writes a register")
            continue
        raise AnalysisError(f"{f.fq}: filter `{ct}` on the scanned operations not understood")

    # ---- R7: x86 canonicalization of additions with zero forwards the OTHER operand
    from ..paths import enum_paths as _ep7

    r = rep.rule("C21.R7", "the x86 add-zero canonicalization replaces `r + s` by the operand that is not the known zero", floor=1)
    f7 = idx.func("xdsl/transforms/canonicalization_patterns/x86.py", "RS_Add_Zero.match_and_rewrite")
    n7 = 0
    for pth in _ep7(f7.node):
        if not pth.feasible():
            continue
        walrus = {n_.target.id: unparse(n_.value) for n_ in ast.walk(f7.node) if isinstance(n_, ast.NamedExpr) and isinstance(n_.target, ast.Name)}
        nf = {(re.sub(r"^(\w+)(?=\.)", lambda m__: walrus.get(m__.group(1), m__.group(1)), t_), p_) for t_, p_ in pth.nfacts()}
        zeros = {m_.group(1) for t_, p_ in nf if p_ and (m_ := re.fullmatch(r"get_constant_value\((op\.\w+)\)\.value\.data == 0", t_))}
        for k, e_ in enumerate(pth.effects):
            if isinstance(e_, ast.Expr) and isinstance(e_.value, ast.Call) and unparse(e_.value.func) == "rewriter.replace" and len(e_.value.args) == 3:
                n7 += 1
                repl = pth.res(e_.value.args[2], k)
                m_ = re.fullmatch(r"[\(\[](op\.\w+),?[\)\]]", repl)
                inst = f"{f7.fq}:{repl}"
                if not m_ or not zeros:
                    raise AnalysisError(f"{f7.fq}: replacement `{repl}` under {sorted(nf)[:3]} not understood")
                kept = m_.group(1)
                operands = {"op.source", "op.register_in"}
                if zeros - {kept} and kept in operands:
                    r.ok(inst, f"{f7.loc} zero operand {sorted(zeros - {kept})}, result forwarded from {kept}")
                else:
                    r.fail(inst, Finding("C21.R7", f7.fq, f"add-zero-forwards-zero:{kept}", f"`{unparse(e_.value)}` replaces r + s by `{kept}` on a path where the operand known to be zero is {sorted(zeros)}: when the zero is `{kept}` itself (arith.addi %x, %c0 lowers to rs.add(register_in = mov 0, source = x)) the sum x + 0 becomes 0", f"{f7.module.relpath}:{e_.lineno}"))
    if n7 == 0:
        raise AnalysisError(f"{f7.fq}: no replacement found")

    r = rep.rule("C21.R4", "each arith operation is lowered to the x86 operation with the same stem", floor=4)
    v = idx.module(ARITH).assigns.get("X86_OP_BY_ARITH_BINARY_OP")
    if not isinstance(v, ast.Dict):
        raise AnalysisError("X86_OP_BY_ARITH_BINARY_OP not found")
    want = {"AddiOp": "RS_AddOp", "AddfOp": "RS_FAddOp", "MuliOp": "RS_ImulOp", "MulfOp": "RS_FMulOp", "SubiOp": "RS_SubOp", "SubfOp": "RS_FSubOp", "AndIOp": "RS_AndOp", "OrIOp": "RS_OrOp", "XOrIOp": "RS_XorOp"}
    for k, val in zip(v.keys, v.values):
        a_, x_ = unparse(k).split(".")[-1], unparse(val).split(".")[-1]
        if want.get(a_) == x_:
            r.ok(a_, f"{ARITH}: {a_} -> {x_}")
        else:
            r.fail(a_, Finding("C21.R4", "xdsl.backend.x86.lowering.convert_arith_to_x86.X86_OP_BY_ARITH_BINARY_OP", f"op-table:{a_}", f"arith.{a_} is lowered to x86.{x_}; expected x86.{want.get(a_, '?')}", ARITH))

    r = rep.rule("C21.R5", "x86 instruction constructors never silently truncate an immediate (an out-of-range constant must be rejected, not wrapped)", floor=1)
    if len(_truncating_immediates(ast.parse(POSITIVE_TRUNC))) != 1:
        raise AnalysisError("immediate-truncation detector self-check failed")
    r.ok("positive-example", "detector matches the built-in positive example")
    mods = [OPS] + sorted(m.relpath for m in idx.modules.values() if m.relpath.startswith("xdsl/backend/x86/"))
    for rel in mods:
        mi = idx.module(rel)
        hits = _truncating_immediates(mi.tree)
        if hits:
            for c in hits:
                r.fail(f"{rel}:{c.lineno}", Finding("C21.R5", mi.name, f"immediate-truncated:{unparse(c)[:50]}", f"`{unparse(c)}` wraps the immediate modulo 2**32: a 64-bit constant such as 5000000000 (or 4294967295, which `mov r64, imm32` sign-extends to -1) compiles to a different value instead of being rejected", f"{rel}:{c.lineno}"))
        else:
            r.ok(rel, f"{rel}: no immediate is built with truncate_bits=True")

    rep.run(check_stack_params, idx, rep)
    return (
        "Reference-table agreement of the ABI tables (System V AMD64 psABI) and register encoding tables, pairing rule "
        "for prologue pushes / epilogue pops, stem agreement of the arith->x86 op table, immediate-truncation lint. Everything "
        "executed natively (results, stack-argument offsets, sub-register saves) is not decided."
    )
