"""C08 — attribute equality and hashing: override pairing and key agreement, immutable payload
types, bit-pattern keys for float payloads, memoised attribute-class factories."""

from __future__ import annotations

import ast
import re

from ..astutil import attr_chain, call_attr, calls_in, inline_chain_aliases, unparse, walk_local
from ..report import Finding, Report
from ..srcindex import AnalysisError, ClassInfo, Index, raw_funcs

ATTR = "xdsl.ir.core.Attribute"
MUTABLE_HEADS = {"list", "dict", "set", "bytearray", "List", "Dict", "Set", "MutableSequence", "MutableMapping", "MutableSet", "defaultdict", "deque"}
OK_HEADS = {"str", "bytes", "int", "bool", "float", "tuple", "frozenset", "immutabledict", "complex", "None"}
BITCAST = ("struct.pack", "convert_f64_to_u64", "convert_f32_to_u32", "float.hex", ".hex()", "to_bytes")


def _reads(fn: ast.AST, who: str) -> set[str]:
    out = set()
    for n in walk_local(fn):
        if isinstance(n, ast.Attribute):
            ch = attr_chain(n)
            if ch and ch.startswith(who + "."):
                out.add(ch[len(who) + 1 :])
    return {c for c in out if not any(o != c and o.startswith(c + ".") for o in out)}


def _key_kind(fn: ast.AST, field: str) -> str:
    """How a float payload enters eq / hash: 'bits' (bit-cast), 'value' (Python float semantics), plus 'nan-merge'."""
    t = unparse(inline_chain_aliases(fn))
    kinds = []
    if any(b in t for b in BITCAST):
        kinds.append("bits")
    if re.search(rf"self\.{field} == other\.{field}|other\.{field} == self\.{field}", t) or re.search(rf"hash\(self\.{field}\)", t) or re.search(rf"hash\(\(?self\.{field}", t):
        kinds.append("value")
    if "isnan" in t:
        kinds.append("nan-merge")
    return "+".join(kinds) or "?"


def check(idx: Index, rep: Report, tier: str) -> str:
    subs = [c for c in idx.all_classes() if idx.is_subclass(c, ATTR) and c.fq != ATTR]
    decorated = [c for c in subs if any(d.endswith("irdl_attr_definition") for d in c.decorator_names())]
    all_decorated = [c for c in idx.all_classes() if any(d.endswith("irdl_attr_definition") for d in c.decorator_names())]
    unresolved = [c for c in all_decorated if c not in subs]
    if unresolved:
        raise AnalysisError(f"{len(unresolved)} @irdl_attr_definition classes are not resolved as Attribute subclasses (e.g. {unresolved[0].fq}): hierarchy resolution incomplete")
    rep.extra["attribute_classes"] = len(subs)
    rep.extra["irdl_attr_definitions"] = len(decorated)

    # ---- R1: eq/hash overrides come in pairs built on one key
    r1 = rep.rule("C08.R1", "an Attribute subclass obtains eq/hash from the frozen dataclass, or overrides both from one key (hash reads ⊆ eq reads; eq has no disjunct that equates what the hash key separates)", floor=250)
    for c in subs:
        eq, hs = c.method("__eq__"), c.method("__hash__")
        if eq is None and hs is None:
            # no dataclass(eq=...) overrides that would drop value semantics
            bad_dc = [d for d in c.node.decorator_list if isinstance(d, ast.Call) and unparse(d.func).endswith("dataclass") and any(k.arg in ("eq", "frozen", "unsafe_hash") and unparse(k.value) == "False" and k.arg != "unsafe_hash" for k in d.keywords)]
            if bad_dc:
                r1.fail(c.fq, Finding("C08.R1", c.fq, "dataclass-eq-disabled", f"`{unparse(bad_dc[0])}` disables the generated value equality / immutability of an attribute class", c.loc))
            else:
                r1.ok(c.fq, None)
            continue
        if (eq is None) != (hs is None):
            r1.fail(c.fq, Finding("C08.R1", c.fq, "unpaired-override", f"{c.name} overrides {'__eq__' if eq else '__hash__'} without the other: equal attributes may hash differently (or the class becomes unhashable)", c.loc))
            continue
        er, hr = _reads(eq.node, "self"), _reads(hs.node, "self")  # type: ignore[union-attr]
        problems = []
        if not hr <= er:
            problems.append(("hash-not-subset", f"__hash__ reads {sorted(hr - er)} which __eq__ does not compare"))
        # key agreement for float payloads (and in general: same kind of key on both sides)
        fields = sorted(er | hr)
        for fld in fields:
            ek, hk = _key_kind(eq.node, fld), _key_kind(hs.node, fld)  # type: ignore[union-attr]
            if ek != hk or "nan-merge" in ek:
                problems.append((f"eq[{ek}]-hash[{hk}]:{fld}", f"__eq__ compares `{fld}` by {ek} while __hash__ keys it by {hk}: " + (
                    "all NaNs are declared equal but hash(nan) is identity-based (Python >= 3.10), so equal attributes have different hashes" if "nan-merge" in ek and hk == "value" else
                    "0.0 == -0.0 under float equality while their bit patterns (hash key) differ: equal attributes have different hashes" if "value" in ek and hk == "bits" else
                    "the two keys can disagree")))
        if problems:
            for k, m in problems:
                r1.fail(c.fq, Finding("C08.R1", c.fq, k, m, c.loc))
        else:
            r1.ok(c.fq, f"{c.loc} eq/hash override pair on one key {fields}")

    # ---- R1b: fields are declared on dataclass-processed classes only
    r1b = rep.rule("C08.R1b", "an Attribute subclass that declares parameter fields is itself processed by dataclass / irdl_attr_definition: the dataclass machinery collects fields only from bases that are dataclasses, so fields declared on an undecorated intermediate base are left out of the generated __eq__ / __hash__ of every derived attribute", floor=100)
    for c in subs:
        anns = [n for n in c.node.body if isinstance(n, ast.AnnAssign) and isinstance(n.target, ast.Name) and "ClassVar" not in unparse(n.annotation) and n.target.id != "name"]
        if not anns:
            continue
        decs = c.decorator_names()
        if any(d.endswith("irdl_attr_definition") or d.endswith("dataclass") for d in decs):
            r1b.ok(c.fq, None)
        else:
            derived = [d_.name for d_ in subs if d_ is not c and idx.is_subclass(d_, c.fq)]
            r1b.fail(c.fq, Finding("C08.R1b", c.fq, f"fields-outside-dataclass:{c.name}", f"{c.name} declares {[n.target.id for n in anns]} but is not a dataclass (no @dataclass / @irdl_attr_definition): the generated __eq__ / __hash__ of its subclasses {derived[:4]} do not include these fields, so attributes that differ only in them compare equal", c.loc))

    # ---- R2: Data[T] payload types are immutable / hashable
    r2 = rep.rule("C08.R2", "payload types of Data[...] attributes are immutable and hashable (no list / dict / set; classes are Enums or frozen dataclasses)", floor=20)
    for c in subs:
        for b in c.base_exprs:
            if isinstance(b, ast.Subscript) and unparse(b.value).split(".")[-1] in ("Data", "GenericData", "_BuiltinData"):
                t = b.slice
                inst = f"{c.fq}:Data[{unparse(t)}]"
                bad = None
                for n in ast.walk(t):
                    if isinstance(n, ast.Name):
                        if n.id in MUTABLE_HEADS:
                            bad = f"`{n.id}` is mutable/unhashable"
                        elif n.id not in OK_HEADS and n.id != "Attribute":
                            k = idx.resolve_class(c.module, n)
                            if k is not None:
                                mro_names = [x.name for x in idx.mro(k)]
                                is_enum = any(x in ("Enum", "StrEnum", "IntEnum", "Flag", "IntFlag") for x in mro_names) or any(unparse(be).split(".")[-1] in ("Enum", "StrEnum", "IntEnum", "Flag", "IntFlag") for kk in idx.mro(k) for be in kk.base_exprs)
                                frozen = any(isinstance(d, ast.Call) and unparse(d.func).endswith("dataclass") and any(kw.arg == "frozen" and unparse(kw.value) == "True" for kw in d.keywords) for d in k.node.decorator_list)
                                is_attr = idx.is_subclass(k, ATTR)
                                if not (is_enum or frozen or is_attr):
                                    bad = f"class `{k.fq}` is neither an Enum nor a frozen dataclass"
                            # unresolved names: TypeVars (module-level TypeVar assignments) are accepted
                            elif n.id in c.module.assigns and "TypeVar" in unparse(c.module.assigns[n.id]):
                                pass
                            elif n.id in c.module.imports or n.id in c.module.assigns:
                                pass
                if bad:
                    r2.fail(inst, Finding("C08.R2", c.fq, f"mutable-payload:{unparse(t)}", f"payload type `{unparse(t)}`: {bad}; attributes must be immutable values", c.loc))
                else:
                    r2.ok(inst, None)
    r2.samples[:] = ["StringAttr: Data[str]", "AffineMapAttr: Data[AffineMap] (frozen dataclass)", "DictionaryAttr: Data[immutabledict[str, Attribute]]"]

    # ---- R3: float payloads are compared and hashed by bit pattern
    r3 = rep.rule("C08.R3", "an attribute whose payload is a Python float compares and hashes it by bit pattern (0.0 != -0.0, NaN payloads distinguished, NaN equal to itself)", floor=1)
    n_float = 0
    for c in subs:
        for b in c.base_exprs:
            if isinstance(b, ast.Subscript) and unparse(b.value).split(".")[-1] in ("Data", "GenericData", "_BuiltinData") and unparse(b.slice) == "float":
                n_float += 1
                eq, hs = c.method("__eq__"), c.method("__hash__")
                if eq is None or hs is None:
                    r3.fail(c.fq, Finding("C08.R3", c.fq, "float-default-eq", "a float payload with the dataclass-generated equality: NaN != NaN makes the attribute unequal to itself, and 0.0 == -0.0 merges different payloads", c.loc))
                    continue
                ek, hk = _key_kind(eq.node, "data"), _key_kind(hs.node, "data")
                if ek == "bits" and hk == "bits":
                    r3.ok(c.fq, f"{c.loc} eq and hash on the bit pattern")
                else:
                    r3.fail(c.fq, Finding("C08.R3", c.fq, f"float-key:eq[{ek}]-hash[{hk}]", f"{c.name}.__eq__ uses {ek} and __hash__ uses {hk}: float equality merges 0.0 / -0.0 and (with the isnan clause) all NaN payloads, which are observably different attribute values", c.loc))
    if n_float == 0:
        raise AnalysisError("no Data[float] attribute found")

    # ---- R4: attribute-class factories are memoised at module level
    r4 = rep.rule("C08.R4", "a function that creates and returns an Attribute subclass is memoised at module level (same parameters -> same class, independently of any Context)", floor=1)
    n_fact = 0
    for mi in idx.modules.values():
        for f in raw_funcs(mi):
            inner = [n for n in f.node.body if isinstance(n, ast.ClassDef)]
            if not inner:
                continue
            returned = {unparse(r_.value) for r_ in walk_local(f.node) if isinstance(r_, ast.Return) and r_.value is not None}
            made = []
            for k in inner:
                if k.name in returned:
                    # does it derive from an attribute class?
                    for be in k.bases:
                        kc = idx.resolve_class(mi, be) or (f.cls if f.cls is not None and unparse(be) == f.cls.name else None)
                        if kc is not None and (idx.is_subclass(kc, ATTR) or kc.fq == ATTR):
                            made.append(k)
                            break
            if not made:
                continue
            n_fact += 1
            memo = any(re.search(r"(^|\.)(cache|lru_cache)$", unparse(d.func if isinstance(d, ast.Call) else d)) for d in f.node.decorator_list)
            if memo:
                r4.ok(f.fq, f"{f.loc} factory of {[k.name for k in made]} is cached")
            else:
                r4.fail(f.fq, Finding("C08.R4", f.fq, "unmemoised-class-factory", f"{f.qualname} builds a new subclass ({', '.join(k.name for k in made)}) on every call; callers cache it per Context, so the same text parsed in two contexts yields instances of two different classes, which never compare equal", f.loc))
    if n_fact == 0:
        raise AnalysisError("no attribute-class factory found (UnregisteredAttr.with_name_and_type expected)")

    # ---- R6: canonicalising constructors canonicalise on every path
    r6 = rep.rule("C08.R6", "an attribute constructor that canonicalises its payload (normalized_value) does so on every path to super().__init__, except under the branch that tests for the type it is not defined for: the same parameters always give the same stored payload", floor=1)
    from ..cfg import CFG
    from ..dataflow import reaching_defs

    n_canon = 0
    for c in subs:
        init = c.method("__init__")
        if init is None:
            continue
        norm_calls = [k for k in calls_in(init.node) if call_attr(k) == "normalized_value"]
        # rounding a float payload to the precision of its type is a canonicalisation too: T.unpack(T.pack(...))
        norm_calls += [k for k in calls_in(init.node) if call_attr(k) == "unpack" and k.args and isinstance(k.args[0], ast.Call) and call_attr(k.args[0]) == "pack" and isinstance(k.func, ast.Attribute) and isinstance(k.args[0].func, ast.Attribute) and unparse(k.func.value) == unparse(k.args[0].func.value)]
        if not norm_calls:
            continue
        n_canon += 1
        cfg = CFG(init.node)
        supers = [k for k in calls_in(init.node) if unparse(k.func) in ("super().__init__", "ParametrizedAttribute.__init__", "object.__setattr__")]
        if not supers:
            raise AnalysisError(f"{init.fq}: no super().__init__ call found in a canonicalising constructor")
        norm_nodes = {cfg.node_of(k) for k in norm_calls}
        # the test that excludes the canonicalisation (guard of the normalized_value call)
        from ..astutil import guard_facts

        enclosing_tests = [w.test for w in walk_local(init.node) if isinstance(w, ast.If) and any(x is norm_calls[0] for b in w.body + w.orelse for x in ast.walk(b))]
        recv_ = unparse(norm_calls[0].func.value) if isinstance(norm_calls[0].func, ast.Attribute) else ""
        # only a test on the *type* whose method canonicalises excludes a type; a test on the form of the payload does not
        excl = [(unparse(t), pol) for t, pol in guard_facts(init.node, norm_calls[0]) if re.match(rf"isinstance\({re.escape(recv_)}, ", unparse(t)) and any(x is t for e in enclosing_tests for x in ast.walk(e))]

        def edge_ok(n: int, m: int, lab) -> bool:
            a = cfg.nodes[n].ast
            if a is None or lab not in ("T", "F"):
                return True
            truth = lab == "T"
            while isinstance(a, ast.UnaryOp) and isinstance(a.op, ast.Not):
                a, truth = a.operand, not truth
            txt = unparse(a)
            for t, pol in excl:
                if txt == t:
                    # follow only the edge on which normalisation is expected (the other edge is the excluded type)
                    return truth == pol
            return True

        for sc in supers:
            ns = cfg.node_of(sc)
            path = cfg.path_avoiding(cfg.entry, ns, lambda n: n.id in norm_nodes, follow_exc=False, edge_ok=edge_ok)
            inst = f"{init.fq}:{sc.lineno - init.node.lineno}"
            if path is None:
                # the stored value must be the (possibly) normalised name
                r6.ok(init.fq, f"{init.loc} every path to `{unparse(sc)[:60]}` passes normalized_value (except the branch {excl})")
            else:
                r6.fail(init.fq, Finding("C08.R6", init.fq, "normalisation-bypass", f"a path reaches `{unparse(sc)[:70]}` without passing normalized_value: the same (value, type) given in another form is stored with a different payload, so attributes built from the same parameters compare unequal (e.g. IntegerAttr(IntAttr(255), i8) vs IntegerAttr(255, i8) == -1)", f"{init.module.relpath}:{sc.lineno}", path=cfg.describe(path)))
        # the normalised value is what is stored
        for nc in norm_calls:
            pm = {id(ch): p for p in ast.walk(init.node) for ch in ast.iter_child_nodes(p)}
            st = nc
            while not isinstance(st, ast.stmt):
                st = pm[id(st)]
            if not (isinstance(st, ast.Assign) and isinstance(st.targets[0], ast.Name)):
                raise AnalysisError(f"{init.fq}: result of normalized_value is not bound to a name")
            nv = st.targets[0].id
            stored = False
            for sc in supers:
                for nm in {n_.id for a_ in sc.args for n_ in ast.walk(a_) if isinstance(n_, ast.Name)}:
                    for nid, val in reaching_defs(cfg, nm, cfg.node_of(sc)):
                        if val is not None and (nv in {x.id for x in ast.walk(val) if isinstance(x, ast.Name)} or any(isinstance(x, ast.Call) and call_attr(x) == "normalized_value" for x in ast.walk(val))):
                            stored = True
            if stored:
                r6.ok(init.fq + ":stored", f"{init.loc} the normalised value `{nv}` flows into the stored payload")
            else:
                r6.fail(init.fq + ":stored", Finding("C08.R6", init.fq, "normalised-value-dropped", f"the result of normalized_value (`{nv}`) never reaches the arguments of super().__init__: the payload is stored unnormalised", init.loc))
    if n_canon == 0:
        raise AnalysisError("no canonicalising attribute constructor found (IntegerAttr.__init__ expected)")

    # ---- R7: a payload is never ordered by the iteration order of a set
    r7 = rep.rule("C08.R7", "the payload of a Data attribute is not a sequence obtained by iterating a set (tuple(set(x)), tuple(<set-typed local>)): its order depends on hashing and insertion history, so the same flags given in another order build unequal attributes", floor=1)

    def _set_ordered(fn: ast.AST) -> list[ast.Call]:
        """`tuple(E)` / `list(E)` where E is `set(...)`, a set literal/comprehension, or a local bound to one, in __init__ / parse_parameter"""
        set_locals: set[str] = set()
        for st in ast.walk(fn):
            tgt = val = None
            if isinstance(st, ast.Assign) and len(st.targets) == 1 and isinstance(st.targets[0], ast.Name):
                tgt, val = st.targets[0].id, st.value
            elif isinstance(st, ast.AnnAssign) and isinstance(st.target, ast.Name) and st.value is not None:
                tgt, val = st.target.id, st.value
                if re.match(r"set\[|AbstractSet\[|frozenset\[", unparse(st.annotation)):
                    set_locals.add(tgt)
            if tgt and val is not None and (isinstance(val, (ast.Set, ast.SetComp)) or (isinstance(val, ast.Call) and unparse(val.func) in ("set", "frozenset")) or (isinstance(val, ast.Call) and call_attr(val) == "try_parse")):
                set_locals.add(tgt)
        out = []
        for c in ast.walk(fn):
            if isinstance(c, ast.Call) and unparse(c.func) in ("tuple", "list") and len(c.args) == 1:
                a = c.args[0]
                if isinstance(a, (ast.Set, ast.SetComp)) or (isinstance(a, ast.Call) and unparse(a.func) in ("set", "frozenset")) or (isinstance(a, ast.Name) and a.id in set_locals):
                    out.append(c)
        return out

    POS = "class A(Data[tuple[int, ...]]):\n    def __init__(self, flags):\n        super().__init__(tuple(set(flags)))\n"
    if len(_set_ordered(ast.parse(POS))) != 1:
        raise AnalysisError("set-ordered payload detector self-check failed")
    r7.ok("positive-example", "detector matches the built-in positive example")
    for c in subs:
        if not idx.is_subclass(c, "xdsl.ir.core.Data"):
            continue
        for mname in ("__init__", "parse_parameter"):
            m = c.method(mname)
            if m is None:
                continue
            hits = _set_ordered(m.node)
            for h in hits:
                r7.fail(f"{c.fq}.{mname}", Finding("C08.R7", m.fq, f"set-ordered-payload:{unparse(h)[:40]}", f"`{unparse(h)}` fixes the order of the stored tuple by iterating a set: attributes built from the same flags in a different order (or parsed from differently ordered text) have different payloads and compare unequal", f"{m.module.relpath}:{h.lineno}"))
            if not hits:
                r7.ok(f"{c.fq}.{mname}", None)

    return (
        "Class-hierarchy sweep over every Attribute subclass of the repository (all @irdl_attr_definition classes must "
        "resolve): eq/hash override pairing and key agreement, payload type immutability of Data[T], bit-pattern keys for "
        "float payloads, module-level memoisation of attribute-class factories. Symmetry/transitivity of new dialect-specific "
        "overrides would be reported as unreviewed key mismatches; none exist besides FloatData."
    )
