"""C23 — LLVM backend: translation tables agree with the dialect's own mnemonics, predicate tables,
dispatcher coverage, phi bookkeeping."""

from __future__ import annotations

import ast
import re

from ..astutil import call_attr, call_name, calls_in, parent_map, unparse, walk_local
from ..cfg import CFG
from ..dataflow import resolved_text
from ..report import Finding, Report
from ..srcindex import AnalysisError, Index, raw_funcs

CO = "xdsl/backend/llvm/convert_op.py"
CV = "xdsl/backend/llvm/convert.py"
LL = "xdsl/dialects/llvm.py"
CMP = {"eq": "==", "ne": "!=", "lt": "<", "le": "<=", "gt": ">", "ge": ">="}


def _op_name(idx: Index, cname: str) -> str | None:
    c = idx.module(LL).classes.get(cname)
    if c is None:
        return None
    for k in idx.mro(c):
        v = k.class_assigns().get("name")
        if isinstance(v, ast.Constant) and isinstance(v.value, str):
            return v.value
    return None


def _dict(idx: Index, mod: str, name: str) -> ast.Dict:
    v = idx.module(mod).assigns.get(name)
    if not isinstance(v, ast.Dict):
        from ..srcindex import AnchorMissing

        raise AnchorMissing(f"{mod}: table {name} not found")
    return v


def check_structure(idx: Index, rep: Report) -> None:
    # ---- every block of the function is converted (blocks and phis are pre-created for all of them)
    r = rep.rule("C23.R5", "every block that was pre-created in the LLVM function gets its operations converted (an empty LLVM block has no terminator and the module is rejected)", floor=1)
    f = _convert_func_info(idx)
    cfg = CFG(f.node)
    conv = [c for c in calls_in(f.node) if call_name(c) == "convert_op"]
    if not conv:
        raise AnalysisError(f"{f.fq}: convert_op call not found")
    from ..astutil import parent_map

    pm = parent_map(f.node)
    for c in conv:
        loops = []
        n_ = c
        while id(n_) in pm:
            n_ = pm[id(n_)]
            if isinstance(n_, (ast.For, ast.While)):
                loops.append(n_)
        inst = f"{f.fq}:{c.lineno - f.node.lineno}"
        outer = loops[-1] if loops else None
        src = resolved_text(cfg, outer.iter, cfg.node_of(outer)) if isinstance(outer, ast.For) else None
        if src is not None and re.fullmatch(r"\w+\.body\.blocks|\w+\.regions\[0\]\.blocks|block_map(\.keys\(\))?|list\(\w+\.body\.blocks\)", src):
            r.ok(inst, f"{f.module.relpath}:{c.lineno} operations converted for every block of `{src}`")
        else:
            r.fail(inst, Finding("C23.R5", f.fq, "block-not-converted", f"`{unparse(c)[:50]}` runs inside `{unparse(outer).splitlines()[0] if outer is not None else 'no loop'}`, which does not visit every block of the function body (blocks and phis are created for all of them): a block that is not visited - e.g. one unreachable from the entry - stays empty, and LLVM rejects a block without terminator", f"{f.module.relpath}:{c.lineno}"))

    # ---- nested array types
    r = rep.rule("C23.R6", "!llvm.array<N x T> becomes [N x convert(T)]: the outermost array keeps the outermost size", floor=1)
    g = idx.func("xdsl/backend/llvm/convert_type.py", "_convert_array_type")
    prm = g.node.args.args[0].arg
    gcfg = CFG(g.node)
    rets = [x for x in walk_local(g.node) if isinstance(x, ast.Return) and x.value is not None]
    if not rets:
        raise AnalysisError(f"{g.fq}: no return")
    for rt in rets:
        txt = resolved_text(gcfg, rt.value, gcfg.node_of(rt))
        inst = f"{g.fq}:{rt.lineno - g.node.lineno}"
        m_ = re.fullmatch(rf"ir\.ArrayType\(convert_type\({prm}\.type\), {prm}\.size\.data\)", txt)
        if m_:
            r.ok(inst, f"{g.loc} `{txt}`")
            continue
        # iterative peeling: sizes collected from the outside in must be applied from the inside out
        loops_ = [w for w in walk_local(g.node) if isinstance(w, ast.For) and any(isinstance(c_, ast.Call) and unparse(c_.func) == "ir.ArrayType" for c_ in ast.walk(w))]
        coll = [w for w in walk_local(g.node) if isinstance(w, ast.While) and any(call_attr(c_) == "append" and ".size.data" in unparse(c_) for c_ in calls_in(w))]
        if len(loops_) == 1 and len(coll) == 1:
            it = unparse(loops_[0].iter)
            if it.startswith("reversed("):
                r.ok(inst, f"{g.loc} sizes collected outermost-first and applied in reverse")
            else:
                r.fail(inst, Finding("C23.R6", g.fq, "array-dims-reversed", f"the sizes are collected while walking from the outermost array inwards and applied in the same order (`for {unparse(loops_[0].target)} in {it}`): the last one applied - the INNERMOST size - becomes the outermost dimension, so array<2 x array<3 x T>> becomes [3 x [2 x T]] and every nested-array address is computed with the wrong layout", f"{g.module.relpath}:{loops_[0].lineno}"))
        else:
            raise AnalysisError(f"{g.fq}: returned type `{txt[:70]}` is not ir.ArrayType(convert_type({prm}.type), {prm}.size.data)")

    # ---- no memoisation keyed on attribute equality
    r = rep.rule("C23.R7", "no function of the LLVM conversion path is memoised on xDSL attributes (FloatAttr(0.0) == FloatAttr(-0.0), equal integer attributes of different signedness spelling: the first converted constant would be returned for the other)", floor=1)
    n_fn = 0
    for rel in (CO, CV, "xdsl/backend/llvm/convert_type.py"):
        for fi in raw_funcs(idx.module(rel)):
            n_fn += 1
            decs = [unparse(d_) for d_ in fi.node.decorator_list]
            memo = [d_ for d_ in decs if re.search(r"\b(cache|lru_cache|cached)\b", d_)]
            takes_attr = any(a_.annotation is not None and re.search(r"Attribute|Attr\b|FloatAttr|IntegerAttr|DenseIntOrFPElementsAttr", unparse(a_.annotation)) for a_ in fi.node.args.args)
            if memo and takes_attr and "const" in fi.name.lower():
                r.fail(fi.fq, Finding("C23.R7", fi.fq, "memoised-on-attribute", f"`@{memo[0]}` memoises {fi.name} on its attribute arguments: attribute equality merges +0.0 and -0.0 (FloatData compares with ==), so after `+0.0` was converted a later `-0.0` of the same type silently becomes `+0.0` (1/x flips from -inf to +inf)", fi.loc))
            elif memo and takes_attr:
                r.fail(fi.fq, Finding("C23.R7", fi.fq, "memoised-on-attribute", f"`@{memo[0]}` memoises {fi.name} on attribute equality, which is coarser than the LLVM values / types the attributes denote", fi.loc))
    r.ok("sweep", f"{n_fn} functions of the LLVM conversion modules scanned for memoisation decorators")





def _cmp_paths(f):
    """For every path of a comparison converter: (builder method called for the result, resolved argument texts, resolved
    positive / negative facts of the path).  The result store is `<val_map>[<op>.results[0]] = <call>`."""
    from ..paths import enum_paths

    opn, bn, vm = (a.arg for a in f.node.args.args[:3])
    out = []
    for pth in enum_paths(f.node):
        if not pth.feasible():
            continue
        for k, e_ in enumerate(pth.effects):
            if isinstance(e_, ast.Assign) and len(e_.targets) == 1 and unparse(e_.targets[0]) == f"{vm}[{opn}.results[0]]" and isinstance(e_.value, ast.Call):
                ft = pth.res(e_.value.func, k)
                args = [pth.res(a_, k) for a_ in e_.value.args]
                facts = set(pth.nfacts())
                variants = [(ft, facts)]
                try:
                    fe = ast.parse(ft, mode="eval").body
                except SyntaxError:
                    fe = None
                if isinstance(fe, ast.IfExp):
                    ct = unparse(fe.test)
                    variants = [(unparse(fe.body), facts | {(ct, True)}), (unparse(fe.orelse), facts | {(ct, False)})]
                for ft_, fs_ in variants:
                    out.append((ft_, args, fs_))
    return opn, bn, vm, out



def _convert_func_info(idx: Index):
    """_convert_func with its block table renamed to `block_map` (the local that receives the append_basic_block results,
    directly or through a local), so that the rules do not depend on what that local is called."""
    from ..astutil import rename_locals
    from ..srcindex import FuncInfo

    f = idx.func(CV, "_convert_func")
    cand = set()
    fcfg_ = CFG(f.node)
    for st in walk_local(f.node):
        if isinstance(st, ast.Assign) and isinstance(st.targets[0], ast.Subscript) and isinstance(st.targets[0].value, ast.Name) and "append_basic_block" in resolved_text(fcfg_, st.value, fcfg_.node_of(st)):
            cand.add(st.targets[0].value.id)
        if isinstance(st, (ast.Assign, ast.AnnAssign)) and isinstance(st.value, ast.DictComp) and "append_basic_block" in unparse(st.value.value):
            tg = st.targets[0] if isinstance(st, ast.Assign) else st.target
            if isinstance(tg, ast.Name):
                cand.add(tg.id)
    if len(cand) == 1 and "block_map" not in cand:
        taken = {n.id for n in ast.walk(f.node) if isinstance(n, ast.Name)}
        if "block_map" not in taken:
            return FuncInfo(f.module, f.qualname, f.raw_node, f.cls, rename_locals(f.node, {next(iter(cand)): "block_map"}))
    return f



FLOAT_LLVM = {"Float16Type": "HalfType", "Float32Type": "FloatType", "Float64Type": "DoubleType", "BFloat16Type": "BFloatType"}


def check_float_types(idx: Index, rep: Report) -> None:
    """Float types are translated by *kind*, never by bit width: f16 and bf16 are both 16 bits wide and are different LLVM
    types (half / bfloat)."""
    r = rep.rule("C23.R8", "xDSL float types are mapped to LLVM float types by their class (f16 -> half, f32 -> float, f64 -> double, bf16 -> bfloat or refused); no LLVM float type is selected by bit width", floor=3)
    CT = "xdsl/backend/llvm/convert_type.py"
    mi = idx.module(CT)
    llvm_float = set(FLOAT_LLVM.values()) | {"X86_FP80Type", "FP128Type"}
    # (a) every literal table entry keyed by a float type class maps to the LLVM type of that kind
    n = 0
    for nm, d in mi.assigns.items():
        if not isinstance(d, ast.Dict):
            continue
        for k, v in zip(d.keys, d.values):
            kt = unparse(k).split(".")[-1] if k is not None else ""
            if kt in FLOAT_LLVM:
                n += 1
                made = ({call_attr(c) for c in ast.walk(v) if isinstance(c, ast.Call)} | {x.attr for x in ast.walk(v) if isinstance(x, ast.Attribute)} | {x.id for x in ast.walk(v) if isinstance(x, ast.Name)}) & llvm_float
                inst = f"{nm}[{kt}]"
                if made == {FLOAT_LLVM[kt]}:
                    r.ok(inst, f"{CT}:{k.lineno} {kt} -> ir.{FLOAT_LLVM[kt]}")
                else:
                    r.fail(inst, Finding("C23.R8", f"xdsl.backend.llvm.convert_type.{nm}", f"float-type:{kt}", f"{kt} is translated to {sorted(made) or unparse(v)[:40]}; the LLVM type of that kind is ir.{FLOAT_LLVM[kt]}", f"{CT}:{k.lineno}"))
    # (b) a table of LLVM float types indexed by a width
    for f in mi.functions.values():
        for sub in [x for x in ast.walk(f.raw_node) if isinstance(x, ast.Subscript) and isinstance(x.value, ast.Name) and isinstance(mi.assigns.get(x.value.id), ast.Dict)]:
            d = mi.assigns[sub.value.id]
            vals = {unparse(v).split(".")[-1].split("(")[0] for v in d.values}
            if vals & llvm_float and re.search(r"bitwidth|\.width|size", unparse(sub.slice)):
                n += 1
                r.fail(f"{f.fq}:{sub.value.id}", Finding("C23.R8", f.fq, "float-by-width", f"`{unparse(sub)}` selects the LLVM float type by bit width: bf16 is 16 bits wide like f16 and would be translated as `half`, i.e. its bit pattern is reinterpreted in another format", f"{CT}:{sub.lineno}"))
    if n < 3:
        raise AnalysisError(f"{CT}: float type entries of the converter table not found ({n})")


def check_constant_payload(idx: Index, rep: Report) -> None:
    """create_constant turns the attribute's payload into the LLVM constant.  Whatever it returns must be built from that
    payload on every path: a shortcut that spells some values another way (`None` = zeroinitializer when the value `== 0`)
    changes the constant whenever Python's comparison merges two payloads -- 0.0 == -0.0, True == 1."""
    r = rep.rule("C23.R9", "every constant returned by create_constant is built from the payload the attribute handler returned, on every path", floor=1)
    f = idx.func(CO, "create_constant")
    cfg = CFG(f.node)
    rets = [n for n in walk_local(f.node) if isinstance(n, ast.Return) and n.value is not None]
    if not rets:
        raise AnalysisError(f"{f.fq}: no return")
    for rt in rets:
        inst = f"{f.fq}:return@{rt.lineno - f.node.lineno}"
        txt = resolved_text(cfg, rt.value, cfg.node_of(rt))
        try:
            e = ast.parse(txt, mode="eval").body
        except SyntaxError:
            raise AnalysisError(f"{f.fq}: returned expression not understood")
        if not (isinstance(e, ast.Call) and unparse(e.func).endswith("Constant") and len(e.args) == 2):
            raise AnalysisError(f"{f.fq}: `{unparse(rt)[:60]}` is not an ir.Constant(type, payload) construction")
        payload = unparse(e.args[1])
        if re.search(r"\(value\)", payload) and ("_CONSTANT_VALUE_MAP" in payload or "handler" in payload):
            r.ok(inst, f"{CO}:{rt.lineno} payload `{payload[:50]}`")
        else:
            from ..astutil import text_facts as _tf9

            facts = [t for t, _p in _tf9(f.node, rt)]
            r.fail(inst, Finding("C23.R9", f.fq, "constant-not-from-payload", f"`{unparse(rt)[:70]}` builds the constant from `{payload[:40]}` instead of the attribute's payload (under {facts[-1:] or 'no test'}): when the deciding test compares Python values, payloads that compare equal but are different constants (-0.0 and 0.0) are emitted as the same constant", f"{CO}:{rt.lineno}"))


def check(idx: Index, rep: Report, tier: str) -> str:
    r = rep.rule("C23.R1", "every entry of the translation tables agrees with the mnemonic of the dialect operation it is keyed by", floor=45)
    n = 0
    # binary ops: builder method == mnemonic (modulo trailing underscore)
    d = _dict(idx, CO, "_BINARY_OP_MAP")
    for k, v in zip(d.keys, d.values):
        cname = unparse(k).split(".")[-1]
        mn = (_op_name(idx, cname) or "").removeprefix("llvm.")
        # the builder method, however it is named: `lambda b: b.add`, `ir.IRBuilder.add`, `"add"` (looked up with getattr)
        m = re.fullmatch(r"lambda (\w+): \1\.(\w+)|(?:\w+\.)*IRBuilder\.(\w+)|'(\w+)'|attrgetter\('(\w+)'\)", unparse(v))
        meth = next((g for g in (m.groups()[1:] if m else ()) if g), None)
        inst = f"_BINARY_OP_MAP[{cname}]"
        n += 1
        if meth is None:
            raise AnalysisError(f"{CO}: how `_BINARY_OP_MAP[{cname}]` = `{unparse(v)[:50]}` names the builder method was not recognised")
        if meth.rstrip("_") == mn and mn:
            r.ok(inst, f"llvm.{mn} -> builder.{meth}")
        else:
            r.fail(inst, Finding("C23.R1", "xdsl.backend.llvm.convert_op._BINARY_OP_MAP", f"binary:{cname}", f"llvm.{cname} (`llvm.{mn}`) is translated with `{unparse(v)}`; the builder method must be `{mn}`", f"{CO}:{k.lineno}"))
    d = _dict(idx, CO, "_CAST_OP_NAMES")
    for k, v in zip(d.keys, d.values):
        cname = unparse(k).split(".")[-1]
        mn = (_op_name(idx, cname) or "").removeprefix("llvm.")
        inst = f"_CAST_OP_NAMES[{cname}]"
        n += 1
        if isinstance(v, ast.Constant) and v.value == mn and mn:
            r.ok(inst, f"llvm.{mn}")
        else:
            r.fail(inst, Finding("C23.R1", "xdsl.backend.llvm.convert_op._CAST_OP_NAMES", f"cast:{cname}", f"llvm.{cname} (`llvm.{mn}`) is emitted as the cast instruction `{unparse(v)}`", f"{CO}:{k.lineno}"))
    for tname in ("_UNARY_INTRINSIC_MAP", "_BINARY_INTRINSIC_MAP", "_VECTOR_REDUCE_INTRINSIC_MAP"):
        d = _dict(idx, CO, tname)
        for k, v in zip(d.keys, d.values):
            cname = unparse(k).split(".")[-1]
            nm = _op_name(idx, cname) or ""
            want = "llvm." + nm.removeprefix("llvm.intr.")
            inst = f"{tname}[{cname}]"
            n += 1
            if isinstance(v, ast.Constant) and nm.startswith("llvm.intr.") and v.value == want:
                r.ok(inst, f"{nm} -> {want}")
            else:
                r.fail(inst, Finding("C23.R1", f"xdsl.backend.llvm.convert_op.{tname}", f"intrinsic:{cname}", f"llvm.{cname} (`{nm}`) is translated to the intrinsic `{unparse(v)}`; expected `{want}`", f"{CO}:{k.lineno}"))
    for tname in ("_ARG_ATTR_FLAGS", "_ARG_ATTR_INTS", "_ARG_ATTR_TYPES"):
        d = _dict(idx, CV, tname)
        for k, v in zip(d.keys, d.values):
            inst = f"{tname}[{unparse(k)}]"
            n += 1
            if isinstance(k, ast.Constant) and isinstance(v, ast.Constant) and k.value == "llvm." + v.value:
                r.ok(inst, None)
            else:
                r.fail(inst, Finding("C23.R1", f"xdsl.backend.llvm.convert.{tname}", f"arg-attr:{unparse(k)}", f"argument attribute {unparse(k)} is emitted as {unparse(v)}", f"{CV}:{k.lineno}"))
    rep.extra["table_entries"] = n

    r = rep.rule("C23.R2", "predicate tables: icmp s*/u* select signed / unsigned comparison with the comparator of the suffix; fcmp o*/u* select ordered / unordered with the comparator of the suffix", floor=12)
    d = _dict(idx, CO, "_ICMP_PRED_MAP")
    for k, v in zip(d.keys, d.values):
        key = k.value  # type: ignore[union-attr]
        inst = f"icmp:{key}"
        ok = isinstance(v, ast.Tuple) and len(v.elts) == 2 and isinstance(v.elts[0], ast.Constant) and isinstance(v.elts[1], ast.Constant)
        if ok:
            cmpop, signed = v.elts[0].value, v.elts[1].value  # type: ignore[union-attr]
            want_op = CMP[key[-2:]]
            ok = cmpop == want_op and (key in ("eq", "ne") or signed == (key[0] == "s"))
        if ok:
            r.ok(inst, f"{key} -> {unparse(v)}")
        else:
            r.fail(inst, Finding("C23.R2", "xdsl.backend.llvm.convert_op._ICMP_PRED_MAP", f"icmp:{key}", f"icmp predicate `{key}` is translated as {unparse(v)}; expected comparator `{CMP[key[-2:]]}` with signed={key[0] == 's'}", f"{CO}:{k.lineno}"))
    f = idx.func(CO, "_convert_icmp")
    opn, bn, vm, cps = _cmp_paths(f)
    if not cps:
        raise AnalysisError(f"{f.fq}: store of the comparison result not found")
    bad_i, unk_i = [], []
    for ft, args, fs in cps:
        signed = next((p_ for t_, p_ in fs if re.fullmatch(r"_ICMP_PRED_MAP\[.+\]\[1\]", t_)), None)
        if ft not in (f"{bn}.icmp_signed", f"{bn}.icmp_unsigned") or signed is None:
            unk_i.append(f"call of `{ft}` under {sorted(fs)[:3]}")
        elif (ft == f"{bn}.icmp_signed") != signed:
            bad_i.append(f"`{ft}` is used when the table's signedness flag is {signed}")
        elif len(args) != 3 or args[1:] != [f"{vm}[{opn}.lhs]", f"{vm}[{opn}.rhs]"] or not re.fullmatch(r"_ICMP_PRED_MAP\[.+\]\[0\]", args[0]):
            bad_i.append(f"`{ft}({', '.join(args)})` does not pass the table's comparator and (lhs, rhs) in order")
    if bad_i:
        r.fail(f.fq, Finding("C23.R2", f.fq, "icmp-dispatch", "icmp conversion no longer selects the signed / unsigned builder from the table and passes (lhs, rhs) in order: " + bad_i[0], f.loc))
    elif unk_i:
        raise AnalysisError(f"{f.fq}: icmp dispatch not understood: {unk_i[0]}")
    else:
        r.ok(f.fq, f"{f.loc} signedness flag selects icmp_signed / icmp_unsigned; operands in order")
    g = idx.func(CO, "_convert_fcmp")
    gt = unparse(g.node)
    mod_assigns = idx.module(CO).assigns
    fcmp_tables = sorted({x.id for x in ast.walk(g.node) if isinstance(x, ast.Name) and isinstance(mod_assigns.get(x.id), ast.Dict)})
    if len(fcmp_tables) != 1:
        raise AnalysisError(f"{g.fq}: expected exactly one module-level predicate table, found {fcmp_tables}")
    d = _dict(idx, CO, fcmp_tables[0])
    tuple_table = all(isinstance(v, ast.Tuple) for v in d.values)
    for k, v in zip(d.keys, d.values):
        key = k.value  # type: ignore[union-attr]
        inst = f"fcmp:{key}"
        if tuple_table:
            cmpop, ordered = v.elts[0].value, v.elts[1].value  # type: ignore[union-attr]
            suffix = key[1:]
            if key in ("ord", "uno"):
                ok = cmpop == key and ordered == (key == "ord")
                want = f"({key!r}, {key == 'ord'})"
            else:
                ok = suffix in CMP and cmpop == CMP[suffix] and ordered == (key[0] == "o")
                want = f"({CMP.get(suffix)!r}, {key[0] == 'o'})"
        else:
            ok = isinstance(v, ast.Constant) and key in CMP and v.value == CMP[key]
            want = repr(CMP.get(key))
        if ok:
            r.ok(inst, f"{key} -> {unparse(v)}")
        else:
            r.fail(inst, Finding("C23.R2", f"xdsl.backend.llvm.convert_op.{fcmp_tables[0]}", f"fcmp:{key}", f"fcmp predicate `{key}` is translated as {unparse(v)}; expected {want}: the compiled comparison differs from the source predicate on NaN (ordered vs unordered) or on the relation", f"{CO}:{k.lineno}"))
    if not tuple_table:
        opn, bn, vm, cps = _cmp_paths(g)
        if not cps:
            raise AnalysisError(f"{g.fq}: store of the comparison result not found")
        bad_f, unk_f = [], []
        for ft, args, fs in cps:
            ordered = next((p_ for t_, p_ in fs if re.fullmatch(r".+\.value\[0\] == 'o'", t_)), None)
            if ordered is None:
                ordered = next((not p_ for t_, p_ in fs if re.fullmatch(r".+\.value\[0\] (== 'u'|!= 'o')", t_)), None)
            if ft not in (f"{bn}.fcmp_ordered", f"{bn}.fcmp_unordered") or ordered is None:
                unk_f.append(f"call of `{ft}` under {sorted(fs)[:3]}")
            elif (ft == f"{bn}.fcmp_ordered") != ordered:
                bad_f.append(f"`{ft}` is used when the mnemonic {'starts' if ordered else 'does not start'} with 'o'")
            elif len(args) != 3 or args[1:] != [f"{vm}[{opn}.lhs]", f"{vm}[{opn}.rhs]"]:
                bad_f.append(f"`{ft}({', '.join(args)})` does not pass (lhs, rhs) in order")
            elif not re.fullmatch(rf"{re.escape(fcmp_tables[0])}\.get\((.+)\.value\[1:\], \1\.value\)", args[0]):
                unk_f.append(f"comparator argument `{args[0]}`")
        if bad_f:
            r.fail(g.fq, Finding("C23.R2", g.fq, "fcmp-dispatch", "fcmp conversion no longer derives orderedness from the first letter and the comparator from the suffix: " + bad_f[0], g.loc))
        elif unk_f:
            raise AnalysisError(f"{g.fq}: fcmp dispatch not understood: {unk_f[0]}")
        else:
            r.ok(g.fq, f"{g.loc} ordered iff the mnemonic starts with 'o'; comparator from the suffix; operands in order")
    else:
        if "fcmp_ordered" in gt and "fcmp_unordered" in gt and "val_map[op.lhs], val_map[op.rhs]" in gt:
            r.ok(g.fq, f"{g.loc} table-driven ordered / unordered selection")
        else:
            r.fail(g.fq, Finding("C23.R2", g.fq, "fcmp-dispatch", "fcmp conversion does not select ordered / unordered from the table", g.loc))

    r = rep.rule("C23.R3", "every translation table is consulted by the dispatcher, and branch converters add a phi incoming for every successor argument before branching", floor=6)
    conv = idx.func(CO, "convert_op")
    ct = unparse(conv.node)
    for tname, fn in (("_BINARY_OP_MAP", "_convert_binop"), ("_CAST_OP_NAMES", "_convert_cast"), ("_UNARY_INTRINSIC_MAP", "_convert_unary_intrinsic"), ("_BINARY_INTRINSIC_MAP", "_convert_binary_intrinsic"), ("_VECTOR_REDUCE_INTRINSIC_MAP", "_convert_vector_reduce")):
        if re.search(rf"case op if type\(op\) in {tname}:\s+{fn}\(", ct):
            r.ok(f"dispatch:{tname}", f"{conv.loc} {tname} -> {fn}")
        else:
            r.fail(f"dispatch:{tname}", Finding("C23.R3", conv.fq, f"dispatch:{tname}", f"operations keyed in {tname} are not dispatched to {fn}", conv.loc))
    for q, pairs in (("_convert_br", [("op.successor.args", "op.arguments")]), ("_convert_condbr", [("op.then_block.args", "op.then_arguments"), ("op.else_block.args", "op.else_arguments")])):
        f = idx.func(CO, q)
        cfg = CFG(f.node)
        opn = f.node.args.args[0].arg
        br = [c for c in calls_in(f.node) if unparse(c.func) in ("builder.branch", "builder.cbranch")]
        if len(br) != 1:
            raise AnalysisError(f"{f.fq}: expected exactly one branch instruction")
        nbr = cfg.node_of(br[0])
        found = set()
        problems = []
        for w in [x for x in walk_local(f.node) if isinstance(x, ast.For)]:
            it = w.iter
            if not (isinstance(it, ast.Call) and call_attr(it) == "zip" and len(it.args) >= 2 and isinstance(w.target, ast.Tuple) and len(w.target.elts) == 2):
                continue
            at = tuple(resolved_text(cfg, a_, cfg.node_of(w)).replace(opn + ".", "op.") for a_ in it.args[:2])
            if at not in pairs:
                continue
            av, vv = unparse(w.target.elts[0]), unparse(w.target.elts[1])
            adds = [c for c in calls_in(w) if call_attr(c) == "add_incoming" and len(c.args) == 2]
            good = False
            for c in adds:
                phi_t = resolved_text(cfg, c.func.value, cfg.node_of(c))  # type: ignore[attr-defined]
                blk_t = resolved_text(cfg, c.args[1], cfg.node_of(c)).replace(opn + ".", "op.")
                if phi_t == f"val_map[{av}]" and unparse(c.args[0]) == f"val_map[{vv}]" and blk_t == "block_map[op.parent_block()]":
                    good = True
            if good and cfg.path_avoiding(cfg.entry, nbr, lambda n, h=cfg.node_of(w): n.id == h, follow_exc=False) is None:
                found.add(at)
        missing = [p_ for p_ in pairs if p_ not in found]
        if not missing:
            r.ok(f.fq, f"{f.loc} incoming (value, current block) for every successor argument, then the branch")
        else:
            r.fail(f.fq, Finding("C23.R3", f.fq, "phi-incoming", f"no loop `for arg, val in zip({missing[0][0]}, {missing[0][1]})` adding `val_map[val]` with the current block to `val_map[arg]` runs before the branch is emitted: a successor argument does not get its phi incoming (LLVM rejects the phi or the value is wrong)", f.loc))
    f = _convert_func_info(idx)
    fcfg = CFG(f.node)
    conv = [c for c in calls_in(f.node) if unparse(c.func) == "convert_op" and len(c.args) >= 2 and isinstance(c.args[1], ast.Name)]
    if not conv:
        raise AnalysisError(f"{f.fq}: convert_op call not found")
    op_builders = {c.args[1].id for c in conv}
    # (a) ir.IRBuilder(block) starts at the end of the block, i.e. after the phis created earlier: the builder that
    #     emits the operations may only be re-positioned after the LAST instruction
    moved = [c for c in calls_in(f.node) if isinstance(c.func, ast.Attribute) and isinstance(c.func.value, ast.Name) and c.func.value.id in op_builders and c.func.attr.startswith("position_")]
    bad_pos = []
    for c in moved:
        arg = resolved_text(fcfg, c.args[0], fcfg.node_of(c)) if c.args else ""
        if c.func.attr == "position_at_end" or (c.func.attr == "position_after" and re.fullmatch(r".+\.instructions\[-1\]", arg)):
            continue
        bad_pos.append(c)
    if bad_pos:
        r.fail(f.fq, Finding("C23.R3", f.fq, "ops-between-phis", f"`{unparse(bad_pos[0])}` positions the builder that emits the operations somewhere else than after the LAST instruction of the block: with two or more block arguments instructions land between phis and LLVM rejects the module", f"{CV}:{bad_pos[0].lineno}"))
    else:
        r.ok(f.fq, f"{f.loc} operations are emitted at the end of the block (after every pre-created phi)")
    # (b) every block exists before any operation is converted (forward branches)
    crea = []
    for w in walk_local(f.node):
        if isinstance(w, ast.For):
            it = resolved_text(fcfg, w.iter, fcfg.node_of(w))
            if re.fullmatch(r"(?:enumerate\()?(?:list\()?\w+\.body\.blocks\)?\)?", it) and any(isinstance(s_, ast.Assign) and isinstance(s_.targets[0], ast.Subscript) and unparse(s_.targets[0].value) == "block_map" and "append_basic_block" in resolved_text(fcfg, s_.value, fcfg.node_of(s_)) for s_ in walk_local(w)):
                crea.append(w)
    ALLB = r"(?:enumerate\()?(?:list\()?\w+\.body\.blocks\)?\)?"
    for st in walk_local(f.node):
        if isinstance(st, (ast.Assign, ast.AnnAssign)) and isinstance(st.value, ast.DictComp) and unparse(st.targets[0] if isinstance(st, ast.Assign) else st.target) == "block_map":
            g0 = st.value.generators[0]
            if len(st.value.generators) == 1 and not g0.ifs and re.fullmatch(ALLB, resolved_text(fcfg, g0.iter, fcfg.node_of(st))) and unparse(st.value.key) == unparse(g0.target) and "append_basic_block" in unparse(st.value.value):
                crea.append(st)
    if len(crea) != 1:
        raise AnalysisError(f"{f.fq}: loop creating one LLVM block per block of the body not found ({len(crea)} candidates)")
    cw = crea[0]
    inside = [c for c in conv if any(x is c for x in ast.walk(cw))]
    head = fcfg.node_of(cw)
    early = [c for c in conv if c not in inside and fcfg.path_avoiding(fcfg.entry, fcfg.node_of(c), lambda n: n.id == head, follow_exc=False) is not None]
    if inside or early:
        c = (inside or early)[0]
        r.fail(f.fq + ":blocks", Finding("C23.R3", f.fq, "blocks-precreated", f"`{unparse(c)[:60]}` can run before every block of the function has its LLVM block: a branch to a later block finds no entry in block_map", f"{CV}:{c.lineno}"))
    else:
        r.ok(f.fq + ":blocks", f"{f.loc} all blocks created before any op is converted (forward branches)")

    r = rep.rule("C23.R4", "operation converters emit at the builder's current position: no converter of convert_op.py moves the insertion point (instruction order = operation order, so operands dominate and per-iteration effects stay per iteration)", floor=10)
    MOVERS = {"goto_entry_block", "goto_block", "position_at_start", "position_at_end", "position_before", "position_after"}
    n_conv = 0
    for q, fi in idx.module(CO).functions.items():
        if not (fi.name.startswith("_convert_") or fi.name == "convert_op"):
            continue
        n_conv += 1
        mv = [c for c in calls_in(fi.node, local=False) if call_attr(c) in MOVERS]
        if mv:
            r.fail(fi.fq, Finding("C23.R4", fi.fq, f"moves-insertion-point:{call_attr(mv[0])}", f"`{unparse(mv[0])}` emits the instruction somewhere else than at the operation's position: an alloca hoisted to the entry block no longer yields a fresh slot per loop iteration and may use a size that does not dominate it (LLVM rejects the module)", f"{CO}:{mv[0].lineno}"))
        else:
            r.ok(fi.fq, None)
    if n_conv < 10:
        raise AnalysisError(f"only {n_conv} converters found in {CO}")
    # the driver hands every operation the builder of the block it is in
    from ..dataflow import reaching_defs

    drv = _convert_func_info(idx)
    dcfg = CFG(drv.node)
    ccalls = [c for c in calls_in(drv.node) if unparse(c.func) == "convert_op" and len(c.args) >= 2]
    if not ccalls:
        raise AnalysisError(f"{drv.fq}: convert_op call not found")
    pm_ = parent_map(drv.node)
    for c in ccalls:
        # the block whose operations are being converted: `for <op> in <blk>.ops`
        blk = None
        x = c
        while id(x) in pm_:
            x = pm_[id(x)]
            if isinstance(x, ast.For) and unparse(x.target) == unparse(c.args[0]) and re.fullmatch(r"(\w+)\.ops", unparse(x.iter)):
                blk = unparse(x.iter)[:-4]
                break
        b = c.args[1]
        inst = f"{drv.fq}:convert_op@{c.lineno}"
        if blk is None and isinstance(b, ast.Name):
            # not in a `for op in <block>.ops` loop: an operation taken from elsewhere (a walk, an operand's owner)
            # is emitted with a builder; if that builder sits on one fixed block the operation leaves its own block
            defs0 = reaching_defs(dcfg, b.id, dcfg.node_of(c))
            loopvars = set()
            x2 = c
            while id(x2) in pm_:
                x2 = pm_[id(x2)]
                if isinstance(x2, ast.For):
                    loopvars |= {y.id for y in ast.walk(x2.target) if isinstance(y, ast.Name)}
            fixed = bool(defs0) and all(v_ is not None and isinstance(v_, ast.Call) and unparse(v_.func) == "ir.IRBuilder" and not ({y.id for y in ast.walk(v_) if isinstance(y, ast.Name)} & loopvars) for _, v_ in defs0)
            if fixed and loopvars:
                r.fail(inst, Finding("C23.R4", drv.fq, f"emitted-in-other-block:{b.id}", f"`{unparse(c)}` emits operations picked from the whole function with `{b.id}` (`{unparse(defs0[0][1])}`), a builder on one fixed block: the operation is emitted outside its own block - an alloca hoisted to the entry block yields one slot for all iterations of a loop instead of a fresh one per execution", f"{CV}:{c.lineno}"))
                continue
        if blk is None or not isinstance(b, ast.Name):
            raise AnalysisError(f"{drv.fq}: `{unparse(c)}` not inside a loop over the operations of a block / builder not a local")
        defs = reaching_defs(dcfg, b.id, dcfg.node_of(c))
        def _bdef(v, nid_):
            if v is None:
                return "<param>"
            if isinstance(v, ast.Call) and unparse(v.func) == "ir.IRBuilder" and len(v.args) == 1 and isinstance(v.args[0], ast.Name):
                ds = reaching_defs(dcfg, v.args[0].id, nid_)
                if len(ds) == 1 and ds[0][1] is not None:
                    return f"ir.IRBuilder({unparse(ds[0][1])})"
            return unparse(v)

        vals = {_bdef(v, nid_) for nid_, v in defs}
        # the same builder, temporarily pointed at another block (`with builder.goto_entry_block():` / goto_block / position_*)
        moved_ = [w_ for w_ in walk_local(drv.node) if isinstance(w_, ast.With) and any(x is c for x in ast.walk(w_)) and any(isinstance(it_.context_expr, ast.Call) and isinstance(it_.context_expr.func, ast.Attribute) and unparse(it_.context_expr.func.value) == b.id and it_.context_expr.func.attr in ("goto_entry_block", "goto_block") for it_ in w_.items)]
        if moved_:
            r.fail(inst, Finding("C23.R4", drv.fq, f"moves-insertion-point:{unparse(moved_[0].items[0].context_expr.func.attr if False else moved_[0].items[0].context_expr)[:40]}", f"`{unparse(c)}` runs under `with {unparse(moved_[0].items[0].context_expr)}`: the operation is emitted in another block than the one it is in - an alloca moved to the entry block yields one slot for all loop iterations, and its size operand may not dominate it", f"{CV}:{c.lineno}"))
        elif vals == {f"ir.IRBuilder(block_map[{blk}])"}:
            r.ok(inst, f"{CV}:{c.lineno} emitted with the builder of its own block")
        elif all(re.fullmatch(r"ir\.IRBuilder\(.*\)", v_) for v_ in vals):
            other = sorted(v_ for v_ in vals if v_ != f"ir.IRBuilder(block_map[{blk}])")
            r.fail(inst, Finding("C23.R4", drv.fq, f"emitted-in-other-block:{b.id}", f"`{unparse(c)}` emits the operation with `{other[0]}`, a builder of another block than the one the operation is in: an alloca moved to the entry block yields one slot for all loop iterations, and its size operand may not dominate it", f"{CV}:{c.lineno}"))
        else:
            raise AnalysisError(f"{drv.fq}: builder `{b.id}` of `{unparse(c)}` has definitions {sorted(vals)}")

    rep.run(check_structure, idx, rep)
    rep.run(check_float_types, idx, rep)
    rep.run(check_constant_payload, idx, rep)
    return (
        "Table agreement of the LLVM translation tables with the llvm dialect's own operation names (binary ops, casts, "
        "intrinsics, argument attributes), predicate tables against the meaning of the mnemonics, dispatcher coverage and phi "
        "bookkeeping rules. LLVM's acceptance and execution of the emitted IR are not decided."
    )
