"""C26 — affine algebra (narrow claim): dispatcher agreement over AffineBinaryOpKind, reflected
operators, and two structural rules of the flattener (gcd over the whole row, column index read
before the local is appended)."""

from __future__ import annotations

import ast

from ..astutil import dispatch_tables, call_attr, calls_in, unparse, walk_local
import re

from ..cfg import CFG
from ..dataflow import resolved_text
from ..report import Finding, Report
from ..srcindex import AnalysisError, Index

AE = "xdsl/ir/affine/affine_expr.py"
APARSER = "xdsl/parser/affine_parser.py"

CANON = {"Add": "+", "Mul": "*", "Mod": "%", "FloorDiv": "//", "CeilDiv": "ceil"}
TOKEN = {"Add": "+", "Mul": "*", "Mod": "mod", "FloorDiv": "floordiv", "CeilDiv": "ceildiv"}
VISITOR = {"Add": ("visit_add_expr", None), "Mul": ("visit_mul_expr", None), "Mod": ("visit_mod_expr", None), "FloorDiv": ("visit_div_expr", "False"), "CeilDiv": ("visit_div_expr", "True")}


def op_of(e: ast.AST, a: str, b: str) -> str | None:
    """Canonical operation computed by expression e on operands (a, b) in this order."""
    def is_(x, nm):
        return unparse(x) == nm
    if isinstance(e, ast.Call) and call_attr(e) == "constant" and e.args:
        return op_of(e.args[0], a, b)
    if isinstance(e, ast.BinOp) and is_(e.left, a) and is_(e.right, b):
        return {ast.Add: "+", ast.Mult: "*", ast.Mod: "%", ast.FloorDiv: "//"}.get(type(e.op))
    if isinstance(e, ast.Call) and call_attr(e) == "ceil_div" and isinstance(e.func, ast.Attribute) and is_(e.func.value, a) and is_(e.args[0], b):
        return "ceil"
    if isinstance(e, ast.UnaryOp) and isinstance(e.op, ast.USub) and isinstance(e.operand, ast.BinOp) and isinstance(e.operand.op, ast.FloorDiv):
        l = e.operand.left
        if isinstance(l, ast.UnaryOp) and isinstance(l.op, ast.USub) and is_(l.operand, a) and is_(e.operand.right, b):
            return "ceil"
    if isinstance(e, ast.BinOp) and is_(e.left, b) and is_(e.right, a):
        return {ast.Add: "+", ast.Mult: "*"}.get(type(e.op), "swapped")
    return None


def _kind_name(e: ast.AST) -> str | None:
    t = unparse(e)
    return t.rsplit(".", 1)[1] if t.startswith("AffineBinaryOpKind.") else None


OPERATOR_FUNCS = {"operator.add": ast.Add, "operator.mul": ast.Mult, "operator.mod": ast.Mod, "operator.floordiv": ast.FloorDiv, "operator.sub": ast.Sub}


def _apply_callable(fn_expr: ast.AST, args: list[ast.AST], module_assigns: dict) -> ast.AST | None:
    """`operator.add` / a lambda / a module-level lambda name applied to args -> the expression it computes"""
    import copy

    t = unparse(fn_expr)
    if t in OPERATOR_FUNCS and len(args) == 2:
        return ast.BinOp(left=args[0], op=OPERATOR_FUNCS[t](), right=args[1])
    if isinstance(fn_expr, ast.Name) and isinstance(module_assigns.get(fn_expr.id), ast.Lambda):
        fn_expr = module_assigns[fn_expr.id]
    if isinstance(fn_expr, ast.Lambda) and len(fn_expr.args.args) == len(args):
        sub = {a.arg: v for a, v in zip(fn_expr.args.args, args)}

        class S(ast.NodeTransformer):
            def visit_Name(self, node: ast.Name):
                return copy.deepcopy(sub[node.id]) if node.id in sub else node

        return S().visit(copy.deepcopy(fn_expr.body))
    if isinstance(fn_expr, ast.Attribute) and len(args) >= 1:  # unbound method  AffineExpr.ceil_div
        return ast.Call(func=ast.Attribute(value=args[0], attr=fn_expr.attr, ctx=ast.Load()), args=list(args[1:]), keywords=[])
    return None


def kind_dispatch(fn: ast.AST, module_assigns: dict, kinds: list[str], key: str = "AffineBinaryOpKind") -> dict[str, list]:
    """For a function that dispatches on an AffineBinaryOpKind (match on the kind, class patterns with kind=...,
    if / elif chains, or a lookup in a literal table keyed by the kinds): kind -> list of (returned expression AST or
    None, path) handled for that kind.  A table lookup `T[k]` / `T[k](a, b)` is specialised per key."""
    from ..paths import enum_paths, expand_predicates, subst

    out: dict[str, list] = {k: [] for k in kinds}
    from ..paths import Loop as _Loop

    def with_bodies(ps):
        res = []
        for p_ in ps:
            res.append(p_)
            for e_ in p_.effects:
                if isinstance(e_, _Loop):
                    res.extend(with_bodies(e_.body))
        return res

    seen_ids: set[int] = set()
    paths = []
    for p_ in with_bodies(enum_paths(fn)):
        if id(p_) not in seen_ids:
            seen_ids.add(id(p_))
            paths.append(p_)
    paths = [p for p in expand_predicates(paths, {}) if p.feasible()]
    for p in paths:
        pos: set[str] | None = None
        neg: set[str] = set()
        generic = False
        for t_, pol in p.nfacts():
            m = re.fullmatch(rf"[\w.]+ (?:==|is) {key}\.(\w+)", t_)
            if m:
                if pol:
                    pos = {m.group(1)} if pos is None else pos & {m.group(1)}
                else:
                    neg.add(m.group(1))
                continue
            m = re.fullmatch(r".* == '(.*)'", t_)
            if m and pol:
                ks = set(re.findall(rf"{key}\.(\w+)", m.group(1)))
                if ks:
                    pos = ks if pos is None else pos & ks
                elif re.fullmatch(r"\w+\(.*\)|_", m.group(1)):
                    generic = True
        if pos is None:
            continue
        for k in pos - neg:
            if k in out:
                rv = None
                if p.value is not None:
                    rv = ast.parse(p.rvalue(), mode="eval").body
                out[k].append((rv, p, generic))
    # literal table lookups: `return T[x]` / `return T[x](a, b)` / `T[x](...)` statement
    if not any(out.values()):
        for p in paths:
            if p.value is None:
                continue
            rv = ast.parse(p.rvalue(), mode="eval").body
            call_args = None
            sub = rv
            if isinstance(rv, ast.Call) and isinstance(rv.func, ast.Subscript):
                sub, call_args = rv.func, rv.args
            if isinstance(sub, ast.Subscript) and isinstance(sub.value, ast.Name) and isinstance(module_assigns.get(sub.value.id), ast.Dict):
                d_ = module_assigns[sub.value.id]
                for k_, v_ in zip(d_.keys, d_.values):
                    kn = _kind_name(k_) if k_ is not None else None
                    if kn in out:
                        val = v_ if call_args is None else _apply_callable(v_, list(call_args), module_assigns)
                        out[kn].append((val, p, False))
    return out



def _flat_operands(fn: ast.AST) -> tuple[str, str, str]:
    """(lhs row, rhs row, rhs constant) locals of a flattener visitor: the rhs row is popped first from
    self.operand_expr_stack, the lhs row second; the constant is <rhs>[self.get_constant_index()]"""
    pops = [s_.targets[0].id for s_ in walk_local(fn) if isinstance(s_, ast.Assign) and len(s_.targets) == 1 and isinstance(s_.targets[0], ast.Name) and unparse(s_.value) == "self.operand_expr_stack.pop()"]
    pops.sort(key=lambda nm: next(s_.lineno for s_ in walk_local(fn) if isinstance(s_, ast.Assign) and isinstance(s_.targets[0], ast.Name) and s_.targets[0].id == nm))
    if len(pops) != 2:
        raise AnalysisError(f"the two operand rows popped from self.operand_expr_stack were not found ({pops})")
    rhs, lhs = pops
    consts = [s_.targets[0].id for s_ in walk_local(fn) if isinstance(s_, ast.Assign) and len(s_.targets) == 1 and isinstance(s_.targets[0], ast.Name) and unparse(s_.value) == f"{rhs}[self.get_constant_index()]"]
    if len(consts) != 1:
        raise AnalysisError(f"the constant of the right operand ({rhs}[self.get_constant_index()]) is not bound to one local")
    return lhs, rhs, consts[0]


def check(idx: Index, rep: Report, tier: str) -> str:
    enum = idx.cls(AE, "AffineBinaryOpKind")
    kinds = [n for n in enum.class_assigns() if n[0].isupper()]
    if sorted(kinds) != sorted(CANON):
        raise AnalysisError(f"AffineBinaryOpKind members changed: {kinds}")

    r = rep.rule("C26.R1", "every dispatcher over AffineBinaryOpKind is exhaustive and maps each kind to the same operation", floor=25)

    def table_from_match(fn: ast.AST, subj: str, a: str, b: str, get_expr) -> dict[str, str | None]:
        out: dict[str, str | None] = {}
        for s_, tbl_, _d, _n in dispatch_tables(fn):  # a `match` or an if-chain on the same subject
            if s_ != subj:
                continue
            for key_, body_ in tbl_.items():
                try:
                    k = _kind_name(ast.parse(key_, mode="eval").body)
                except SyntaxError:
                    k = None
                if k:
                    out[k] = get_expr(body_, a, b)
        return out

    def ret_op(body, a, b):
        rets = [s for s in body if isinstance(s, ast.Return)]
        return op_of(rets[0].value, a, b) if rets and rets[0].value is not None else None

    def compare(name: str, f, table: dict[str, str | None], want: dict[str, str]) -> None:
        for k in CANON:
            inst = f"{name}:{k}"
            if k not in table:
                r.fail(inst, Finding("C26.R1", f.fq, f"not-exhaustive:{k}", f"{name} has no case for AffineBinaryOpKind.{k}", f.loc))
            elif table[k] != want[k]:
                r.fail(inst, Finding("C26.R1", f.fq, f"wrong-op:{k}", f"{name} maps {k} to `{table[k]}`; the other dispatchers use `{want[k]}`", f.loc))
            else:
                r.ok(inst, f"{f.loc} {k} -> {want[k]}")

    def table_by_paths(f, a_: str, b_: str) -> dict[str, str | None]:
        """kind -> canonical operation of the returned expression, over every dispatch form (kind_dispatch)"""
        d_ = kind_dispatch(f.node, getattr(f.module, "assigns", {}), list(CANON))
        tb: dict[str, str | None] = {}
        for k_, hits in d_.items():
            ops = {op_of(rv, a_, b_) for rv, _, generic in hits if rv is not None}
            if len(ops) == 1:
                tb[k_] = next(iter(ops))
            elif len(ops) > 1:
                tb[k_] = "/".join(sorted(str(o) for o in ops))
        return tb

    f = idx.func(AE, "AffineExpr.binary")
    compare("AffineExpr.binary", f, table_by_paths(f, "lhs", "rhs"), CANON)

    f = idx.func(AE, "AffineExpr._try_fold_constant")
    compare("_try_fold_constant", f, table_by_paths(f, "self.value", "other.value"), CANON)

    f = idx.func(AE, "AffineExpr.eval")
    tbl = table_by_paths(f, "self.lhs.eval(dims, symbols)", "self.rhs.eval(dims, symbols)")
    if not tbl:
        tbl = table_by_paths(f, "lhs", "rhs")
        defs = {unparse(s_.targets[0]): unparse(s_.value) for s_ in walk_local(f.node) if isinstance(s_, ast.Assign)}
        if tbl and (defs.get("lhs") != "self.lhs.eval(dims, symbols)" or defs.get("rhs") != "self.rhs.eval(dims, symbols)"):
            r.fail("eval:operands", Finding("C26.R1", f.fq, "operands-swapped", "eval does not evaluate lhs from self.lhs and rhs from self.rhs", f.loc))
    compare("AffineExpr.eval", f, tbl, CANON)

    f = idx.func(AE, "AffineBinaryOpKind.get_token")
    tok: dict[str, str | None] = {}
    for k_, hits in kind_dispatch(f.node, getattr(f.module, "assigns", {}), list(CANON)).items():
        vals = {rv.value for rv, _, _ in hits if isinstance(rv, ast.Constant) and isinstance(rv.value, str)}
        if len(vals) == 1:
            tok[k_] = next(iter(vals))
    compare("get_token", f, tok, TOKEN)
    # parser: token -> operation, composed with get_token
    g = idx.func(APARSER, "AffineParser._create_binop_expr")
    ptab: dict[str, str | None] = {}
    gl_, gr_ = g.node.args.args[1].arg, g.node.args.args[2].arg
    for _s, tbl_, _d, _n in dispatch_tables(g.node):
        for key_, body_ in tbl_.items():
            try:
                kv_ = ast.literal_eval(key_)
            except (ValueError, SyntaxError):
                continue
            if isinstance(kv_, str):
                ptab[kv_] = ret_op(body_, gl_, gr_)
    if not ptab:
        # table form: a literal dict keyed by the operator token, the builder (operator.* / lambda / method) in the row
        gmod = getattr(g.module, "assigns", {})
        gcls = g.cls.class_assigns() if g.cls is not None else {}
        for nm_, d_ in list(gmod.items()) + list(gcls.items()):
            if isinstance(d_, ast.Dict) and d_.keys and all(isinstance(k_, ast.Constant) and isinstance(k_.value, str) for k_ in d_.keys):
                for k_, v_ in zip(d_.keys, d_.values):
                    cands = [v_] + (list(v_.args) + [kw.value for kw in v_.keywords] if isinstance(v_, ast.Call) else list(v_.elts) if isinstance(v_, ast.Tuple) else [])
                    for cnd in cands:
                        e_ = _apply_callable(cnd, [ast.Name(id="lhs", ctx=ast.Load()), ast.Name(id="rhs", ctx=ast.Load())], gmod)
                        if e_ is not None and op_of(e_, "lhs", "rhs") is not None:
                            ptab[k_.value] = op_of(e_, "lhs", "rhs")  # type: ignore[union-attr]
    for k in CANON:
        inst = f"print/parse:{k}"
        t = tok.get(k)
        if t is None or t not in ptab:
            r.fail(inst, Finding("C26.R1", g.fq, f"token-unparsed:{k}", f"the token `{t}` printed for {k} has no case in the affine parser", g.loc))
        elif ptab[t] != CANON[k]:
            r.fail(inst, Finding("C26.R1", g.fq, f"token-wrong-op:{k}", f"the parser builds `{ptab[t]}` for the token `{t}`, which the printer emits for {k} (`{CANON[k]}`)", g.loc))
        else:
            r.ok(inst, f"{g.loc} '{t}' -> {CANON[k]}")
    if ptab.get("-") is None:
        # `lhs - rhs`
        pass
    # constructors: the node kind built by each operator equals the kind it folds with
    for meth, k in (("__add__", "Add"), ("__mul__", "Mul"), ("__floordiv__", "FloorDiv"), ("ceil_div", "CeilDiv"), ("__mod__", "Mod")):
        f = idx.func(AE, f"AffineExpr.{meth}")
        built = [_kind_name(c.args[0]) for c in calls_in(f.node) if call_attr(c) == "AffineBinaryOpExpr" and c.args]
        folded = [_kind_name(c.args[1]) for c in calls_in(f.node) if call_attr(c) == "_try_fold_constant" and len(c.args) > 1]
        simp = {"__add__": "_simplify_add", "__mul__": "_simplify_mul"}.get(meth)
        inst = f"{meth}:{k}"
        ok = built == [k] and (folded == [k] or (simp and any(call_attr(c) == simp for c in calls_in(f.node))))
        if ok:
            r.ok(inst, f"{f.loc} builds and folds kind {k}")
        else:
            r.fail(inst, Finding("C26.R1", f.fq, f"kind-mismatch:{k}", f"{meth} builds {built} and folds {folded}; both must be {k}", f.loc))
    # flattener dispatch
    f = idx.func(AE, "SimpleAffineExprFlattener.simplify")
    vt: dict[str, tuple[str, str | None]] = {}
    disp = kind_dispatch(f.node, getattr(f.module, "assigns", {}), list(CANON))
    for k, hits in disp.items():
        for rv, pth, generic in hits:
            cs = [(i_, e_.value) for i_, e_ in enumerate(pth.effects) if isinstance(e_, ast.Expr) and isinstance(e_.value, ast.Call) and (call_attr(e_.value) or "").startswith("visit_") and call_attr(e_.value) not in ("visit_constant_expr", "visit_dim_expr", "visit_symbol_expr")]
            if not cs:
                continue
            i_, c0 = cs[0]
            kw = {q.arg: pth.res(q.value, i_) for q in c0.keywords}
            ic = kw.get("is_ceil")
            if ic is not None:
                m_ = re.fullmatch(r"[\w.]+ (?:==|is) AffineBinaryOpKind\.(\w+)", ic)
                if m_:
                    ic = str(m_.group(1) == k)
            vt[k] = (call_attr(c0), ic)  # type: ignore[assignment]
    for k, want in VISITOR.items():
        inst = f"flattener:{k}"
        if vt.get(k) == want:
            r.ok(inst, f"{f.loc} {k} -> {want[0]}({'is_ceil=' + want[1] if want[1] else ''})")
        else:
            r.fail(inst, Finding("C26.R1", f.fq, f"flattener-dispatch:{k}", f"the flattener handles {k} with {vt.get(k)}; expected {want}", f.loc))

    # ---- R2 reflected operators of non-commutative operations
    r2 = rep.rule("C26.R2", "reflected operators of non-commutative operations do not delegate with unswapped operands", floor=1)
    cls = idx.cls(AE, "AffineExpr")
    for nm, fwd, commutative in (("__radd__", "__add__", True), ("__rmul__", "__mul__", True), ("__rsub__", "__sub__", False), ("__rfloordiv__", "__floordiv__", False), ("__rmod__", "__mod__", False)):
        m = cls.method(nm)
        if m is None:
            continue
        other = m.node.args.args[1].arg
        rets = [unparse(s.value) for s in walk_local(m.node) if isinstance(s, ast.Return) and s.value is not None]
        delegating = rets == [f"self.{fwd}({other})"] or rets == [f"self {'-' if fwd == '__sub__' else '?'} {other}"]
        if commutative or not delegating:
            r2.ok(m.fq, f"{m.loc} {nm}: {rets}")
        else:
            r2.fail(m.fq, Finding("C26.R2", m.fq, "reflected-unswapped", f"{nm} returns `{rets[0]}`: `5 - d0` builds `d0 - 5` (operands of a non-commutative operation are not swapped)", m.loc))

    # ---- R3 flattener structure
    r3 = rep.rule("C26.R3", "the flattener cancels a common factor only if it divides every entry of the row (constant term included) and computes the column of a new local before appending it", floor=3)
    for q in ("SimpleAffineExprFlattener.visit_div_expr", "SimpleAffineExprFlattener.visit_mod_expr"):
        f = idx.func(AE, q)
        gcds = [c for c in calls_in(f.node) if unparse(c.func) == "math.gcd"]
        if not gcds:
            raise AnalysisError(f"{f.fq}: gcd computation not found")
        for c in gcds:
            its = [unparse(g.iter) for a in c.args for x in ast.walk(a) if isinstance(x, ast.GeneratorExp) for g in x.generators]
            args = [unparse(a) for a in c.args]
            lhs_n, _rhs_n, rc_n = _flat_operands(f.node)
            if its == [lhs_n] and rc_n in args:
                r3.ok(f.fq + ":gcd", f"{f.loc} gcd over every entry of lhs and the divisor")
            else:
                r3.fail(f.fq + ":gcd", Finding("C26.R3", f.fq, "gcd-partial-row", f"`{unparse(c)[:80]}` ranges over {its} instead of the whole flattened row: dividing the constant term by a factor that does not divide it changes the value of a ceildiv / mod", f"{AE}:{c.lineno}"))
    f = idx.func(AE, "SimpleAffineExprFlattener.add_local_floordiv_id")
    cfg = CFG(f.node)
    ins = [c for c in calls_in(f.node) if call_attr(c) == "insert"]
    app = [c for c in calls_in(f.node) if unparse(c.func) == "self.local_exprs.append"]
    if len(ins) != 1 or len(app) != 1:
        raise AnalysisError(f"{f.fq}: expected one column insert and one local_exprs.append")
    idx_txt = unparse(ins[0].args[0])
    n_ins, n_app = cfg.node_of(ins[0]), cfg.node_of(app[0])
    if isinstance(ins[0].args[0], ast.Name):
        # the column index was computed into a local: what matters is where that computation is evaluated
        from ..dataflow import reaching_defs as _rd

        ds_ = [(n_, v_) for n_, v_ in _rd(cfg, ins[0].args[0].id, n_ins) if v_ is not None]
        if len(ds_) == 1:
            n_ins, idx_txt = ds_[0][0], unparse(ds_[0][1])
    before = n_app in cfg.reachable(n_ins) and n_ins not in cfg.reachable(n_app)
    good_before = idx_txt in ("self.get_local_var_start_index() + len(self.local_exprs)", "self.get_constant_index()")
    good_after = idx_txt in ("self.get_local_var_start_index() + len(self.local_exprs) - 1", "self.get_constant_index() - 1")
    if (before and good_before) or (not before and good_after):
        r3.ok(f.fq, f"{f.loc} column {idx_txt} computed {'before' if before else 'after'} the append")
    else:
        r3.fail(f.fq, Finding("C26.R3", f.fq, "column-after-append", f"pending rows get the new zero column at `{idx_txt}` evaluated {'before' if before else 'after'} local_exprs.append: the column lands after the constant term, so an existing constant becomes the coefficient of the new local", f.loc))

    # mod: e mod c = e - c * (e floordiv c): the coefficient given to the quotient local is -c in both branches
    # (new local column / existing local column)
    f = idx.func(AE, "SimpleAffineExprFlattener.visit_mod_expr")
    mcfg = CFG(f.node)
    lhs_n, _rhs_n, rc_n = _flat_operands(f.node)
    ins = [c for c in calls_in(f.node) if call_attr(c) == "insert" and len(c.args) == 2 and unparse(c.func.value) == lhs_n]  # type: ignore[attr-defined]
    augs = [s_ for s_ in walk_local(f.node) if isinstance(s_, ast.AugAssign) and isinstance(s_.target, ast.Subscript) and unparse(s_.target.value) == lhs_n]
    if len(ins) != 1 or len(augs) != 1:
        raise AnalysisError(f"{f.fq}: the two places that give the quotient local its coefficient (lhs.insert / lhs[...] -=) were not found")
    from ..polyform import canon as _pc

    c_new = _pc(resolved_text(mcfg, ins[0].args[1], mcfg.node_of(ins[0])))
    aug = augs[0]
    c_old = _pc(resolved_text(mcfg, aug.value, mcfg.node_of(aug)))
    c_old = c_old if isinstance(aug.op, ast.Add) else _pc(f"-({resolved_text(mcfg, aug.value, mcfg.node_of(aug))})") if isinstance(aug.op, ast.Sub) else "?"
    gc = [c for c in calls_in(f.node) if unparse(c.func) == "math.gcd"]
    if not gc:
        raise AnalysisError(f"{f.fq}: gcd computation not found")
    want_c = _pc("-(" + resolved_text(mcfg, gc[0].args[-1], mcfg.node_of(gc[0])) + ")")
    if c_new == c_old == want_c:
        r3.ok(f.fq + ":mod-coefficient", f"{f.loc} quotient local gets coefficient -rhs_const in both branches")
    else:
        r3.fail(f.fq + ":mod-coefficient", Finding("C26.R3", f.fq, "mod-coefficient", f"e mod c is rewritten as e - c * q: the quotient local must get the coefficient -c (the modulus) both when it is new (`{unparse(ins[0])}` gives {c_new}) and when an existing local is reused (`{unparse(aug)}` gives {c_old}); with the gcd-reduced divisor the two differ whenever numerator and modulus share a factor", f"{AE}:{aug.lineno}"))

    # ---- R5 unary minus binds tighter than every binary operator (grammar: primary ::= `-` primary)
    r5 = rep.rule("C26.R5", "the affine parser negates exactly a primary: `-a floordiv b` is (-a) floordiv b, as the printer's parenthesised form and MLIR read it", floor=1)
    from ..paths import enum_paths as _ep

    pf = idx.func("xdsl/parser/affine_parser.py", "AffineParser._parse_primary")
    negs = 0
    for pth in _ep(pf.node):
        if pth.end != "return" or pth.value is None:
            continue
        rv = ast.parse(pth.rvalue(), mode="eval").body
        if isinstance(rv, ast.UnaryOp) and isinstance(rv.op, ast.USub):
            negs += 1
            operand = unparse(rv.operand)
            inst = f"{pf.fq}:neg"
            if re.fullmatch(r"self\._parse_primary\(.*\)", operand) and "_parse_binop_rhs" not in operand and "_parse_affine_expr" not in operand:
                r5.ok(inst, f"{pf.loc} `-` applies to `{operand[:50]}`")
            else:
                r5.fail(inst, Finding("C26.R5", pf.fq, "unary-minus-scope", f"the negated operand is `{operand[:90]}`, not a primary: operators that follow are absorbed before the negation, so `-9 floordiv 2` is read as -(9 floordiv 2) = -4 instead of (-9) floordiv 2 = -5 and `-d0 mod 3` as -(d0 mod 3)", pf.loc))
    if negs == 0:
        raise AnalysisError(f"{pf.fq}: the unary minus case was not found")

    # ---- R4 construction-time folds of the division-like operators
    r4 = rep.rule("C26.R4", "floordiv / ceildiv / mod constructors return the constant fold, the node built from (kind, self, other), or a fold from the reviewed identity table under that identity's divisibility guard", floor=3)
    from ..astutil import guard_facts

    for nm, kind in (("__floordiv__", "FloorDiv"), ("ceil_div", "CeilDiv"), ("__mod__", "Mod")):
        m = cls.method(nm)
        if m is None:
            raise AnalysisError(f"AffineExpr.{nm} not found")
        other = m.node.args.args[1].arg
        cfgm = CFG(m.node)
        for rt in [x for x in walk_local(m.node) if isinstance(x, ast.Return) and x.value is not None]:
            t = resolved_text(cfgm, rt.value, cfgm.node_of(rt))
            inst = f"{m.fq}:{unparse(rt.value)[:40]}"
            loc = f"{AE}:{rt.lineno}"
            # the operand may be a renamed copy of `other` (an inlined helper renames its parameters)
            aliases = {other} | {s_.targets[0].id for s_ in walk_local(m.node) if isinstance(s_, ast.Assign) and len(s_.targets) == 1 and isinstance(s_.targets[0], ast.Name) and ((isinstance(s_.value, ast.Name) and s_.value.id == other) or unparse(s_.value) in (f"AffineExpr.constant({s_.targets[0].id})", f"AffineExpr._as_expr({other})", f"AffineExpr.constant({other})"))}
            al = "|".join(re.escape(a_) for a_ in sorted(aliases))
            al = rf"{al}|AffineExpr\.\w+\((?:{al})\)"
            if re.search(rf"_try_fold_constant\((?:{al}), AffineBinaryOpKind\.{kind}\)", t) or re.fullmatch(rf"AffineBinaryOpExpr\(AffineBinaryOpKind\.{kind}, self, (?:{al})\)", t):
                r4.ok(inst, f"{loc} {nm}: {unparse(rt.value)[:60]}")
                continue
            facts = [(unparse(x), pol) for x, pol in guard_facts(m.node, rt)]
            divis = [re.fullmatch(r"(.+) % (.+) == 0", x) for x, pol in facts if pol]
            divis = [d for d in divis if d]
            is_zero = t in ("AffineExpr.constant(0)", "AffineConstantExpr(0)")
            is_self = t == "self"
            one = (f"{other}.value == 1", True) in facts
            if kind == "Mod" and is_zero and one:
                r4.ok(inst, f"{loc} e mod 1 = 0")
            elif kind in ("FloorDiv", "CeilDiv") and is_self and one:
                r4.ok(inst, f"{loc} e div 1 = e")
            elif divis and ("AffineBinaryOpKind.Mul" in " ".join(x for x, _ in facts)):
                a, b = divis[0].group(1), divis[0].group(2)
                mult_first = ("rhs.value" in a) and (a != f"{other}.value") and b == f"{other}.value"
                if mult_first and (is_zero if kind == "Mod" else True):
                    r4.ok(inst, f"{loc} (e * k) {kind} c folded under k % c == 0")
                else:
                    r4.fail(inst, Finding("C26.R4", m.fq, f"divisibility-reversed:{kind}", f"`{unparse(rt)}` folds (e * k) {kind.lower()} c under `{divis[0].group(0)}`; the identity holds when the multiplier is a multiple of the divisor (`k % c == 0`), not when the divisor is a multiple of the multiplier: (d0 * 2) mod 4 is not 0", loc))
            elif kind == "Mod" and divis and ("self.kind == AffineBinaryOpKind.Mod", True) in facts and t in (f"self.lhs % {other}", f"AffineBinaryOpExpr(AffineBinaryOpKind.Mod, self.lhs, {other})", f"self.lhs.__mod__({other})"):
                a, b = divis[0].group(1), divis[0].group(2)
                if (a, b) == ("self.rhs.value", f"{other}.value"):
                    r4.ok(inst, f"{loc} (e mod a) mod b = e mod b under a % b == 0")
                else:
                    r4.fail(inst, Finding("C26.R4", m.fq, "divisibility-reversed:Mod-of-Mod", f"`{unparse(rt)}` folds (e mod a) mod b to e mod b under `{divis[0].group(0)}`; the identity needs the inner modulus to be a multiple of the outer one (`a % b == 0`): (d0 mod 2) mod 4 is d0 mod 2, not d0 mod 4", loc))
            else:
                raise AnalysisError(f"{m.fq}: `{unparse(rt)}` is a construction-time simplification that is not in the reviewed identity table")

    # ---- R6 precedence climbing: a tighter operator after the right operand is absorbed by recursion
    r6 = rep.rule("C26.R6", "the affine expression parser hands the right operand of an operator to a recursive call with a higher minimum precedence whenever the next operator binds tighter (a whole chain of tighter operators belongs to the right operand)", floor=1)
    pb = idx.func(APARSER, "AffineParser._parse_binop_rhs")
    from ..astutil import norm_facts as _nf6, text_facts as _tf6

    # locals by role: the right operand (bound to _parse_primary), the precedence of the current operator (first read of
    # _get_token_precedence) and of the next one (second read)
    prim = [n for n in walk_local(pb.node) if isinstance(n, ast.Assign) and len(n.targets) == 1 and isinstance(n.targets[0], ast.Name) and isinstance(n.value, ast.Call) and unparse(n.value.func) == "self._parse_primary"]
    precs = sorted([n for n in walk_local(pb.node) if isinstance(n, ast.Assign) and len(n.targets) == 1 and isinstance(n.targets[0], ast.Name) and unparse(n.value) == "self._get_token_precedence()"], key=lambda n: n.lineno)
    prim.sort(key=lambda n: n.lineno)
    if not prim or not precs:
        raise AnalysisError(f"{pb.fq}: right operand / operator precedence not found ({len(prim)} _parse_primary bindings, {len(precs)} precedence reads)")
    rhs_n, tok_n = prim[0].targets[0].id, precs[0].targets[0].id
    next_n = precs[1].targets[0].id if len(precs) > 1 else "self\\._get_token_precedence\\(\\)"
    rhs_stores = [n for n in walk_local(pb.node) if isinstance(n, ast.Assign) and len(n.targets) == 1 and unparse(n.targets[0]) == rhs_n]
    tighter = []
    for n in rhs_stores:
        facts = _nf6(_tf6(pb.node, n))
        if any(re.fullmatch(rf"{tok_n} < .+", t_) and p_ for t_, p_ in facts) or any(re.fullmatch(rf".+ > {tok_n}", t_) and p_ for t_, p_ in facts):
            tighter.append(n)
    if not tighter:
        raise AnalysisError(f"{pb.fq}: the step taken when the next operator binds tighter was not found")
    for n in tighter:
        v = n.value
        rec = isinstance(v, ast.Call) and unparse(v.func) == "self._parse_binop_rhs" and len(v.args) >= 2 and unparse(v.args[0]) == rhs_n and re.fullmatch(rf"{tok_n} \+ 1|1 \+ {tok_n}|{next_n}", unparse(v.args[1]))
        if rec:
            r6.ok(pb.fq, f"{pb.loc} `{unparse(n)[:70]}`")
        elif isinstance(v, ast.Call) and call_attr(v) in ("_create_binop_expr",):
            r6.fail(pb.fq, Finding("C26.R6", pb.fq, "single-tighter-operator", f"`{unparse(n)[:80]}` applies exactly one tighter operator to the right operand instead of recursing with a higher minimum precedence: in `d0 + d1 * 2 floordiv 3` only `d1 * 2` is taken as the right operand of `+`, and the result is (d0 + d1 * 2) floordiv 3", f"{pb.module.relpath}:{n.lineno}"))
        else:
            raise AnalysisError(f"{pb.fq}: `{unparse(n)[:70]}` under 'next operator binds tighter' not understood")

    # ---- R7 composition: the inner map's expressions live in the combined symbol space
    r7 = rep.rule("C26.R7", "AffineMap.compose renumbers the symbols of the inner map behind those of the outer map (s_i -> s_{i + self.num_symbols}) before any of its result expressions enters the composed map", floor=1)
    from ..astutil import parent_map as _pm7, text_facts as _tf7, norm_facts as _nf7

    cm = idx.func("xdsl/ir/affine/affine_map.py", "AffineMap.compose")
    inner = cm.node.args.args[1].arg
    ccfg = CFG(cm.node)
    rets = [n for n in walk_local(cm.node) if isinstance(n, ast.Return) and n.value is not None]
    if not rets:
        raise AnalysisError(f"{cm.fq}: no return found")
    for rt in rets:
        inst = f"{cm.fq}:return@{rt.lineno - cm.node.lineno}"
        txt = resolved_text(ccfg, rt.value, ccfg.node_of(rt))
        try:
            tree = ast.parse(txt, mode="eval")
        except SyntaxError:
            raise AnalysisError(f"{cm.fq}: returned expression not understood: {txt[:80]}")
        # locals read inside a comprehension are not reached by resolved_text: substitute single-definition locals
        for _round in range(4):
            changed = False
            for x in list(ast.walk(tree)):
                if isinstance(x, ast.Name) and isinstance(x.ctx, ast.Load):
                    defs = [a_ for a_ in walk_local(cm.node) if isinstance(a_, ast.Assign) and len(a_.targets) == 1 and isinstance(a_.targets[0], ast.Name) and a_.targets[0].id == x.id]
                    if len(defs) == 1:
                        sub = ast.parse(resolved_text(ccfg, defs[0].value, ccfg.node_of(defs[0])), mode="eval").body
                        for par_ in ast.walk(tree):
                            for fld, val in ast.iter_fields(par_):
                                if val is x:
                                    setattr(par_, fld, sub); changed = True
                                elif isinstance(val, list) and any(v_ is x for v_ in val):
                                    val[:] = [sub if v_ is x else v_ for v_ in val]; changed = True
            if not changed:
                break
        txt = unparse(tree)
        pm = _pm7(tree)
        raw_uses, shifted = [], []
        for x in ast.walk(tree):
            if isinstance(x, ast.Attribute) and x.attr == "results" and unparse(x.value) == inner:
                up, q = [], x
                while id(q) in pm:
                    q = pm[id(q)]
                    up.append(q)
                if up and isinstance(up[0], ast.Call) and unparse(up[0].func) == "len":
                    continue
                raw_uses.append(x)
            if isinstance(x, ast.Call) and call_attr(x) == "replace_dims_and_symbols" and isinstance(x.func, ast.Attribute) and re.search(rf"\b{re.escape(inner)}\b", unparse(x.func.value)):
                shifted.append(x)
        raw_uses = [u for u in raw_uses if not any(any(u is y for y in ast.walk(c_)) for c_ in shifted)]
        if raw_uses:
            facts = _nf7(_tf7(cm.node, rt))
            if any("num_symbols" in t_ for t_, _p in facts):
                raise AnalysisError(f"{cm.fq}: a return that uses `{inner}.results` directly is guarded by a test on num_symbols; not decided")
            r7.fail(inst, Finding("C26.R7", cm.fq, "inner-symbols-not-shifted", f"`{unparse(rt)[:80]}` puts result expressions of `{inner}` into the composed map as they are (`{txt[:90]}`): the composed map lists the symbols of `self` first, so `s0` of `{inner}` must become `s{{self.num_symbols}}`; with an outer map that has symbols the inner symbols now name the outer ones", f"{cm.module.relpath}:{rt.lineno}"))
            continue
        if not shifted:
            raise AnalysisError(f"{cm.fq}: `{unparse(rt)[:70]}` does not go through replace_dims_and_symbols and does not use `{inner}.results`; not understood")
        bad = None
        for c_ in shifted:
            if len(c_.args) < 2:
                raise AnalysisError(f"{cm.fq}: replace_dims_and_symbols call shape not understood")
            rngs = [y for y in ast.walk(c_.args[1]) if isinstance(y, ast.Call) and unparse(y.func) == "range"]
            if len(rngs) != 1:
                raise AnalysisError(f"{cm.fq}: the new symbols `{unparse(c_.args[1])[:70]}` are not built from one range")
            ra = rngs[0].args
            lo = unparse(ra[0]) if len(ra) >= 2 else "0"
            hi = unparse(ra[1]) if len(ra) >= 2 else unparse(ra[0])
            hi_terms = sorted(t_.strip() for t_ in hi.split("+"))
            if lo != "self.num_symbols":
                bad = f"range starts at `{lo}`"
            elif hi_terms != sorted(["self.num_symbols", f"{inner}.num_symbols"]):
                bad = f"range ends at `{hi}`"
        if bad:
            r7.fail(inst, Finding("C26.R7", cm.fq, "symbol-shift-wrong", f"the symbols of `{inner}` are renumbered with a {bad}; they must become s[self.num_symbols] .. s[self.num_symbols + {inner}.num_symbols - 1]", f"{cm.module.relpath}:{rt.lineno}"))
        else:
            r7.ok(inst, f"{cm.module.relpath}:{rt.lineno} inner expressions pass through replace_dims_and_symbols with symbols shifted by self.num_symbols")

    # ---- R8 substitution of dims and symbols is simultaneous
    r8 = rep.rule("C26.R8", "AffineExpr.replace_dims_and_symbols substitutes dimensions and symbols in one traversal: no replacement step is applied to the result of another replacement step", floor=1)
    rf = idx.func(AE, "AffineExpr.replace_dims_and_symbols")
    rcfg = CFG(rf.node)
    chained = None
    for c in calls_in(rf.node):
        if isinstance(c.func, ast.Attribute) and re.search(r"replace", c.func.attr):
            recv = resolved_text(rcfg, c.func.value, rcfg.node_of(c))
            if re.search(r"\.\w*replace\w*\(", recv):
                chained = (c, recv)
                break
    if chained:
        r8.fail(rf.fq, Finding("C26.R8", rf.fq, "sequential-substitution", f"`{unparse(chained[0])[:70]}` is applied to `{chained[1][:60]}`, the result of an earlier replacement: a symbol (dimension) that the first step *introduced* is rewritten again by the second, so `d0 := s0, s0 := s1` turns d0 into s1 - the substitution is no longer simultaneous", f"{rf.module.relpath}:{chained[0].lineno}"))
    else:
        r8.ok(rf.fq, f"{rf.loc} each replacement is applied to a sub-expression of the receiver only")

    # ---- R9 the SSA-id printer parenthesises every binary expression by precedence
    r9 = rep.rule("C26.R9", "every branch of the SSA-id affine printer that prints a binary expression decides on parentheses by comparing its precedence with the minimum precedence handed in", floor=1)
    pf = idx.func("xdsl/dialects/affine.py", "_print_affine_expr_of_ssa_ids")
    if len(pf.node.args.args) < 4:
        raise AnalysisError(f"{pf.fq}: minimum-precedence parameter not found")
    mp = pf.node.args.args[3].arg
    nbin = 0
    for mt in [x for x in walk_local(pf.node) if isinstance(x, ast.Match)]:
        for case in mt.cases:
            pat = case.pattern
            if not (isinstance(pat, ast.MatchClass) and unparse(pat.cls).split(".")[-1] == "AffineBinaryOpExpr"):
                continue
            nbin += 1
            inst = f"{pf.fq}:case@{pat.lineno - pf.node.lineno}"
            reads = [x for b_ in case.body for x in ast.walk(b_) if isinstance(x, ast.Compare) and any(isinstance(y, ast.Name) and y.id == mp for y in ast.walk(x))]
            if reads:
                r9.ok(inst, f"{pf.module.relpath}:{pat.lineno} parentheses decided by `{unparse(reads[0])}`")
            else:
                r9.fail(inst, Finding("C26.R9", pf.fq, "precedence-ignored", f"the branch `case {unparse(pat)[:70]}` prints an infix expression without comparing its precedence with `{mp}`: as the left operand of a tighter operator (`(%i - 1) floordiv 2`) it is printed without parentheses and the text parses back as another expression (`%i - (1 floordiv 2)`)", f"{pf.module.relpath}:{pat.lineno}"))
    for cond in [x for x in walk_local(pf.node) if isinstance(x, ast.If) and re.search(r"isinstance\(\w+, (\w+\.)*AffineBinaryOpExpr\)", unparse(x.test))]:
        nbin += 1
        inst = f"{pf.fq}:if@{cond.lineno - pf.node.lineno}"
        reads = [x for b_ in cond.body for x in ast.walk(b_) if isinstance(x, ast.Compare) and any(isinstance(y, ast.Name) and y.id == mp for y in ast.walk(x))]
        if reads:
            r9.ok(inst, f"{pf.module.relpath}:{cond.lineno} parentheses decided by `{unparse(reads[0])}`")
        else:
            r9.fail(inst, Finding("C26.R9", pf.fq, "precedence-ignored", f"the branch `if {unparse(cond.test)[:70]}` prints an infix expression without comparing its precedence with `{mp}`: as the left operand of a tighter operator it is printed without parentheses and the text parses back as another expression", f"{pf.module.relpath}:{cond.lineno}"))
    if nbin == 0:
        raise AnalysisError(f"{pf.fq}: no branch for AffineBinaryOpExpr found")

    return (
        "Table agreement between the six dispatchers over AffineBinaryOpKind (binary, eval, constant folding, token "
        "printing and the affine parser, operator constructors, the flattener), reflected-operator rule, and two structural "
        "rules of the flattener. Soundness of simplification in general is not decided."
    )
