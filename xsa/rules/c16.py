"""C16 — lowerings preserve results (narrow claim): guards of the code-motion transformations,
simultaneous update of loop-carried values when unrolling, per-iteration single-use test of range folding."""

from __future__ import annotations

import ast
import re

from ..astutil import call_attr, calls_in, guard_facts, unparse, walk_local
from ..cfg import CFG
from ..report import Finding, Report
from ..srcindex import AnalysisError, Index, raw_funcs

LICM = "xdsl/transforms/loop_invariant_code_motion.py"
CFH = "xdsl/transforms/control_flow_hoist.py"
UNROLL = "xdsl/transforms/scf_for_loop_unroll.py"
RF = "xdsl/transforms/scf_for_loop_range_folding.py"


def check(idx: Index, rep: Report, tier: str) -> str:
    r = rep.rule("C16.R1", "LICM moves an operation only if it is side-effect free, speculatable and hoistable (no terminator, no operand - of it or of a nested op - defined under the loop region)", floor=3)
    f = idx.func(LICM, "_move_loop_invariant_code")
    moves = [c for c in calls_in(f.node) if unparse(c.func) in ("op.detach", "builder.insert")]
    if len(moves) != 2:
        raise AnalysisError(f"{f.fq}: detach + insert not found")
    need = {"is_side_effect_free(op)", "is_speculatable(op)", "can_be_hoisted(op, region)"}
    for c in moves:
        have = {unparse(t) for t, p in guard_facts(f.node, c) if p}
        # the guard is written as `if not (a and b and c): continue`
        for t, p in guard_facts(f.node, c):
            if not p and isinstance(t, ast.BoolOp):
                pass
        miss = need - have
        inst = f"{f.fq}:{unparse(c.func)}"
        if miss:
            r.fail(inst, Finding("C16.R1", f.fq, "motion-unguarded:" + ",".join(sorted(miss)), f"`{unparse(c)}` is reachable without {sorted(miss)}: an operation with effects / that may trap / that depends on loop values is moved out of the loop", f"{LICM}:{c.lineno}"))
        else:
            r.ok(inst, f"{LICM}:{c.lineno} under {sorted(need)}")
    g = idx.func(LICM, "can_be_hoisted")
    t = unparse(g.node)
    tr = g.node.args.args[1].arg
    ok = ("if op.has_trait(IsTerminator):\n        return False" in t) and "for child in op.walk():" in t and "for operand in child.operands:" in t and f"if {tr}.is_ancestor(operand_owner):\n                return False" in t and "if op.is_ancestor(operand_owner):\n                continue" in t
    (r.ok(g.fq, f"{g.loc} terminators and ops with an operand (own or nested) defined under the loop are refused") if ok else r.fail(g.fq, Finding("C16.R1", g.fq, "hoistability-test", "can_be_hoisted must refuse terminators and every op (including nested ones) with an operand defined inside the loop region, ignoring values defined inside the op itself", g.loc)))
    # after a move, users inside the loop are reconsidered
    if "worklist.append(user)" in unparse(f.node) and "if op.parent_region() != region:\n            continue" in unparse(f.node):
        r.ok(f.fq + ":worklist", f"{f.loc} users of hoisted ops re-examined; already moved ops skipped")
    else:
        r.fail(f.fq + ":worklist", Finding("C16.R1", f.fq, "worklist", "LICM worklist bookkeeping changed", f.loc))

    r = rep.rule("C16.R2", "control-flow hoisting clones out of a conditional only when the conditional is speculatable and side-effect free, and never hoists terminators", floor=3)
    h = idx.func(CFH, "hoist_all")
    ht = unparse(h.node)
    if re.search(r"if o\.has_trait\(IsTerminator(, value_if_unregistered=False)?\):\s+continue", ht):
        r.ok(h.fq, f"{h.loc} terminators skipped")
    else:
        r.fail(h.fq, Finding("C16.R2", h.fq, "terminator-hoisted", "hoist_all must skip terminators", h.loc))
    n = 0
    for fn in raw_funcs(idx.module(CFH)):
        for c in calls_in(fn.node):
            if call_attr(c) == "hoist_all" and fn.name != "hoist_all":
                n += 1
                facts = {(unparse(t), p) for t, p in guard_facts(fn.node, c)}
                ok = ("is_speculatable(op)", True) in facts and ("is_side_effect_free(op)", True) in facts
                inst = f"{fn.fq}:hoist_all"
                if ok:
                    r.ok(inst, f"{CFH}:{c.lineno} under is_speculatable(op) and is_side_effect_free(op)")
                else:
                    r.fail(inst, Finding("C16.R2", fn.fq, "hoist-unguarded", "hoist_all is called without `is_speculatable(op) and is_side_effect_free(op)`: effectful or trapping code is executed unconditionally", f"{CFH}:{c.lineno}"))
    if n < 2:
        raise AnalysisError("hoist_all call sites not found")

    r = rep.rule("C16.R3", "unrolling computes the loop-carried values of the next iteration from the old mapping all at once (no in-place sequential update of a simultaneous assignment)", floor=1)
    f = idx.func(UNROLL, "UnrollLoopPattern.match_and_rewrite")
    bad = None
    for w in walk_local(f.node):
        if isinstance(w, ast.For):
            for s in w.body:
                if isinstance(s, ast.Assign) and isinstance(s.targets[0], ast.Subscript):
                    m = unparse(s.targets[0].value)
                    if any(isinstance(x, ast.Name) and x.id == m for x in ast.walk(s.value)) or any(unparse(getattr(c.func, "value", c.func)) == m for c in calls_in(s.value, local=False)):
                        bad = s
    if bad is not None:
        r.fail(f.fq, Finding("C16.R3", f.fq, "sequential-simultaneous-update", f"`{unparse(bad)}` updates the value mapping entry by entry while reading it: a yield that forwards one loop-carried argument to another slot (`scf.yield %y, %x`) reads the already overwritten value", f"{UNROLL}:{bad.lineno}"))
    else:
        r.ok(f.fq, f"{f.loc} next iteration values built as a tuple from the old mapping")
    t = unparse(f.node)
    if "for i in range(lb, ub, step):" in t and "rewriter.replace(op, (), iter_args)" in t or "range(lb, ub, step)" in t:
        r.ok(f.fq + ":trip", f"{f.loc} iterates range(lb, ub, step)")
    else:
        r.fail(f.fq + ":trip", Finding("C16.R3", f.fq, "trip-count", "the unrolled iterations are not range(lb, ub, step)", f.loc))

    r = rep.rule("C16.R4", "range folding re-checks before every fold that the induction variable has exactly one use", floor=1)
    f = idx.func(RF, "ScfForLoopRangeFolding.match_and_rewrite")
    cfg = CFG(f.node)
    ws = [w for w in walk_local(f.node) if isinstance(w, ast.While)]
    if len(ws) != 1:
        raise AnalysisError(f"{f.fq}: fold loop not found")
    w = ws[0]
    users = [c for c in calls_in(w) if unparse(c) == "next(iter(index.uses))"]
    tests = [n for n in walk_local(w) if isinstance(n, ast.If) and "index.has_one_use()" in unparse(n.test)]
    if not users:
        raise AnalysisError(f"{f.fq}: user extraction not found")
    tn = {cfg.node_of(t.test) for t in tests}
    head = cfg.node_of(w.test)
    per_iter = bool(tn) and all(cfg.path_avoiding(head, cfg.node_of(u), lambda n: n.id in tn, follow_exc=False) is None for u in users)
    if per_iter:
        r.ok(f.fq, f"{f.loc} has_one_use() tested in every iteration before the user is folded")
    else:
        r.fail(f.fq, Finding("C16.R4", f.fq, "single-use-not-rechecked", "the single-use test of the induction variable is not repeated inside the fold loop: after the first fold the uses of the folded op move to the induction variable, and a second add/mul is folded into the bounds while other users still expect the unscaled value", f.loc))
    if "if not is_foldable(user.operands[1], op):" in unparse(f.node) and "if not is_foldable(user.operands[0], op):" in unparse(f.node):
        r.ok(f.fq + ":invariant", f"{f.loc} the folded operand must be defined outside the loop")
    else:
        r.fail(f.fq + ":invariant", Finding("C16.R4", f.fq, "non-invariant-operand", "the other operand of the folded op is not checked to be loop-invariant", f.loc))

    r = rep.rule("C16.R5", "affine lowering uses the operand indices unchanged only when the access has no map (or the map is tested to be the identity); otherwise every result expression of the map is materialised", floor=1)
    f = idx.func("xdsl/transforms/lower_affine.py", "insert_affine_map_ops")
    fn = f.node
    mapn, dimsn = fn.args.args[0].arg, fn.args.args[1].arg
    direct = [st for st in walk_local(fn) if isinstance(st, (ast.Assign, ast.AnnAssign)) and st.value is not None and dimsn in {x.id for x in ast.walk(st.value) if isinstance(x, ast.Name)} and not any(call_attr(c) == "affine_expr_ops" for c in calls_in(st.value, local=False))]
    if not direct:
        r.ok(f.fq, f"{f.loc} indices are always computed from the map")
    from ..astutil import guards_of

    for st in direct:
        bad = None
        gs = guards_of(fn, st)
        if not gs:
            bad = "unconditionally"
        for t, pol in gs:
            disj = t.values if (pol and isinstance(t, ast.BoolOp) and isinstance(t.op, ast.Or)) else [t]
            for d in disj:
                dt = unparse(d)
                okd = (pol and dt == f"{mapn} is None") or ((not pol) and dt in (f"{mapn} is not None", mapn)) or (pol and dt == f"not {mapn}") or (pol and "is_identity" in dt) or (pol and re.search(r"== AffineMap\.identity\(", dt))
                if not okd:
                    bad = f"under `{dt}`"
        if bad:
            r.fail(f.fq, Finding("C16.R5", f.fq, "map-skipped", f"`{unparse(st)}` passes the operand indices through {bad}: a map that permutes or repeats dimensions, e.g. (d0, d1) -> (d1, d0), is lowered as if it were the identity (a transposed access becomes a straight one)", f"{f.module.relpath}:{st.lineno}"))
        else:
            r.ok(f.fq, f"{f.module.relpath}:{st.lineno} operand indices used directly only without a map")
    loops = [w for w in walk_local(fn) if isinstance(w, ast.For) and unparse(w.iter) == f"{mapn}.data.results" and any(call_attr(c) == "affine_expr_ops" for c in calls_in(w))]
    if loops:
        r.ok(f.fq + ":results", f"{f.loc} one affine_expr_ops per result expression")
    else:
        raise AnalysisError(f"{f.fq}: loop over {mapn}.data.results with affine_expr_ops not found")

    return (
        "Guarded-action rules on the two code-motion transformations (LICM, control-flow hoist) and two structural rules on "
        "loop unrolling (simultaneous update) and range folding (per-iteration single-use test). scf->cf conversion, affine "
        "lowering, flattening, desymref and all value-level equivalences are explicitly not decided."
    )
