"""C16 — lowerings preserve results (narrow claim): guards of the code-motion transformations,
simultaneous update of loop-carried values when unrolling, per-iteration single-use test of range folding."""

from __future__ import annotations

import ast
import re

from ..astutil import call_attr, calls_in, canon_locals, dispatch_tables, guard_facts, norm_facts, text_facts, unparse, walk_local
from ..cfg import CFG
from ..dataflow import resolved_text
from ..report import Finding, Report
from ..srcindex import AnalysisError, Index, raw_funcs

LICM = "xdsl/transforms/loop_invariant_code_motion.py"
CFH = "xdsl/transforms/control_flow_hoist.py"
UNROLL = "xdsl/transforms/scf_for_loop_unroll.py"
RF = "xdsl/transforms/scf_for_loop_range_folding.py"


def cfg_after(cfg: CFG, moves: list, c: ast.Call) -> bool:
    """`c` can run after one of the move calls"""
    nc = cfg.node_of(c)
    return any(nc in cfg.reachable(cfg.node_of(m)) for m in moves)


def check(idx: Index, rep: Report, tier: str) -> str:
    r = rep.rule("C16.R1", "LICM moves an operation only if it is side-effect free, speculatable and hoistable (no terminator, no operand - of it or of a nested op - defined under the loop region)", floor=3)
    f = idx.func(LICM, "_move_loop_invariant_code")
    p_region, p_builder = f.node.args.args[0].arg, f.node.args.args[1].arg
    ins_ = [c for c in calls_in(f.node) if unparse(c.func) == f"{p_builder}.insert" and len(c.args) == 1 and isinstance(c.args[0], ast.Name)]
    if len(ins_) != 1:
        raise AnalysisError(f"{f.fq}: detach + insert not found")
    opv = ins_[0].args[0].id  # the operation being moved, whatever the local is called
    moves = [c for c in calls_in(f.node) if unparse(c.func) in (f"{opv}.detach", f"{p_builder}.insert")]
    if len(moves) != 2:
        raise AnalysisError(f"{f.fq}: detach + insert not found")
    wl_defs = [unparse(s_.value.func.value) for s_ in walk_local(f.node) if isinstance(s_, ast.Assign) and len(s_.targets) == 1 and unparse(s_.targets[0]) == opv and isinstance(s_.value, ast.Call) and call_attr(s_.value) in ("popleft", "pop") and isinstance(s_.value.func, ast.Attribute)]
    wl = wl_defs[0] if wl_defs else "worklist"
    need = {f"is_side_effect_free({opv})", f"is_speculatable({opv})", f"can_be_hoisted({opv}, {p_region})"}
    # what is known on every feasible path of the loop body that reaches the move (path summaries: flags set by an inlined
    # predicate helper, guard clauses and compound conditions read alike)
    from ..paths import enum_paths as _ep16, loops_of as _lo16

    path_have: dict[int, set[str]] = {}
    for lp_ in _lo16(_ep16(f.node)):
        for pth in lp_.body:
            if not pth.feasible():
                continue
            for k_, e_ in enumerate(pth.effects):
                if isinstance(e_, ast.Expr) and isinstance(e_.value, ast.Call) and any(e_.value is m_ for m_ in moves):
                    recv = pth.res(ast.Name(id=opv, ctx=ast.Load()), k_)
                    pos = {re.sub(r"^bool\((.*)\)$", r"\1", t_).replace(recv, opv) for t_, p_ in pth.nfacts() if p_}
                    cur = path_have.get(id(e_.value))
                    path_have[id(e_.value)] = pos if cur is None else (cur & pos)
    for c in moves:
        have = {unparse(t) for t, p in guard_facts(f.node, c) if p} | path_have.get(id(c), set())
        miss = need - have
        inst = f"{f.fq}:{unparse(c.func)}"
        if miss:
            r.fail(inst, Finding("C16.R1", f.fq, "motion-unguarded:" + ",".join(sorted(miss)), f"`{unparse(c)}` is reachable without {sorted(miss)}: an operation with effects / that may trap / that depends on loop values is moved out of the loop", f"{LICM}:{c.lineno}"))
        else:
            r.ok(inst, f"{LICM}:{c.lineno} under {sorted(need)}")
    g = idx.func(LICM, "can_be_hoisted")
    from ..paths import refusals

    opn, tr = g.node.args.args[0].arg, g.node.args.args[1].arg
    refs = refusals(g.node)
    if refs is None:
        raise AnalysisError(f"{g.fq}: the ways this predicate answers False could not be summarised")
    term = any(ch == () and ((f"{opn}.has_trait(IsTerminator)", True) in fs or (f"{opn}.has_trait(IsTerminator())", True) in fs) for ch, fs in refs)
    dep = any(ch == (("_v0", f"{opn}.walk()"), ("_v1", "_v0.operands")) and (f"{tr}.is_ancestor(_v1.owner)", True) in fs and fs - {(f"{tr}.is_ancestor(_v1.owner)", True)} <= {(f"{opn}.is_ancestor(_v1.owner)", False), (f"{opn}.has_trait(IsTerminator)", False)} for ch, fs in refs)
    ok = term and dep
    (r.ok(g.fq, f"{g.loc} terminators and ops with an operand (own or nested) defined under the loop are refused") if ok else r.fail(g.fq, Finding("C16.R1", g.fq, "hoistability-test", f"can_be_hoisted must refuse terminators and every op (including nested ones) with an operand defined inside the loop region, ignoring values defined inside the op itself (refusals found: {[(c_, sorted(f_)) for c_, f_ in refs][:3]})", g.loc)))
    # after a move, users inside the loop are reconsidered; operations already moved out are skipped
    from ..setbuild import describe as describe_set

    fcfg = CFG(f.node)
    reg = f.node.args.args[0].arg
    requeue = False
    for c in calls_in(f.node):
        if call_attr(c) in ("append", "extend") and unparse(c.func.value) == wl and c.args and cfg_after(fcfg, moves, c):  # type: ignore[attr-defined]
            if call_attr(c) == "append":
                facts = {(t_, p_) for t_, p_ in norm_facts(text_facts(f.node, c))}
                ut = resolved_text(fcfg, c.args[0], fcfg.node_of(c))
                if re.fullmatch(r"\w+\.operation", ut) and ((f"{ut}.parent_region() == {reg}", True) in facts):
                    requeue = True
            else:
                d_ = describe_set(f.node, fcfg, c.args[0], fcfg.node_of(c))
                if not d_.unknown and len(d_.adds) == 1 and re.fullmatch(r"\w+\.operation", d_.adds[0].elem) and any(re.fullmatch(rf"\w+\.operation\.parent_region\(\) == {reg}", t_) and p_ for t_, p_ in d_.adds[0].facts) and [it for _, it in d_.adds[0].iters] == [f"{opv}.results", d_.adds[0].iters[0][0] + ".uses"]:
                    requeue = True
    skips = any((f"{opv}.parent_region() == {reg}", False) in norm_facts(text_facts(f.node, n_)) for n_ in walk_local(f.node) if isinstance(n_, ast.Continue)) or all((f"{opv}.parent_region() == {reg}", True) in norm_facts(text_facts(f.node, c)) for c in moves)
    skips = skips or all(f"{opv}.parent_region() == {reg}" in path_have.get(id(c), set()) for c in moves)
    if requeue and skips:
        r.ok(f.fq + ":worklist", f"{f.loc} users of hoisted ops re-examined; already moved ops skipped")
    else:
        r.fail(f.fq + ":worklist", Finding("C16.R1", f.fq, "worklist", f"LICM worklist bookkeeping: users of a hoisted operation inside the loop re-queued: {requeue}; operations no longer in the loop region skipped: {skips}", f.loc))

    r = rep.rule("C16.R2", "control-flow hoisting clones out of a conditional only when the conditional is speculatable and side-effect free, and never hoists terminators", floor=3)
    h = idx.func(CFH, "hoist_all")
    ht = unparse(h.node)
    # every clone of a hoisted op happens under `not <op>.has_trait(IsTerminator...)`
    clones = [c for c in calls_in(h.node) if call_attr(c) == "clone" and isinstance(c.func.value, ast.Name)]  # type: ignore[attr-defined]
    if not clones:
        raise AnalysisError(f"{h.fq}: the clone of the hoisted operation was not found")
    if all(any(not p_ and re.fullmatch(rf"{re.escape(c.func.value.id)}\.has_trait\(IsTerminator(, value_if_unregistered=False)?\)", t_) for t_, p_ in norm_facts(text_facts(h.node, c))) for c in clones):  # type: ignore[attr-defined]
        r.ok(h.fq, f"{h.loc} terminators skipped")
    else:
        r.fail(h.fq, Finding("C16.R2", h.fq, "terminator-hoisted", "hoist_all must skip terminators", h.loc))
    n = 0
    for fn in raw_funcs(idx.module(CFH)):
        for c in calls_in(fn.node):
            if call_attr(c) == "hoist_all" and fn.name != "hoist_all":
                n += 1
                facts = {(unparse(t), p) for t, p in guard_facts(fn.node, c)}
                ok = ("is_speculatable(op)", True) in facts and ("is_side_effect_free(op)", True) in facts
                inst = f"{fn.fq}:hoist_all"
                if ok:
                    r.ok(inst, f"{CFH}:{c.lineno} under is_speculatable(op) and is_side_effect_free(op)")
                else:
                    r.fail(inst, Finding("C16.R2", fn.fq, "hoist-unguarded", "hoist_all is called without `is_speculatable(op) and is_side_effect_free(op)`: effectful or trapping code is executed unconditionally", f"{CFH}:{c.lineno}"))
    if n < 2:
        raise AnalysisError("hoist_all call sites not found")

    r = rep.rule("C16.R3", "unrolling computes the loop-carried values of the next iteration from the old mapping all at once (no in-place sequential update of a simultaneous assignment)", floor=1)
    f = idx.func(UNROLL, "UnrollLoopPattern.match_and_rewrite")
    bad = None
    for w in walk_local(f.node):
        if isinstance(w, ast.For):
            for s in w.body:
                if isinstance(s, ast.Assign) and isinstance(s.targets[0], ast.Subscript):
                    m = unparse(s.targets[0].value)
                    if any(isinstance(x, ast.Name) and x.id == m for x in ast.walk(s.value)) or any(unparse(getattr(c.func, "value", c.func)) == m for c in calls_in(s.value, local=False)):
                        bad = s
    if bad is not None:
        r.fail(f.fq, Finding("C16.R3", f.fq, "sequential-simultaneous-update", f"`{unparse(bad)}` updates the value mapping entry by entry while reading it: a yield that forwards one loop-carried argument to another slot (`scf.yield %y, %x`) reads the already overwritten value", f"{UNROLL}:{bad.lineno}"))
    else:
        r.ok(f.fq, f"{f.loc} next iteration values built as a tuple from the old mapping")
    # the unrolled iterations: a loop over range(A, B, C) whose bounds resolve to the constants feeding op.lb / op.ub / op.step
    ucfg = CFG(f.node)
    opn_u = f.node.args.args[1].arg

    def _bound_of(e: ast.expr, at: int) -> str | None:
        t_ = resolved_text(ucfg, e, at)
        m_ = re.fullmatch(rf"\(?(?:\w+ := )?{re.escape(opn_u)}\.(lb|ub|step)\.owner\)?\.value\.value\.data", t_)
        if m_:
            return m_.group(1)
        # through a walrus-bound owner local: <owner local>.value.value.data with <owner local> := op.<b>.owner
        m2 = re.fullmatch(r"(\w+)\.value\.value\.data", t_)
        if m2:
            for n_ in ast.walk(f.node):
                if isinstance(n_, ast.NamedExpr) and n_.target.id == m2.group(1) or isinstance(n_, ast.Assign) and len(n_.targets) == 1 and unparse(n_.targets[0]) == m2.group(1):
                    m3 = re.fullmatch(rf"{re.escape(opn_u)}\.(lb|ub|step)\.owner", unparse(n_.value))
                    if m3:
                        return m3.group(1)
        return None

    trip_ok = False
    for w in walk_local(f.node):
        if isinstance(w, ast.For) and isinstance(w.iter, ast.Call) and unparse(w.iter.func) == "range" and len(w.iter.args) == 3:
            at_ = ucfg.node_of(w)
            if [_bound_of(a_, at_) for a_ in w.iter.args] == ["lb", "ub", "step"]:
                trip_ok = True
    if trip_ok:
        r.ok(f.fq + ":trip", f"{f.loc} iterates range(lb, ub, step)")
    else:
        r.fail(f.fq + ":trip", Finding("C16.R3", f.fq, "trip-count", "the unrolled iterations are not range(lb, ub, step)", f.loc))

    r = rep.rule("C16.R4", "range folding re-checks before every fold that the induction variable has exactly one use", floor=1)
    f = idx.func(RF, "ScfForLoopRangeFolding.match_and_rewrite")
    cfg = CFG(f.node)
    ivs = [n.targets[0].id for n in walk_local(f.node) if isinstance(n, ast.Assign) and isinstance(n.targets[0], ast.Name) and re.fullmatch(r"\w+\.body\.block\.args\[0\]|\w+\.body\.blocks?\[0\]\.args\[0\]|\w+\.body\.first_block\.args\[0\]", unparse(n.value))]
    if len(ivs) != 1:
        raise AnalysisError(f"{f.fq}: induction variable binding not found")
    iv = ivs[0]
    folds = [c for c in calls_in(f.node) if unparse(c.func) in ("rewriter.replace", "rewriter.replace_op", "rewriter.replace_matched_op", "rewriter.replace_all_uses_with") and any(isinstance(x, ast.Name) and x.id == iv for a_ in c.args[1:] for x in ast.walk(a_))]
    if not folds:
        raise AnalysisError(f"{f.fq}: the fold (replacement of the user's result by the induction variable) not found")
    from ..astutil import conjuncts

    def establishes(n: int, m: int, lab) -> bool:
        """the edge n -> m is taken only when the induction variable has exactly one use"""
        a_ = cfg.nodes[n].ast
        if a_ is None or lab not in ("T", "F") or not isinstance(a_, ast.expr):
            return False
        for atom, truth in conjuncts(a_, lab == "T"):
            t_ = unparse(atom.value if isinstance(atom, ast.NamedExpr) else atom)
            if truth and t_ == f"{iv}.has_one_use()":
                return True
            if truth and re.fullmatch(rf"len\({iv}\.uses\) == 1|{iv}\.uses\.get_length\(\) == 1|1 == len\({iv}\.uses\)", t_):
                return True
            if (not truth) and re.fullmatch(rf"len\({iv}\.uses\) != 1|{iv}\.uses\.get_length\(\) != 1", t_):
                return True
            mm = re.fullmatch(rf"(?:\(?\w+ := )?{iv}\.get_user_of_unique_use\(\)\)? is (not )?None", t_)
            if mm and (truth == bool(mm.group(1))):
                return True
        return False

    fn_ = {cfg.node_of(c) for c in folds}
    ok_edge = lambda n, m, lab: not establishes(n, m, lab)
    per_iter = all(cfg.path_avoiding(cfg.entry, x, lambda n: False, follow_exc=False, edge_ok=ok_edge) is None for x in fn_)
    for x in fn_:
        for m_, lab_ in cfg.succ[x]:
            if lab_ in ("exc", "assert") or not ok_edge(x, m_, lab_):
                continue
            if any(m_ == y or cfg.path_avoiding(m_, y, lambda n: False, follow_exc=False, edge_ok=ok_edge) is not None for y in fn_):
                per_iter = False
    if per_iter:
        r.ok(f.fq, f"{f.loc} has_one_use() tested in every iteration before the user is folded")
    else:
        r.fail(f.fq, Finding("C16.R4", f.fq, "single-use-not-rechecked", "the single-use test of the induction variable is not repeated inside the fold loop: after the first fold the uses of the folded op move to the induction variable, and a second add/mul is folded into the bounds while other users still expect the unscaled value", f.loc))
    # a fold is committed to the loop: on every path, the bounds of the loop are written in the same iteration before the
    # user is replaced by the induction variable, or on every path from that replacement to the end of the function
    opn4 = f.node.args.args[1].arg
    bstores = {cfg.node_of(st) for st in walk_local(f.node) if isinstance(st, ast.Assign) and any(re.match(rf"{opn4}\.operands\[", unparse(t)) or re.fullmatch(rf"{opn4}\.(lb|ub|step)", unparse(t)) for t_ in st.targets for t in (t_.elts if isinstance(t_, ast.Tuple) else [t_]))}
    heads = [cfg.node_of(w.test) for w in walk_local(f.node) if isinstance(w, ast.While)] + [cfg.node_of(w) for w in walk_local(f.node) if isinstance(w, ast.For)]
    if bstores and heads:
        for x in fn_:
            before = all(cfg.path_avoiding(h_, x, lambda n: n.id in bstores, follow_exc=False) is None for h_ in heads if cfg.path_avoiding(h_, x, lambda n: False, follow_exc=False) is not None)
            after = cfg.path_avoiding(x, cfg.exit, lambda n: n.id in bstores, follow_exc=False)
            if before or after is None:
                r.ok(f.fq + ":commit", f"{f.loc} the folded bounds are written to the loop on every path around the replacement of the user")
            else:
                r.fail(f.fq + ":commit", Finding("C16.R4", f.fq, "fold-not-committed", "a path replaces the user of the induction variable by the induction variable itself and then leaves the function without writing the folded bounds to the loop (" + " -> ".join(cfg.describe(after)[-3:]) + "): the body now sees `iv` where it computed `iv + c` / `iv * c`, with the old range", f.loc))
    # the value folded into the bounds is tested to be loop-invariant (is_foldable) on the path that uses it
    builds = [c for c in calls_in(f.node) if call_attr(c) in ("AddiOp", "MuliOp") and len(c.args) == 2 and re.fullmatch(rf"{opn4}\.(lb|ub|step)", unparse(c.args[0]))]
    if not builds:
        raise AnalysisError(f"{f.fq}: construction of the new loop bounds not found")
    bad_inv = None
    for c in builds:
        x = unparse(c.args[1])
        xs = {x, resolved_text(cfg, c.args[1], cfg.node_of(c))}
        nf4 = norm_facts(text_facts(f.node, c))
        ok_here = any(p_ and any(t_ == f"is_foldable({x_}, {opn4})" for x_ in xs) for t_, p_ in nf4)
        if not ok_here and isinstance(c.args[1], ast.Name):
            # every definition that reaches here was tested where it was made (`if not is_foldable(v, op): return; x = v`)
            from ..dataflow import reaching_defs as _rd16

            ds = [(nid_, v_) for nid_, v_ in _rd16(cfg, x, cfg.node_of(c)) if v_ is not None]
            ok_here = bool(ds) and all(any(p_ and t_ in (f"is_foldable({unparse(v_)}, {opn4})", f"is_foldable({x}, {opn4})") for t_, p_ in norm_facts(text_facts(f.node, cfg.nodes[nid_].ast))) for nid_, v_ in ds)
        if not ok_here:
            bad_inv = (c, x, [t_ for t_, _ in nf4 if "is_foldable" in t_])
    if bad_inv is None:
        r.ok(f.fq + ":invariant", f"{f.loc} the folded operand must be defined outside the loop")
    elif bad_inv[2]:
        raise AnalysisError(f"{f.fq}: `{unparse(bad_inv[0])[:60]}` uses `{bad_inv[1]}` while the invariance test is on {bad_inv[2][:2]}")
    else:
        r.fail(f.fq + ":invariant", Finding("C16.R4", f.fq, "non-invariant-operand", f"`{unparse(bad_inv[0])[:70]}` folds `{bad_inv[1]}` into the loop bounds without is_foldable({bad_inv[1]}, {opn4}): a value computed inside the loop body would be used before the loop", f.loc))

    r = rep.rule("C16.R5", "affine lowering uses the operand indices unchanged only when the access has no map (or the map is tested to be the identity); otherwise every result expression of the map is materialised", floor=1)
    f = idx.func("xdsl/transforms/lower_affine.py", "insert_affine_map_ops")
    fn = f.node
    mapn, dimsn = fn.args.args[0].arg, fn.args.args[1].arg
    direct = [st for st in walk_local(fn) if isinstance(st, (ast.Assign, ast.AnnAssign)) and st.value is not None and dimsn in {x.id for x in ast.walk(st.value) if isinstance(x, ast.Name)} and not any(call_attr(c) == "affine_expr_ops" for c in calls_in(st.value, local=False))]
    if not direct:
        r.ok(f.fq, f"{f.loc} indices are always computed from the map")
    from ..astutil import guards_of

    for st in direct:
        bad = None
        gs = guards_of(fn, st)
        if not gs:
            bad = "unconditionally"
        for t, pol in gs:
            while isinstance(t, ast.UnaryOp) and isinstance(t.op, ast.Not):
                t, pol = t.operand, not pol
            # a disjunction of alternatives: `a or b` taken, or `a and b` refused (not a or not b)
            if isinstance(t, ast.BoolOp) and ((pol and isinstance(t.op, ast.Or)) or ((not pol) and isinstance(t.op, ast.And))):
                disj = [(v_, pol) for v_ in t.values]
            else:
                disj = [(t, pol)]
            for d, pol in disj:
                while isinstance(d, ast.UnaryOp) and isinstance(d.op, ast.Not):
                    d, pol = d.operand, not pol
                dt = unparse(d)
                okd = (pol and dt == f"{mapn} is None") or ((not pol) and dt in (f"{mapn} is not None", mapn)) or (pol and dt == f"not {mapn}") or (pol and "is_identity" in dt) or (pol and re.search(r"== AffineMap\.identity\(", dt))
                if not okd:
                    bad = f"under `{dt}`"
        if bad:
            r.fail(f.fq, Finding("C16.R5", f.fq, "map-skipped", f"`{unparse(st)}` passes the operand indices through {bad}: a map that permutes or repeats dimensions, e.g. (d0, d1) -> (d1, d0), is lowered as if it were the identity (a transposed access becomes a straight one)", f"{f.module.relpath}:{st.lineno}"))
        else:
            r.ok(f.fq, f"{f.module.relpath}:{st.lineno} operand indices used directly only without a map")
    loops = [w for w in walk_local(fn) if isinstance(w, ast.For) and unparse(w.iter) == f"{mapn}.data.results" and any(call_attr(c) == "affine_expr_ops" for c in calls_in(w))]
    if loops:
        r.ok(f.fq + ":results", f"{f.loc} one affine_expr_ops per result expression")
    else:
        raise AnalysisError(f"{f.fq}: loop over {mapn}.data.results with affine_expr_ops not found")

    # ---- R6: desymref forwards every read to the first one only when all reads precede all writes
    r = rep.rule("C16.R6", "symref elimination forwards all fetches of a symbol to the first fetch only when there is no update or the last fetch precedes the first update", floor=1)
    f = idx.func("xdsl/transforms/desymref.py", "Desymrefier.prune_uses_without_definitions")
    fwd = []
    for w in walk_local(f.node):
        if isinstance(w, ast.For) and isinstance(w.iter, ast.Subscript) and isinstance(w.iter.value, ast.Name) and unparse(w.iter.slice) == "1:":
            seq = w.iter.value.id
            if any(call_attr(c) in ("replace_op", "replace_all_uses_with", "replace_by") and f"{seq}[0]" in unparse(c) for c in calls_in(w)):
                fwd.append((w, seq))
    if not fwd:
        raise AnalysisError(f"{f.fq}: forwarding of the later fetches to the first one not found")
    for w, reads in fwd:
        back = {unparse(n.value): n.targets[0].id for n in walk_local(f.node) if isinstance(n, ast.Assign) and isinstance(n.targets[0], ast.Name) and isinstance(n.value, ast.ListComp)}

        def _back(t_: str) -> str:
            for k_, v_ in back.items():
                t_ = t_.replace(k_, v_)
            return t_

        nf = {(_back(t_), p_) for t_, p_ in norm_facts(text_facts(f.node, w))}
        # the other sequence: the updates of the same symbol (the list comprehension over UpdateOp)
        wr = [n.targets[0].id for n in walk_local(f.node) if isinstance(n, ast.Assign) and isinstance(n.targets[0], ast.Name) and "UpdateOp" in unparse(n.value) and isinstance(n.value, ast.ListComp)]
        if len(wr) != 1:
            raise AnalysisError(f"{f.fq}: list of the updates of the symbol not found")
        writes = wr[0]
        inst = f"{f.fq}:forward@{w.lineno}"
        if (f"len({writes}) == 0", True) in nf or (writes, False) in nf:
            r.ok(inst, f"{f.module.relpath}:{w.lineno} no update of the symbol in the block")
            continue
        cmpf = [(t_, p_) for t_, p_ in nf if "get_operation_index" in t_ and re.search(r" (<|>|<=|>=) ", t_)]
        good = {(f"block.get_operation_index({reads}[-1]) < block.get_operation_index({writes}[0])", True), (f"block.get_operation_index({writes}[0]) > block.get_operation_index({reads}[-1])", True),
                (f"block.get_operation_index({reads}[-1]) >= block.get_operation_index({writes}[0])", False), (f"block.get_operation_index({writes}[0]) <= block.get_operation_index({reads}[-1])", False)}
        if set(cmpf) & good:
            r.ok(inst, f"{f.module.relpath}:{w.lineno} under `last fetch before first update`")
        elif cmpf and all(re.fullmatch(rf"block\.get_operation_index\(({reads}|{writes})\[(0|-1)\]\) (<|>|<=|>=) block\.get_operation_index\(({reads}|{writes})\[(0|-1)\]\)", t_) for t_, _ in cmpf):
            r.fail(inst, Finding("C16.R6", f.fq, "disjointness-test", f"the later fetches of a symbol are forwarded to the first fetch under `{cmpf[0][0]}` ({cmpf[0][1]}), which does not say that the *last* fetch precedes the *first* update: in fetch / update / fetch the second fetch receives the value from before the update", f"{f.module.relpath}:{w.lineno}"))
        else:
            raise AnalysisError(f"{f.fq}: guard of the forwarding loop at line {w.lineno} not understood: {sorted(nf)[:4]}")

    # ---- R7: operation positions are not used after the block was edited
    r = rep.rule("C16.R7", "in desymref, a position obtained from Block.get_operation_index is not used after an operation of the block was erased or replaced (positions shift): it is recomputed after every edit", floor=1)
    from ..srcindex import raw_funcs as _raw

    MUT = {"replace_op", "erase_op", "erase_matched_op", "replace_matched_op", "insert_op", "insert_op_before", "insert_op_after", "detach_op", "erase"}
    n_pos = 0
    for g in _raw(idx.module("xdsl/transforms/desymref.py")):
        pos_defs: dict[str, list[ast.AST]] = {}
        for st in walk_local(g.node):
            if isinstance(st, (ast.Assign, ast.AnnAssign)) and st.value is not None and any(isinstance(c_, ast.Call) and call_attr(c_) == "get_operation_index" for c_ in ast.walk(st.value)):
                for t_ in (st.targets if isinstance(st, ast.Assign) else [st.target]):
                    if isinstance(t_, ast.Name):
                        pos_defs.setdefault(t_.id, []).append(st)
        if not pos_defs:
            continue
        gcfg = CFG(g.node)
        muts = [gcfg.node_of(c_) for c_ in calls_in(g.node) if call_attr(c_) in MUT]
        for nm, defs in pos_defs.items():
            n_pos += 1
            dn = {gcfg.node_of(d_) for d_ in defs}
            stale = None
            for u in walk_local(g.node):
                if isinstance(u, ast.Name) and u.id == nm and isinstance(u.ctx, ast.Load):
                    try:
                        un = gcfg.node_of(u)
                    except AnalysisError:
                        continue
                    for m_ in muts:
                        if m_ == un or gcfg.path_avoiding(m_, un, lambda n: n.id in dn, follow_exc=False) is not None:
                            stale = (u, m_)
                            break
                if stale:
                    break
            inst = f"{g.fq}:{nm}"
            if stale:
                u, m_ = stale
                r.fail(inst, Finding("C16.R7", g.fq, f"stale-position:{nm}", f"`{nm}` holds block positions computed at line {defs[0].lineno} and is used at line {u.lineno} after `{gcfg.nodes[m_].text()[:60]}` edited the block without `{nm}` being recomputed: once an earlier read has been erased the later operations have moved up, so a write that precedes a read can be skipped and the read receives the value of an older write", f"{g.module.relpath}:{u.lineno}"))
            else:
                r.ok(inst, f"{g.module.relpath}:{defs[0].lineno} `{nm}` recomputed before every use that follows an edit")
    if n_pos == 0:
        raise AnalysisError("desymref: no position computed with get_operation_index found")

    # ---- R9: range folding treats the two operands of the folded operation symmetrically: only commutative operations qualify
    r = rep.rule("C16.R9", "every operation class whose use of the induction variable is folded into the loop bounds is commutative (the transformation takes 'the other operand' whichever side the induction variable is on)", floor=2)
    f = idx.func(RF, "ScfForLoopRangeFolding.match_and_rewrite")
    accepted: set[str] = set()
    for c in calls_in(f.node):
        if isinstance(c.func, ast.Name) and c.func.id == "isinstance" and len(c.args) == 2:
            cl = c.args[1]
            parts = []
            stack = [cl]
            while stack:
                x = stack.pop()
                if isinstance(x, ast.BinOp) and isinstance(x.op, ast.BitOr):
                    stack += [x.left, x.right]
                elif isinstance(x, ast.Tuple):
                    stack += list(x.elts)
                else:
                    parts.append(unparse(x))
            if all(p_.startswith("arith.") for p_ in parts):
                accepted |= {p_.split(".")[1] for p_ in parts}
    for _s, tbl_, _d, _n in dispatch_tables(f.node):
        for key_ in tbl_:
            m_ = re.fullmatch(r"pattern:arith\.(\w+)\(\)", key_)
            if m_:
                accepted.add(m_.group(1))
    if len(accepted) < 2:
        raise AnalysisError(f"{f.fq}: the operation classes accepted for folding were not found ({sorted(accepted)})")
    arith_mod = idx.module("xdsl/dialects/arith.py")
    # position-sensitive handling: the operand position of the induction variable is tested and the non-commutative class is
    # restricted to one position
    for cn in sorted(accepted):
        cls_ = arith_mod.classes.get(cn)
        if cls_ is None:
            raise AnalysisError(f"arith.{cn} not found")
        def _declares(c_) -> bool:
            return any(isinstance(st_, (ast.Assign, ast.AnnAssign)) and unparse(st_.targets[0] if isinstance(st_, ast.Assign) else st_.target) == "traits" and st_.value is not None and "Commutative()" in unparse(st_.value) for st_ in c_.node.body)

        commutative = _declares(cls_) or any(idx.is_subclass(cls_, b_) and _declares(arith_mod.classes[b_]) for b_ in arith_mod.classes if b_ != cn)
        inst = f"{f.fq}:{cn}"
        if commutative:
            r.ok(inst, f"{f.loc} arith.{cn} is commutative")
        else:
            r.fail(inst, Finding("C16.R9", f.fq, f"non-commutative-folded:{cn}", f"arith.{cn} is accepted as the single user of the induction variable and folded into the bounds with 'the other operand', but it is not commutative: `{cn.lower()[:-2]} %c, %i` is folded as if it were `{cn.lower()[:-2]} %i, %c`", f.loc))

    # ---- R8: `xs[count - 1]` where the count may be 0 selects the LAST element (negative indices wrap)
    r = rep.rule("C16.R8", "a subscript `xs[n - 1]` whose n is a count that can be 0 (bisect / len / count / index) is reached only where n > 0 was established: otherwise the 'no preceding element' case silently becomes 'the last element'", floor=None)
    COUNTS = ("bisect_left", "bisect_right", "bisect", "len", "count", "index", "sum")
    n_sub = 0
    for rel in ("xdsl/transforms/desymref.py", LICM, CFH, UNROLL, RF):
        for g in _raw(idx.module(rel)):
            gcfg = None
            for sub in [x for x in ast.walk(g.node) if isinstance(x, ast.Subscript) and isinstance(x.slice, ast.BinOp) and isinstance(x.slice.op, ast.Sub) and isinstance(x.slice.right, ast.Constant) and x.slice.right.value == 1]:
                left = sub.slice.left
                if gcfg is None:
                    gcfg = CFG(g.node)
                try:
                    lt = resolved_text(gcfg, left, gcfg.node_of(sub))
                except AnalysisError:
                    continue
                try:
                    le = ast.parse(lt, mode="eval").body
                except SyntaxError:
                    continue
                if not (isinstance(le, ast.Call) and (call_attr(le) in COUNTS or (isinstance(le.func, ast.Name) and le.func.id in COUNTS))):
                    continue
                n_sub += 1
                nm = unparse(left)
                facts = {(t_, p_) for t_, p_ in norm_facts(text_facts(g.node, sub))}
                guarded = any((t_ in (f"{nm} > 0", f"{nm} != 0", nm, f"{nm} >= 1", f"0 < {nm}", f"1 <= {nm}") and p_) or (t_ in (f"{nm} == 0", f"{nm} < 1", f"{nm} <= 0") and not p_) for t_, p_ in facts)
                inst = f"{g.fq}:{unparse(sub)}"
                if guarded:
                    r.ok(inst, f"{rel}:{sub.lineno} `{unparse(sub)}` under {nm} > 0")
                else:
                    r.fail(inst, Finding("C16.R8", g.fq, f"count-wraparound:{canon_locals(g.node, sub)}", f"`{unparse(sub)}` with `{nm}` = `{lt[:60]}`, which is 0 when nothing precedes: the subscript is then -1, the LAST element - a read that has no earlier write in the block is forwarded the value of the block's last write", f"{rel}:{sub.lineno}"))
    r.ok("self-check", f"{n_sub} subscripts of the form xs[count - 1] in the anchored transformations")

    return (
        "Guarded-action rules on the two code-motion transformations (LICM, control-flow hoist) and two structural rules on "
        "loop unrolling (simultaneous update) and range folding (per-iteration single-use test). scf->cf conversion, affine "
        "lowering, flattening, desymref and all value-level equivalences are explicitly not decided."
    )
