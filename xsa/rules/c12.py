"""C12 — Worklist, union-find, scoped dictionary: structural clauses (see DESIGN.md §2 C12)."""

from __future__ import annotations

import ast
import re

from ..astutil import attr_chain, call_attr, calls_in, conjuncts, guard_facts, unparse, walk_local
from ..cfg import CFG
from ..dataflow import ifexp_cases, params_of, reaching_defs, resolved_text
from ..report import Finding, Report
from ..srcindex import AnalysisError, Index

WL = "xdsl/utils/worklist.py"
DS = "xdsl/utils/disjoint_set.py"
SD = "xdsl/utils/scoped_dict.py"


def _subscript_stores(fn: ast.AST, base: str):
    """Statements `self.<base>[k] = v` inside fn -> (stmt, k, v)."""
    out = []
    for n in walk_local(fn):
        if isinstance(n, ast.Assign) and len(n.targets) == 1:
            t = n.targets[0]
            if isinstance(t, ast.Subscript) and attr_chain(t.value) == f"self.{base}":
                out.append((n, t.slice, n.value))
    return out


def _dels(fn: ast.AST, base: str):
    out = []
    for n in walk_local(fn):
        if isinstance(n, ast.Delete):
            for t in n.targets:
                if isinstance(t, ast.Subscript) and attr_chain(t.value) == f"self.{base}":
                    out.append((n, t.slice))
        elif isinstance(n, ast.Call) and call_attr(n) == "pop" and attr_chain(n.func.value) == f"self.{base}" and n.args:  # type: ignore[attr-defined]
            out.append((n, n.args[0]))
    return out


def _method_calls(fn: ast.AST, base: str, meth: str):
    return [
        c
        for c in calls_in(fn)
        if isinstance(c.func, ast.Attribute) and c.func.attr == meth and attr_chain(c.func.value) == f"self.{base}"
    ]


def check_worklist(idx: Index, rep: Report) -> None:
    cls = idx.cls(WL, "Worklist")
    fields = {n for n, _, _ in cls.ann_fields()}
    if not {"_stack", "_map"} <= fields:
        raise AnalysisError("Worklist no longer has the _stack/_map representation the rules are written for")
    mi = cls.module
    if "_MISSING" not in mi.assigns:
        raise AnalysisError("Worklist tombstone sentinel _MISSING not found")

    # ---- R1 push: map entry = index at which the item is stored; guarded by absence; same item
    r1 = rep.rule("C12.R1", "Worklist.push stores _map[item] = the index at which item is appended, only when absent", floor=1)
    f = idx.func(WL, "Worklist.push")
    cfg = CFG(f.node)
    item = params_of(f.node)[1]
    stores = _subscript_stores(f.node, "_map")
    appends = _method_calls(f.node, "_stack", "append")
    inst = f"{f.fq}"
    if len(stores) != 1 or len(appends) != 1:
        raise AnalysisError(f"{f.fq}: expected exactly one _map store and one _stack.append (found {len(stores)}/{len(appends)})")
    st, key, val = stores[0]
    app = appends[0]
    n_store, n_app = cfg.node_of(st), cfg.node_of(app)
    problems = []
    if unparse(key) != item or len(app.args) != 1 or unparse(app.args[0]) != item:
        problems.append(("key", f"the map key `{unparse(key)}` and the appended value `{unparse(app.args[0]) if app.args else ''}` must both be the pushed item `{item}`"))
    vtxt = resolved_text(cfg, val, n_store)
    store_first = n_app in cfg.reachable(n_store) and n_store not in cfg.reachable(n_app)
    app_first = n_store in cfg.reachable(n_app) and n_app not in cfg.reachable(n_store)
    if n_store == n_app:
        raise AnalysisError(f"{f.fq}: store and append in one statement")
    ok_idx = (store_first and vtxt == "len(self._stack)") or (app_first and vtxt in ("len(self._stack) - 1",))
    if not ok_idx:
        problems.append(("index", f"_map[{item}] is set to `{vtxt}` {'before' if store_first else 'after'} the append; it must be the position at which the item is stored"))
    # the length read for the index is still the length when the item is appended: nothing changes the stack in between
    muts_ = [c_ for c_ in calls_in(f.node) if isinstance(c_.func, ast.Attribute) and unparse(c_.func.value) == "self._stack" and c_.func.attr in ("pop", "append", "insert", "extend", "clear", "remove") and c_ is not app]
    muts_ += [n_ for n_ in walk_local(f.node) if isinstance(n_, ast.Delete) and any(isinstance(t_, ast.Subscript) and unparse(t_.value) == "self._stack" for t_ in n_.targets)]
    first, second = (n_store, n_app) if store_first else (n_app, n_store)
    for m_ in muts_:
        nm_ = cfg.node_of(m_)
        if nm_ in cfg.reachable(first) and second in cfg.reachable(nm_) and nm_ not in (first, second):
            problems.append(("index-stale", f"`{unparse(m_)[:50]}` changes the length of the stack between the moment the index of {item} is computed (`{vtxt}`) and the moment {item} is stored: the recorded index is not the position of the item, so a later remove() writes its tombstone over another item (or past the end)"))
            break
    # paired on every path: no path entry->exit passing exactly one of them
    for a, b, nm in ((n_store, n_app, "append"), (n_app, n_store, "map store")):
        reach_exit_wo = cfg.path_avoiding(a, cfg.exit, lambda n, b=b: n.id == b)
        came_wo = cfg.path_avoiding(cfg.entry, a, lambda n, b=b: n.id == b)
        if reach_exit_wo is not None and came_wo is not None and not (a == n_store and store_first and False):
            # a executed on a path that never executes b
            if (a == n_store and store_first) or (a == n_app and app_first):
                problems.append(("pairing", f"a path executes one of the map store / append without the other ({nm} missing)"))
    facts = guard_facts(f.node, st) + guard_facts(f.node, app)
    guard_ok = any(
        isinstance(t, ast.Compare) and len(t.ops) == 1
        and ((isinstance(t.ops[0], ast.NotIn) and pol) or (isinstance(t.ops[0], ast.In) and not pol))
        and unparse(t.left) == item and attr_chain(t.comparators[0]) == "self._map"
        for t, pol in facts
    )
    if not guard_ok:
        problems.append(("guard", "push must be guarded by `item not in self._map` (no duplicates)"))
    if problems:
        for k, m in problems:
            r1.fail(inst, Finding("C12.R1", f.fq, k, m, f.loc))
    else:
        r1.ok(inst, f"{f.loc} push: _map[{item}] = {vtxt}; then append")

    # ---- R2 pop: returns last non-tombstone; deletes its map entry
    r2 = rep.rule("C12.R2", "Worklist.pop returns the last non-tombstone stack entry and deletes its _map entry on every returning path", floor=1)
    f = idx.func(WL, "Worklist.pop")
    cfg = CFG(f.node)
    rets = [n for n in walk_local(f.node) if isinstance(n, ast.Return)]
    if not rets:
        raise AnalysisError(f"{f.fq}: no return")
    for ret in rets:
        inst = f"{f.fq}:return {unparse(ret.value) if ret.value else ''}"
        if not isinstance(ret.value, ast.Name):
            raise AnalysisError(f"{f.fq}: return value is not a local name")
        rv = ret.value.id
        nret = cfg.node_of(ret)
        defs = reaching_defs(cfg, rv, nret)
        bad = []
        for nid, val in defs:
            ok_src = (
                isinstance(val, ast.Call) and call_attr(val) == "pop" and attr_chain(val.func.value) == "self._stack"  # type: ignore[attr-defined]
                and (not val.args or unparse(val.args[0]) == "-1")
            )
            if not ok_src:
                bad.append(("source", f"returned value `{rv}` is not obtained by self._stack.pop() (definition at line {cfg.nodes[nid].lineno})"))
            else:
                # on every path from the pop to the return, an edge must establish `rv is not _MISSING`
                # (polarity-aware: the False edge of `rv is _MISSING`, the True edge of `rv is not _MISSING`)
                def establishes_live(n: int, m: int, lab, rv=rv) -> bool:
                    a = cfg.nodes[n].ast
                    if a is None or lab not in ("T", "F") or not isinstance(a, ast.expr):
                        return False
                    for atom, truth in conjuncts(a, lab == "T"):
                        if not (isinstance(atom, ast.Compare) and len(atom.ops) == 1 and isinstance(atom.ops[0], (ast.Is, ast.IsNot, ast.Eq, ast.NotEq))):
                            continue
                        sides = [atom.left, atom.comparators[0]]
                        txt = [x.target.id if isinstance(x, ast.NamedExpr) and isinstance(x.target, ast.Name) else unparse(x) for x in sides]
                        if "_MISSING" in txt and rv in txt:
                            same = isinstance(atom.ops[0], (ast.Is, ast.Eq))
                            if truth != same:
                                return True
                    return False
                others = {d for d, _ in defs if d != nid}
                p = cfg.path_avoiding(nid, nret, lambda n: n.id in others, follow_exc=False, edge_ok=lambda n, m, lab: not establishes_live(n, m, lab))
                if p is not None:
                    bad.append(("tombstone", "a popped entry can be returned without being known to differ from _MISSING: " + " -> ".join(cfg.describe(p))))
        # del self._map[rv] on every path from the pop to the return
        def is_del(n, rv=rv):
            return n.ast is not None and any(unparse(k) == rv for _, k in _dels(n.ast, "_map")) if n.kind == "stmt" else False
        for nid, _ in defs:
            p = cfg.path_avoiding(nid, nret, is_del, follow_exc=False)
            if p is not None:
                bad.append(("map-delete", f"a path returns `{rv}` without deleting self._map[{rv}]: " + " -> ".join(cfg.describe(p))))
                break
        if bad:
            for k, m in bad:
                r2.fail(inst, Finding("C12.R2", f.fq, k, m, f.loc))
        else:
            r2.ok(inst, f"{f.loc} pop: {rv} := self._stack.pop() until not _MISSING; del self._map[{rv}]")

    # ---- R3 remove: tombstone at the recorded index, paired with map delete, guarded by presence
    r3 = rep.rule("C12.R3", "Worklist.remove tombstones exactly _stack[_map[item]] and deletes the map entry, both or neither", floor=1)
    f = idx.func(WL, "Worklist.remove")
    cfg = CFG(f.node)
    item = params_of(f.node)[1]
    st_stores = _subscript_stores(f.node, "_stack")
    dels = [(n, k) for n, k in _dels(f.node, "_map")]
    inst = f.fq
    bad = []
    if len(st_stores) != 1 or len(dels) != 1:
        raise AnalysisError(f"{f.fq}: expected one tombstone store and one map delete (found {len(st_stores)}/{len(dels)})")
    st, key, val = st_stores[0]
    dn, dk = dels[0]
    ktxt = resolved_text(cfg, key, cfg.node_of(st))
    # `index = self._map.pop(item, None); if index is None: return`: delete-if-present and presence test in one step
    pop_default = ktxt == f"self._map.pop({item}, None)" and any((unparse(t_) == f"{unparse(key)} is None" and not p_) or (unparse(t_) == f"{unparse(key)} is not None" and p_) for t_, p_ in guard_facts(f.node, st))
    if ktxt != f"self._map[{item}]" and not pop_default:
        # also accept .pop(item) result
        if ktxt != f"self._map.pop({item})":
            bad.append(("index", f"tombstone written at `{ktxt}`, must be self._map[{item}]"))
    if unparse(val) != "_MISSING":
        bad.append(("tombstone", f"stack slot is overwritten with `{unparse(val)}`, must be _MISSING"))
    if unparse(dk) != item:
        bad.append(("map-delete", f"map entry deleted for `{unparse(dk)}`, must be `{item}`"))
    ns, nd = cfg.node_of(st), cfg.node_of(dn)
    if ns != nd and not pop_default:
        for a, b in ((ns, nd), (nd, ns)):
            before = cfg.path_avoiding(cfg.entry, a, lambda n, b=b: n.id == b)
            after = cfg.path_avoiding(a, cfg.exit, lambda n, b=b: n.id == b, follow_exc=False)
            if before is not None and after is not None:
                bad.append(("pairing", "a path performs only one of tombstone store / map delete"))
                break
    # index must be read before the delete
    idx_reads = [n for n in walk_local(f.node) if isinstance(n, ast.Subscript) and isinstance(n.ctx, ast.Load) and attr_chain(n.value) == "self._map"]
    for rd in idx_reads:
        nr = cfg.node_of(rd)
        if nr != nd and nr in cfg.reachable(nd):
            bad.append(("order", "self._map[item] is read after the entry was deleted"))
    facts = guard_facts(f.node, st)
    if not any(isinstance(t, ast.Compare) and isinstance(t.ops[0], ast.In) and pol and unparse(t.left) == item and attr_chain(t.comparators[0]) == "self._map" for t, pol in facts):
        if not any(isinstance(t, ast.Compare) and isinstance(t.ops[0], ast.NotIn) and not pol and unparse(t.left) == item for t, pol in facts) and not pop_default:
            bad.append(("guard", "remove must be guarded by `item in self._map`"))
    # per path: the item leaves the stack (tombstone store or physical pop) iff its map entry is deleted
    from ..paths import enum_paths

    for pth in enum_paths(f.node):
        if not pth.feasible():
            continue
        st_rm = [e_ for e_ in pth.effects if (isinstance(e_, ast.Assign) and isinstance(e_.targets[0], ast.Subscript) and attr_chain(e_.targets[0].value) == "self._stack") or (isinstance(e_, (ast.Expr, ast.Assign)) and isinstance(e_.value, ast.Call) and call_attr(e_.value) in ("pop", "remove") and attr_chain(e_.value.func.value) == "self._stack") or (isinstance(e_, ast.Delete) and any(isinstance(t_, ast.Subscript) and attr_chain(t_.value) == "self._stack" for t_ in e_.targets))]  # type: ignore[attr-defined]
        mp_rm = [e_ for e_ in pth.effects if (isinstance(e_, ast.Delete) and any(isinstance(t_, ast.Subscript) and attr_chain(t_.value) == "self._map" for t_ in e_.targets)) or (isinstance(e_, (ast.Expr, ast.Assign)) and isinstance(e_.value, ast.Call) and call_attr(e_.value) == "pop" and attr_chain(e_.value.func.value) == "self._map")]  # type: ignore[attr-defined]
        if any(p_ and re.fullmatch(r"self\._map\.pop\(.+, None\) is None", t_) for t_, p_ in pth.nfacts()):
            continue  # pop with a default on an absent item removes nothing
        if bool(st_rm) != bool(mp_rm):
            which = st_rm or mp_rm
            bad.append(("pairing", f"the path under {sorted(pth.nfacts())[:3]} performs `{unparse(which[0])}` but " + ("keeps the map entry: the item is gone from the stack while `item in worklist._map` stays true with a stale index, so a later push of the item is ignored and a later remove tombstones another item's slot" if st_rm else "leaves the item on the stack")))
            break
    if bad:
        for k, m in bad:
            r3.fail(inst, Finding("C12.R3", f.fq, k, m, f.loc))
    else:
        r3.ok(inst, f"{f.loc} remove: self._stack[self._map[{item}]] = _MISSING; del self._map[{item}]")

    # ---- R3b __bool__: drops trailing tombstones before reporting emptiness
    r3b = rep.rule("C12.R3b", "Worklist.__bool__ discards trailing tombstones before reporting bool(_stack)", floor=1)
    f = idx.func(WL, "Worklist.__bool__")
    cfg = CFG(f.node)
    inst = f.fq
    bad = []
    rets = [n for n in walk_local(f.node) if isinstance(n, ast.Return)]
    loops = [n for n in walk_local(f.node) if isinstance(n, ast.While)]
    def loop_ok(w: ast.While) -> bool:
        """A loop that pops from _stack exactly while the stack is non-empty and its last entry is the tombstone."""
        pops = _method_calls(w, "_stack", "pop")
        if not pops or not all(not c.args or unparse(c.args[0]) == "-1" for c in pops):
            return False
        TOMB_T = {"self._stack[-1] is _MISSING", "self._stack[-1] == _MISSING"}
        TOMB_F = {"self._stack[-1] is not _MISSING", "self._stack[-1] != _MISSING"}
        NONEMPTY_T = {"self._stack", "len(self._stack) > 0", "len(self._stack) != 0", "bool(self._stack)"}

        def facts_txt(node):
            return [(unparse(t_), p_) for t_, p_ in guard_facts(f.node, node)]

        for c in pops:
            fs = facts_txt(c)
            if not (any((t_ in TOMB_T and p_) or (t_ in TOMB_F and not p_) for t_, p_ in fs) and any(t_ in NONEMPTY_T and p_ for t_, p_ in fs)):
                return False
        # every early exit (break / return) of the loop happens because the last entry is a real item
        for ex in [n_ for n_ in walk_local(w) if isinstance(n_, (ast.Break, ast.Return)) and n_ is not w]:
            fs = facts_txt(ex)
            if not any((t_ in TOMB_F and p_) or (t_ in TOMB_T and not p_) for t_, p_ in fs):
                return False
        # no other mutation of the stack inside the loop
        if _subscript_stores(w, "_stack") or _method_calls(w, "_stack", "append"):
            return False
        return True
    good_loops = [w for w in loops if loop_ok(w)]
    for ret in rets:
        rt = unparse(ret.value) if ret.value else "None"
        if rt in ("bool(self._map)", "len(self._map) > 0", "len(self._map) != 0"):
            continue  # deciding on the map is exact as well
        if rt == "True":
            # non-empty and the last entry is a real item
            fs_ = [(unparse(t_), p_) for t_, p_ in guard_facts(f.node, ret)]
            if any(t_ in ("self._stack", "len(self._stack) > 0", "len(self._stack) != 0") and p_ for t_, p_ in fs_) and any((t_ in ("self._stack[-1] is not _MISSING", "self._stack[-1] != _MISSING") and p_) or (t_ in ("self._stack[-1] is _MISSING", "self._stack[-1] == _MISSING") and not p_) for t_, p_ in fs_):
                continue
            bad.append(("result", "`return True` is not guarded by `stack non-empty and last entry is not the tombstone`"))
            continue
        if rt == "False":
            # directly after a tombstone-discarding loop whose test is the non-emptiness of the stack
            prev = [w_ for w_ in good_loops if unparse(w_.test) in ("self._stack", "len(self._stack) > 0", "len(self._stack) != 0") and w_.lineno < ret.lineno and not any(x_ is ret for x_ in ast.walk(w_))]
            if prev and not guard_facts(f.node, ret):
                continue
            bad.append(("result", "`return False` is not the exit of the tombstone-discarding loop on an empty stack"))
            continue
        if rt not in ("bool(self._stack)", "len(self._stack) > 0", "len(self._stack) != 0"):
            bad.append(("result", f"`return {rt}` does not report emptiness of the stack/map"))
            continue
        nret = cfg.node_of(ret)
        if not good_loops:
            bad.append(("tombstones", "emptiness is decided on _stack without discarding trailing _MISSING entries"))
            continue
        tests = {cfg.node_of(w.test) for w in good_loops}
        p = cfg.path_avoiding(cfg.entry, nret, lambda n: n.id in tests)
        if p is not None and cfg.entry not in tests:
            bad.append(("tombstones", "a path reaches the return without running the tombstone-discarding loop"))
    if not rets:
        raise AnalysisError(f"{f.fq}: no return")
    if bad:
        for k, m in bad:
            r3b.fail(inst, Finding("C12.R3b", f.fq, k, m, f.loc))
    else:
        r3b.ok(inst, f"{f.loc} __bool__: while _stack and _stack[-1] is _MISSING: pop; return bool(_stack)")

    # ---- R3c: only these methods write _stack/_map
    r3c = rep.rule("C12.R3c", "only push/pop/remove/__bool__ mutate Worklist._stack/_map", floor=1)
    allowed = {"push", "pop", "remove", "__bool__"}
    for name, defs in cls.methods.items():
        for fi in defs:
            writes = bool(_subscript_stores(fi.node, "_stack") or _subscript_stores(fi.node, "_map") or _dels(fi.node, "_map") or _dels(fi.node, "_stack"))
            for c in calls_in(fi.node):
                if isinstance(c.func, ast.Attribute) and attr_chain(c.func.value) in ("self._stack", "self._map") and c.func.attr in ("append", "pop", "clear", "insert", "extend", "remove", "update", "setdefault", "popitem", "reverse", "sort"):
                    writes = True
            helper_of_primitives = name.startswith("_") and not name.startswith("__") and all(
                caller in allowed or not any(isinstance(c_.func, ast.Attribute) and c_.func.attr == name and unparse(c_.func.value) in ("self", "Worklist") for c_ in calls_in(d_.as_raw().node, local=False))
                for caller, defs_ in cls.methods.items() for d_ in defs_
            )
            if writes and name not in allowed and helper_of_primitives:
                r3c.ok(fi.fq, f"{fi.loc} private helper called only from the checked primitives (analysed inlined there)")
            elif writes and name not in allowed:
                r3c.fail(fi.fq, Finding("C12.R3c", fi.fq, "foreign-writer", f"method {name} mutates the worklist representation outside the checked primitives", fi.loc))
            elif writes:
                r3c.ok(fi.fq)


def check_disjoint_set(idx: Index, rep: Report) -> None:
    cls = idx.cls(DS, "IntDisjointSet")
    if not {"_parent", "_count"} <= {n for n, _, _ in cls.ann_fields()}:
        raise AnalysisError("IntDisjointSet no longer has the _parent/_count representation")
    # ---- R4 find
    r4 = rep.rule("C12.R4", "IntDisjointSet.__getitem__ returns a fixed point of _parent reached from the argument and compresses only to that root", floor=1)
    f = idx.func(DS, "IntDisjointSet.__getitem__")
    cfg = CFG(f.node)
    value = params_of(f.node)[1]
    bad = []
    rets = [n for n in walk_local(f.node) if isinstance(n, ast.Return)]
    if len(rets) != 1 or not isinstance(rets[0].value, ast.Name):
        raise AnalysisError(f"{f.fq}: expected a single `return <name>`")
    root = rets[0].value.id
    nret = cfg.node_of(rets[0])
    # the returned name is a fixed point of _parent: on every path from each of its definitions to the return an edge
    # establishes `self._parent[root] == root` (False edge of `!=`, True edge of `==`; the parent may be read through
    # a walrus), and every definition is the argument or the parent of the previous candidate
    loops = [w for w in walk_local(f.node) if isinstance(w, ast.While)]

    def _strip(x: ast.AST) -> str:
        return unparse(x.value) if isinstance(x, ast.NamedExpr) else unparse(x)

    def establishes(n_: int, m_: int, lab) -> bool:
        a_ = cfg.nodes[n_].ast
        if a_ is None or lab not in ("T", "F") or not isinstance(a_, ast.expr):
            return False
        for atom, truth in conjuncts(a_, lab == "T"):
            if isinstance(atom, ast.Compare) and len(atom.ops) == 1 and isinstance(atom.ops[0], (ast.Eq, ast.NotEq)):
                sides = {_strip(atom.left), _strip(atom.comparators[0])}
                if sides == {f"self._parent[{root}]", root} and truth == isinstance(atom.ops[0], ast.Eq):
                    return True
        return False

    est_tests = {n_ for n_ in range(len(cfg.nodes)) if any(establishes(n_, m_, lab) for m_, lab in cfg.succ[n_])}
    if not est_tests:
        raise AnalysisError(f"{f.fq}: no test of `self._parent[{root}]` against `{root}` found (root-finding loop not recognised)")
    ntest = min(est_tests)
    defs_root = reaching_defs(cfg, root, nret)
    parent_names = {x.target.id for n_ in est_tests for x in ast.walk(cfg.nodes[n_].ast) if isinstance(x, ast.NamedExpr) and isinstance(x.target, ast.Name) and unparse(x.value) == f"self._parent[{root}]"}
    for nid, val in defs_root:
        others = {d for d, _ in defs_root if d != nid}
        if cfg.path_avoiding(nid, nret, lambda n_: n_.id in others, follow_exc=False, edge_ok=lambda n_, m_, lab: not establishes(n_, m_, lab)) is not None:
            bad.append(("not-fixed-point", f"`{root}` (line {cfg.nodes[nid].lineno}) can be returned without `self._parent[{root}] == {root}` having been established: the result is not the representative"))
        vt = unparse(val) if val is not None else "?"
        if vt not in (value, f"self._parent[{root}]") and vt not in parent_names:
            bad.append(("start", f"the candidate root is set to `{vt}`, which is neither the argument `{value}` nor the parent of the previous candidate"))
    init_ok = any(val is not None and unparse(val) == value for _, val in reaching_defs(cfg, root, ntest)) or any(val is not None and unparse(val) == value for _, val in defs_root)
    if not init_ok:
        bad.append(("start", f"the search for the root does not start from the argument `{value}`"))
    find_loop = next((w for w in loops if cfg.node_of(w.test) in est_tests), None)
    # every write to _parent stores `root`, after the loop, at a node on the path from value
    for st, key, val in _subscript_stores(f.node, "_parent"):
        ns = cfg.node_of(st)
        if unparse(val) != root:
            bad.append(("compress-value", f"path compression stores `{unparse(val)}` (line {st.lineno}); only the root may be stored"))
        if ntest not in cfg.reachable(cfg.entry) or cfg.path_avoiding(cfg.entry, ns, lambda n: n.id == ntest) is not None:
            bad.append(("compress-order", "a parent pointer is overwritten before the root is known"))
        # the key must walk the old parent chain: key var advanced from saved parent
        ktxt = unparse(key)
        loop = next((w for w in loops if any(s is st for s in ast.walk(w))), None)
        if loop is not None and isinstance(key, ast.Name):
            # inside the loop the old parent must be read before the store and used to advance
            saved = [s for s in loop.body if isinstance(s, ast.Assign) and unparse(s.value) == f"self._parent[{ktxt}]"]
            adv = [s for s in loop.body if isinstance(s, ast.Assign) and unparse(s.targets[0]) == ktxt]
            if not saved or loop.body.index(saved[0]) > loop.body.index(st):
                bad.append(("compress-walk", "the old parent is not saved before being overwritten"))
            elif not adv or unparse(adv[0].value) != unparse(saved[0].targets[0]) or loop.body.index(adv[0]) < loop.body.index(st):
                bad.append(("compress-walk", "the walk does not advance to the saved old parent"))
            if unparse(loop.test) not in (f"{ktxt} != {root}", f"{root} != {ktxt}"):
                bad.append(("compress-walk", f"compression loop condition `{unparse(loop.test)}` is not `{ktxt} != {root}`"))
            for nid, v in reaching_defs(cfg, ktxt, cfg.node_of(loop.test)):
                if nid not in {cfg.node_of(s) for s in loop.body} and (v is None or unparse(v) != value):
                    bad.append(("compress-start", f"compression starts from `{unparse(v) if v is not None else '?'}`, not from `{value}`"))
    # range guard
    facts = guard_facts(f.node, find_loop if find_loop is not None else rets[0])
    if not any("len(self._parent)" in unparse(t) and not pol for t, pol in facts):
        bad.append(("range", "no range check of the argument before indexing _parent (negative indices would alias)"))
    if bad:
        for k, m in bad:
            r4.fail(f.fq, Finding("C12.R4", f.fq, k, m, f.loc))
    else:
        r4.ok(f.fq, f"{f.loc} find: root := fixpoint of _parent from {value}; compression stores only {root}")

    # ---- R5 unions
    r5 = rep.rule("C12.R5", "union_left re-parents root(rhs) under root(lhs); union re-parents one root under the other; counts are summed on the new root", floor=2)
    for meth in ("union_left", "union"):
        f = idx.func(DS, f"IntDisjointSet.{meth}")
        cfg = CFG(f.node)
        p = params_of(f.node)
        lhs, rhs = p[1], p[2]
        rl, rr = f"self[{lhs}]", f"self[{rhs}]"
        bad = []
        pst = _subscript_stores(f.node, "_parent")
        cst = _subscript_stores(f.node, "_count")
        if not pst:
            raise AnalysisError(f"{f.fq}: no _parent store")
        from ..astutil import norm_facts as _nf, text_facts as _tf

        descr = []
        store_nodes = set()
        for st, key, val in pst:
            ns = cfg.node_of(st)
            store_nodes.add(ns)
            k, v = resolved_text(cfg, key, ns), resolved_text(cfg, val, ns)
            descr.append(f"_parent[{k}] = {v}")
            if meth == "union_left":
                if (k, v) != (rr, rl):
                    bad.append(("direction", f"_parent[{k}] = {v}: left-biased union must store _parent[root({rhs})] = root({lhs})"))
            elif len(pst) == 1:
                # conditional choice: (l, r) if c else (r, l) through tuple unpacking -> subscript of IfExp
                choices = _choices(k, v, rl, rr)
                if choices is None:
                    bad.append(("direction", f"_parent[{k}] = {v}: must attach one of the two roots under the other"))
            elif (k, v) not in ((rl, rr), (rr, rl)):
                bad.append(("direction", f"_parent[{k}] = {v}: must attach one of the two roots under the other"))
            # equal-roots early return: the store happens only when the roots differ
            nf = _nf(_tf(f.node, st))
            differ = any(p_ is False and re.fullmatch(r"(.+) (==|is) (.+)", t_) and {re.fullmatch(r"(.+) (==|is) (.+)", t_).group(1), re.fullmatch(r"(.+) (==|is) (.+)", t_).group(3)} == {rl, rr} for t_, p_ in nf)
            if not differ:
                bad.append(("same-set", "the parent store is not guarded by `root(lhs) != root(rhs)` (would create a self-loop free merge count error)"))
            # the count of the new root (v) is updated to the sum, on the same paths
            mine = [(cs, ck, cv) for cs, ck, cv in cst if resolved_text(cfg, ck, cfg.node_of(cs)) == v and (len(pst) == 1 or cfg.node_of(cs) in cfg.reachable(ns) or ns in cfg.reachable(cfg.node_of(cs)))]
            mine = [(cs, ck, cv) for cs, ck, cv in mine if len(pst) == 1 or _nf(_tf(f.node, cs)) == nf]
            if len(cst) == 0 or not mine:
                if len(pst) == 1 and len(cst) == 1:
                    cs, ck, cv = cst[0]
                    bad.append(("count-key", f"_count is updated at `{resolved_text(cfg, ck, cfg.node_of(cs))}` but the new root is `{v}`"))
                else:
                    bad.append(("count", f"no _count update for the new root `{v}`"))
            else:
                cs, ck, cv = mine[0]
                cvt = resolved_text(cfg, cv, cfg.node_of(cs))
                want = {f"self._count[{rl}] + self._count[{rr}]", f"self._count[{rr}] + self._count[{rl}]"}
                if cvt not in want and len(pst) == 1 and _choices(k, v, rl, rr) is not None:
                    # the roles (new root, new child) are chosen by a conditional: decide each case
                    if all(c_ in want for c_ in ifexp_cases(cvt)):
                        cvt = next(iter(want))
                if cvt not in want:
                    bad.append(("count-value", f"_count of the new root becomes `{cvt}`, must be the sum of both root counts"))
        if len(cst) > len(pst):
            bad.append(("count", f"expected one _count store per merge, found {len(cst)}"))
        k, v = descr[0].split(" = ")[0][8:-1], descr[0].split(" = ")[1]
        # boolean results
        for ret in [n for n in walk_local(f.node) if isinstance(n, ast.Return)]:
            merged = cfg.path_avoiding(cfg.entry, cfg.node_of(ret), lambda n: n.id in store_nodes) is None
            if ret.value is None or not isinstance(ret.value, ast.Constant) or ret.value.value is not merged:
                bad.append(("result", f"`return {unparse(ret.value) if ret.value else ''}` at line {ret.lineno} does not report whether a merge happened"))
        if bad:
            for kk, m in bad:
                r5.fail(f.fq, Finding("C12.R5", f.fq, kk, m, f.loc))
        else:
            r5.ok(f.fq, f"{f.loc} {meth}: {'; '.join(descr)}")

    # ---- R5b add / init
    r5b = rep.rule("C12.R5b", "IntDisjointSet.add/__init__ create singleton roots (parent = own index, count 1)", floor=2)
    f = idx.func(DS, "IntDisjointSet.add")
    cfg = CFG(f.node)
    bad = []
    pa = _method_calls(f.node, "_parent", "append")
    ca = _method_calls(f.node, "_count", "append")
    if len(pa) != 1 or len(ca) != 1:
        raise AnalysisError(f"{f.fq}: expected one append to _parent and one to _count")
    if resolved_text(cfg, pa[0].args[0], cfg.node_of(pa[0])) != "len(self._parent)":
        bad.append(("parent", f"new element's parent is `{resolved_text(cfg, pa[0].args[0], cfg.node_of(pa[0]))}`, must be its own index len(self._parent)"))
    if unparse(ca[0].args[0]) != "1":
        bad.append(("count", "new singleton must have count 1"))
    rets = [n for n in walk_local(f.node) if isinstance(n, ast.Return)]
    for ret in rets:
        # value returned must be the pre-append length
        if ret.value is None or not isinstance(ret.value, ast.Name):
            bad.append(("result", "add must return the new index"))
        else:
            defs = reaching_defs(cfg, ret.value.id, cfg.node_of(ret))
            if len(defs) != 1 or defs[0][1] is None or unparse(defs[0][1]) != "len(self._parent)" or cfg.node_of(pa[0]) not in cfg.reachable(defs[0][0]):
                bad.append(("result", "returned index is not len(self._parent) read before the append"))
    if bad:
        for kk, m in bad:
            r5b.fail(f.fq, Finding("C12.R5b", f.fq, kk, m, f.loc))
    else:
        r5b.ok(f.fq)
    f = idx.func(DS, "IntDisjointSet.__init__")
    texts = {unparse(s) for s in f.node.body}
    size = params_of(f.node)[1]
    if f"self._parent = list(range({size}))" in texts and f"self._count = [1] * {size}" in texts:
        r5b.ok(f.fq)
    else:
        r5b.fail(f.fq, Finding("C12.R5b", f.fq, "init", "initial forest is not `_parent = list(range(size))`, `_count = [1] * size`", f.loc))

    # ---- R6 generic wrapper
    r6 = rep.rule("C12.R6", "DisjointSet forwards to IntDisjointSet with indices of its arguments in order; value/index tables stay in step", floor=5)
    for meth in ("union_left", "union", "connected"):
        f = idx.func(DS, f"DisjointSet.{meth}")
        p = params_of(f.node)
        calls = [c for c in calls_in(f.node) if isinstance(c.func, ast.Attribute) and attr_chain(c.func.value) == "self._base"]
        rets = [n for n in walk_local(f.node) if isinstance(n, ast.Return)]
        cfg6 = CFG(f.node)
        ret_txt = [resolved_text(cfg6, rt.value, cfg6.node_of(rt)) for rt in rets if rt.value is not None]
        ok = len(calls) == 1 and ret_txt == [f"self._base.{meth}(self._index_by_value[{p[1]}], self._index_by_value[{p[2]}])"]
        if ok:
            r6.ok(f.fq)
        else:
            got = unparse(calls[0]) if calls else "?"
            r6.fail(f.fq, Finding("C12.R6", f.fq, "forward", f"must `return self._base.{meth}(self._index_by_value[{p[1]}], self._index_by_value[{p[2]}])`, found `{got}`", f.loc))
    f = idx.func(DS, "DisjointSet.find")
    p = params_of(f.node)
    cfg = CFG(f.node)
    rets = [n for n in walk_local(f.node) if isinstance(n, ast.Return)]
    want = f"self._values[self._base[self._index_by_value[{p[1]}]]]"
    got = resolved_text(cfg, rets[0].value, cfg.node_of(rets[0])) if len(rets) == 1 and rets[0].value is not None else "?"
    if got == want:
        r6.ok(f.fq)
    else:
        r6.fail(f.fq, Finding("C12.R6", f.fq, "find", f"find must return {want}, found {got}", f.loc))
    f = idx.func(DS, "DisjointSet.add")
    p = params_of(f.node)
    cfg = CFG(f.node)
    bad = []
    va = _method_calls(f.node, "_values", "append")
    ist = _subscript_stores(f.node, "_index_by_value")
    if len(va) != 1 or len(ist) != 1:
        raise AnalysisError(f"{f.fq}: expected one _values.append and one _index_by_value store")
    if unparse(va[0].args[0]) != p[1] or unparse(ist[0][1]) != p[1]:
        bad.append(("value", "the added value is not what is appended/indexed"))
    vt = resolved_text(cfg, ist[0][2], cfg.node_of(ist[0][0]))
    nva, nst = cfg.node_of(va[0]), cfg.node_of(ist[0][0])
    if not (vt == "self._base.add()" or (vt == "len(self._values)" and nva in cfg.reachable(nst)) or (vt == "len(self._values) - 1" and nst in cfg.reachable(nva))):
        bad.append(("index", f"index recorded for the new value is `{vt}`; must be the index returned by self._base.add()"))
    if not _method_calls(f.node, "_base", "add"):
        bad.append(("base", "the underlying IntDisjointSet is not extended"))
    if bad:
        for kk, m in bad:
            r6.fail(f.fq, Finding("C12.R6", f.fq, kk, m, f.loc))
    else:
        r6.ok(f.fq)


def _choices(k: str, v: str, rl: str, rr: str):
    """For union: key/value texts after substitution look like
    `((A, B) if C else (B, A))[1]` / `[0]`.  Accept iff for both outcomes {key, value} == {rl, rr}."""
    try:
        ke, ve = ast.parse(k, mode="eval").body, ast.parse(v, mode="eval").body
    except SyntaxError:
        return None

    def outcomes(e):
        if isinstance(e, ast.Subscript) and isinstance(e.value, ast.IfExp) and isinstance(e.slice, ast.Constant):
            i = e.slice.value
            a, b = e.value.body, e.value.orelse
            if isinstance(a, ast.Tuple) and isinstance(b, ast.Tuple):
                return (unparse(e.value.test), unparse(a.elts[i]), unparse(b.elts[i]))
        if isinstance(e, ast.IfExp):
            return (unparse(e.test), unparse(e.body), unparse(e.orelse))
        return ("", unparse(e), unparse(e))

    kt, k1, k2 = outcomes(ke)
    vt, v1, v2 = outcomes(ve)
    if kt != vt:
        return None
    if {k1, v1} == {rl, rr} and {k2, v2} == {rl, rr}:
        return (k1, v1, k2, v2)
    return None


def check_scoped_dict(idx: Index, rep: Report) -> None:
    r7 = rep.rule("C12.R7", "ScopedDict.get/__getitem__/__contains__ decide presence in a scope with the same predicate (key in scope), innermost scope first", floor=3)
    cls = idx.cls(SD, "ScopedDict")
    for meth in ("get", "__getitem__", "__contains__"):
        defs = [d for d in cls.methods.get(meth, []) if not any(x.endswith("overload") for x in d.decorator_names())]
        if len(defs) != 1:
            raise AnalysisError(f"ScopedDict.{meth}: expected one non-overload definition")
        f = defs[0]
        key = params_of(f.node)[1]
        bad = []
        membership = []
        for n in walk_local(f.node):
            if isinstance(n, ast.Compare) and len(n.ops) == 1 and isinstance(n.ops[0], (ast.In, ast.NotIn)) and unparse(n.left) == key:
                membership.append(n)
        # value-based presence tests: <scope>.get(key) compared to None / used as truth value
        for c in calls_in(f.node):
            if call_attr(c) == "get" and isinstance(c.func, ast.Attribute) and (attr_chain(c.func.value) or "").endswith("_local_scope"):
                has_sentinel_default = len(c.args) >= 2 and not (isinstance(c.args[1], ast.Constant) and c.args[1].value is None)
                if not has_sentinel_default:
                    bad.append(("none-as-absent", f"presence in a scope is decided by `{unparse(c)}` being None: a key bound to None is treated as absent, unlike the `in` test used by the other lookup forms"))
        cfg7 = CFG(f.node)

        def scope_txt(e: ast.AST, at: ast.AST) -> str:
            """what the scope expression denotes (local aliases such as `bindings = scope._local_scope` resolved)"""
            try:
                return resolved_text(cfg7, e, cfg7.node_of(at))
            except AnalysisError:
                return unparse(e)

        local_tests = [m for m in membership if scope_txt(m.comparators[0], m).endswith("_local_scope")]
        delegating = [m for m in membership if scope_txt(m.comparators[0], m) in ("self", "self.parent")]
        if not local_tests and not bad:
            if not delegating and not any(isinstance(n, ast.Subscript) and attr_chain(n.value) == "self" for n in walk_local(f.node)):
                bad.append(("no-presence-test", "no `key in <scope>` test and no delegation to another lookup form"))
        # innermost first: the first membership test (in source order) must be on self._local_scope (or an alias of self)
        if local_tests:
            first = min(local_tests, key=lambda n: (n.lineno, n.col_offset))
            base = scope_txt(first.comparators[0], first)
            cfg = cfg7
            owner = base.rsplit(".", 1)[0]  # type: ignore[union-attr]
            if owner != "self":
                rd = reaching_defs(cfg, owner, cfg.node_of(first))
                vals = {unparse(v) if v is not None else "?" for _, v in rd}
                # a walk up the chain: starts at self and only advances with `.parent`
                if not ("self" in vals and vals <= {"self", f"{owner}.parent"}):
                    bad.append(("innermost-first", f"the first scope consulted is `{owner}`, which is not the innermost scope"))
            # the value returned under a membership guard comes from the scope that was tested
            for ret in [n for n in walk_local(f.node) if isinstance(n, ast.Return)]:
                if isinstance(ret.value, ast.Subscript) and scope_txt(ret.value.value, ret).endswith("_local_scope"):
                    facts = [t for t, pol in guard_facts(f.node, ret) if isinstance(t, ast.Compare) and len(t.ops) == 1 and ((pol and isinstance(t.ops[0], ast.In)) or ((not pol) and isinstance(t.ops[0], ast.NotIn))) and unparse(t.left) == key]
                    if not facts:
                        bad.append(("unguarded-read", f"`{unparse(ret)}` is not guarded by a membership test"))
                        continue
                    tested = scope_txt(facts[-1].comparators[0], facts[-1]).rsplit(".", 1)[0]
                    read = scope_txt(ret.value.value, ret).rsplit(".", 1)[0]
                    if tested != read:
                        nr = cfg.node_of(ret)
                        alias = lambda nm: nm == "self" or (len(reaching_defs(cfg, nm, nr)) == 1 and reaching_defs(cfg, nm, nr)[0][1] is not None and unparse(reaching_defs(cfg, nm, nr)[0][1]) == "self")
                        if not (alias(tested) and alias(read)):
                            bad.append(("scope-mismatch", f"membership is tested on `{tested}` but the value is read from `{read}`"))
        # every enclosing scope is consulted: through delegation to the parent's own lookup, or a walk up the chain
        direct_parent = [n for n in walk_local(f.node) if isinstance(n, ast.Attribute) and n.attr == "_local_scope" and attr_chain(n) == "self.parent._local_scope"]
        if direct_parent:
            walks = any(isinstance(s_, ast.Assign) and isinstance(s_.value, ast.Attribute) and s_.value.attr == "parent" and unparse(s_.targets[0]) == unparse(s_.value.value) for s_ in walk_local(f.node))
            rec = any((isinstance(c_.func, ast.Attribute) and attr_chain(c_.func.value) == "self.parent" and c_.func.attr in ("get", "__getitem__", "__contains__")) for c_ in calls_in(f.node)) or any(isinstance(n_, ast.Subscript) and attr_chain(n_.value) == "self.parent" for n_ in walk_local(f.node)) or any(isinstance(n_, ast.Compare) and any(attr_chain(c_) == "self.parent" for c_ in n_.comparators) and isinstance(n_.ops[0], (ast.In, ast.NotIn)) for n_ in walk_local(f.node))
            if not walks and not rec:
                bad.append(("one-level-lookup", f"`{unparse(direct_parent[0])}` reads the parent's own bindings directly and nothing delegates to the parent's lookup or walks further up: a key bound only in a grandparent scope is not found by {meth} although the other lookup forms find it"))
        # parent consulted after local
        if bad:
            for kk, m in bad:
                r7.fail(f.fq, Finding("C12.R7", f.fq, kk, m, f.loc))
        else:
            r7.ok(f.fq, f"{f.loc} {meth}: presence by `{key} in <scope>._local_scope`")
    # __setitem__ writes the local scope only
    f = idx.func(SD, "ScopedDict.__setitem__")
    st = _subscript_stores(f.node, "_local_scope")
    p = params_of(f.node)
    if len(st) == 1 and unparse(st[0][1]) == p[1] and unparse(st[0][2]) == p[2]:
        r7.ok(f.fq)
    else:
        r7.fail(f.fq, Finding("C12.R7", f.fq, "setitem", "__setitem__ must bind key to value in the local scope", f.loc))


def check(idx: Index, rep: Report, tier: str) -> str:
    rep.run(check_worklist, idx, rep)
    rep.run(check_disjoint_set, idx, rep)
    rep.run(check_scoped_dict, idx, rep)
    return (
        "Static AST/CFG rules over xdsl/utils/{worklist,disjoint_set,scoped_dict}.py. Decides the structural clauses: "
        "Worklist map/stack pairing, index provenance and tombstone handling on every path; union-find root "
        "fixpoint, compression target, re-parenting direction and count update; DisjointSet forwarding order; "
        "ScopedDict presence predicate agreement across get/__getitem__/__contains__. Not decided: full model "
        "conformance for every history (would need enumeration, i.e. a different technique)."
    )
