"""C20 — parallel-move lowering: provenance of scratch registers, xor-swap template in the
register-to-xor-set domain, failure paths, bookkeeping of leaves and of the saved value's width."""

from __future__ import annotations

import ast
import re

from ..astutil import call_attr, calls_in, guard_facts, rename_locals, roles_by_definition, unparse, walk_local
from ..cfg import CFG
from ..astutil import norm_facts, text_facts
from ..dataflow import reaching_defs, resolved_text
from ..report import Finding, Report
from ..srcindex import AnalysisError, Index

PM = "xdsl/transforms/riscv_lower_parallel_mov.py"



def _covered(it: ast.AST) -> list[str] | None:
    """collections an iterable ranges over: `xs`, `(*xs, *ys)`, `[*xs, *ys]`, `xs + ys`, `chain(xs, ys)`"""
    if isinstance(it, ast.Name):
        return [it.id]
    if isinstance(it, (ast.Tuple, ast.List)) and it.elts and all(isinstance(e, ast.Starred) and isinstance(e.value, ast.Name) for e in it.elts):
        return [e.value.id for e in it.elts]  # type: ignore[union-attr]
    if isinstance(it, ast.BinOp) and isinstance(it.op, ast.Add):
        l, r = _covered(it.left), _covered(it.right)
        return None if l is None or r is None else l + r
    if isinstance(it, ast.Call) and unparse(it.func) in ("chain", "itertools.chain") and all(isinstance(a, ast.Name) for a in it.args):
        return [a.id for a in it.args]  # type: ignore[union-attr]
    return None


def _raise_reached(facts, env: dict[str, bool]):
    """Truth of the conjunction of the guard facts when `env[c]` says whether all registers of collection c are allocated;
    None when a fact is not a boolean combination of all()/any() over `.is_allocated` of those collections."""
    from ..astutil import quant_canon

    def ev(e: ast.AST):
        if isinstance(e, ast.UnaryOp) and isinstance(e.op, ast.Not):
            v = ev(e.operand)
            return None if v is None else not v
        if isinstance(e, ast.BoolOp):
            vs = [ev(v) for v in e.values]
            if any(v is None for v in vs):
                return None
            return all(vs) if isinstance(e.op, ast.And) else any(vs)
        qc = quant_canon(e, True)
        if qc is not None:
            m = re.fullmatch(r"(all|any)\(\((not )?_q\.is_allocated for _q in (.+)\)\)", qc[0])
            if m:
                cols = _covered(ast.parse(m.group(3), mode="eval").body)
                if cols is None or any(c not in env for c in cols):
                    return None
                all_alloc = all(env[c] for c in cols)
                if m.group(1) == "all" and not m.group(2):
                    return all_alloc
                if m.group(1) == "any" and m.group(2):
                    return not all_alloc
        return None

    out = True
    for t_, p_ in facts:
        v = ev(t_)
        if v is None:
            return None
        out = out and (v == p_)
    return out


def check(idx: Index, rep: Report, tier: str) -> str:
    f = idx.func(PM, "ParallelMovPattern.match_and_rewrite")
    # the rules below name the locals of the lowering by their role; the roles are recognised by what the local is bound
    # to, and the function is analysed with its locals renamed to the role names (so the spelling of locals is irrelevant)
    opn0 = f.node.args.args[1].arg
    CAST = r"(?:cast\([^,]+(?:\[.*\])?, )?"
    roles = roles_by_definition(f.node, {
        "srcs": rf"{CAST}{opn0}\.inputs\)?",
        "dsts": rf"{CAST}{opn0}\.outputs\)?",
        "src_types": rf"{CAST}{opn0}\.inputs\.types\)?",
        "dst_types": rf"{CAST}{opn0}\.outputs\.types\)?",
        "num_operands": rf"len\({opn0}\.operands\)|len\({opn0}\.inputs\)",
        "results": r"\[None\] \* {num_operands}",
        "free_registers": r"defaultdict\(list\)",
        "leaves": r"set\({dst_types}\)",
    })
    if roles:
        from ..srcindex import FuncInfo

        f = FuncInfo(f.module, f.qualname, f.raw_node, f.cls, rename_locals(f.node, roles))
    cfg = CFG(f.node)

    # ---- R1 scratch provenance
    r = rep.rule("C20.R1", "every register added to the scratch pool derives from the operation's designated free registers", floor=2)
    apps = [c for c in calls_in(f.node) if call_attr(c) in ("append", "insert", "appendleft", "add") and isinstance(c.func, ast.Attribute) and re.match(r"free_registers(\[|\.setdefault\()", unparse(c.func.value)) and c.args]
    if len(apps) < 1:
        # the pool may be there under another binding: a local that receives `<pool>[...].append(reg)` and stands for a
        # field of the pattern object is state shared by every parallel move the pattern instance lowers
        for c in calls_in(f.node):
            if call_attr(c) in ("append", "insert", "add") and isinstance(c.func, ast.Attribute) and isinstance(c.func.value, ast.Subscript) and isinstance(c.func.value.value, (ast.Name, ast.Attribute)):
                pool = c.func.value.value
                txt = resolved_text(cfg, pool, cfg.node_of(c))
                if re.fullmatch(r"self\.\w+", txt):
                    r.fail(f"{f.fq}:pool", Finding("C20.R1", f.fq, f"scratch-pool-kept-on-pattern:{txt}", f"`{unparse(c)[:70]}` adds a scratch register to `{txt}`, a field of the pattern object: one pattern instance lowers every riscv.parallel_mov of the module, so registers that were free (or became free) at an earlier move are still listed when a later move breaks a cycle, and are overwritten although they may be live there", f"{PM}:{c.lineno}"))
                    break
        raise AnalysisError(f"{f.fq}: scratch pool appends not found")
    for c in apps:
        a = c.args[-1] if call_attr(c) == "insert" else c.args[0]
        front = call_attr(c) == "appendleft" or (call_attr(c) == "insert" and unparse(c.args[0]) == "0")
        ok = False
        if isinstance(a, ast.Name):
            defs = reaching_defs(cfg, a.id, cfg.node_of(c))
            ok = bool(defs) and all(cfg.nodes[nid].kind == "for" and unparse(cfg.nodes[nid].ast.iter) == "op.free_registers" for nid, v in defs)  # type: ignore[union-attr]
        inst = f"{f.fq}:append({unparse(a)})"  # instance name kept for append / insert alike
        if ok:
            r.ok(inst, f"{PM}:{c.lineno} from op.free_registers")
        else:
            src = resolved_text(cfg, a, cfg.node_of(c))
            if front:
                r.fail(inst + ":front", Finding("C20.R1", f.fq, f"scratch-preferred-over-designated:{unparse(a)}", f"`{unparse(c)}` puts `{src}` - a register that is only read by the parallel move - in FRONT of the designated free registers: it is chosen as scratch even when the operation names a free register, and the value living in it is clobbered", f"{PM}:{c.lineno}"))
            nfa = set(norm_facts(text_facts(f.node, c)))
            # `while cond: ... else: <here>`: the else branch runs when the condition became false (no break)
            from ..astutil import parent_map as _pm20

            pm20 = _pm20(f.node)
            x_ = c
            while id(x_) in pm20:
                par_ = pm20[id(x_)]
                if isinstance(par_, ast.While) and any(x_ is o_ or any(x_ is y_ for y_ in ast.walk(o_)) for o_ in par_.orelse):
                    nfa |= set(norm_facts([(par_.test, False)]))
                x_ = par_
            an_ = re.escape(unparse(a))
            no_input = any((re.fullmatch(rf"{an_} in \w+", t_) and p_ is False) or (re.fullmatch(rf"\(?(?:\w+ := )?\w+\.get\({an_}\)\)? is None", t_) and p_ is True) for t_, p_ in nfa)
            if not no_input:
                r.fail(inst + ":has-input", Finding("C20.R1", f.fq, f"scratch-with-pending-input:{unparse(a)}", f"`{unparse(c)}` adds `{src}` to the scratch pool without testing that no move writes it (`{unparse(a)} not in <moves by destination>`): when the chain walk stops early (fan-out `break`) the register is a destination that has just received its value, and a later cycle overwrites it", f"{PM}:{c.lineno}"))
            r.fail(inst, Finding("C20.R1", f.fq, "scratch-not-designated:chain-top", f"`{unparse(c)}` adds `{src}` - a register reached at the top of a move chain, i.e. one that is only read by the parallel move - to the scratch pool; it is later overwritten to break a cycle although it is not a destination nor a designated free register (the value living in it is clobbered)", f"{PM}:{c.lineno}"))

    # ---- R2 xor swap template
    r = rep.rule("C20.R2", "the three-instruction xor template is a swap: evaluated in the domain 'register -> xor-set over {a, b}' it leaves a's value in b's register and b's value in a's register, never reading a clobbered SSA value", floor=1)
    g = idx.func(PM, "_insert_swap_ops")
    pa, pb = g.node.args.args[1].arg, g.node.args.args[2].arg
    reg = {pa: "ra", pb: "rb"}  # register of each SSA value
    val = {pa: frozenset({"a"}), pb: frozenset({"b"})}
    content = {"ra": (pa, val[pa]), "rb": (pb, val[pb])}  # register -> (ssa name living there, value)
    problems = []
    n_x = 0
    for s in g.node.body:
        if isinstance(s, ast.Assign) and isinstance(s.value, ast.Call) and unparse(s.value.func) == "rewriter.insert":
            inner = s.value.args[0]
            if not (isinstance(inner, ast.Call) and call_attr(inner) == "XorOp"):
                raise AnalysisError(f"{g.fq}: `{unparse(s)}` is not an inserted XorOp")
            n_x += 1
            x, y = unparse(inner.args[0]), unparse(inner.args[1])
            rd = {k.arg: unparse(k.value) for k in inner.keywords}.get("rd")
            for operand in (x, y):
                if operand not in val:
                    raise AnalysisError(f"{g.fq}: unknown operand {operand}")
                if content[reg[operand]][0] != operand:
                    problems.append(f"`{unparse(s)}` reads {operand} after its register was overwritten by {content[reg[operand]][0]}")
            m = re.fullmatch(r"(\w+)\.type", rd or "")
            if not m or m.group(1) not in reg:
                raise AnalysisError(f"{g.fq}: destination register `{rd}` not recognised")
            dest = reg[m.group(1)]
            name = unparse(s.targets[0])
            val[name] = val[x] ^ val[y]
            reg[name] = dest
            content[dest] = (name, val[name])
    rets = [n for n in walk_local(g.node) if isinstance(n, ast.Return)]
    if n_x != 3 or len(rets) != 1 or not isinstance(rets[0].value, ast.Tuple):
        raise AnalysisError(f"{g.fq}: expected three xor instructions and a pair result")
    if content["ra"][1] != frozenset({"b"}) or content["rb"][1] != frozenset({"a"}):
        problems.append(f"after the template register(a) holds {sorted(content['ra'][1])} and register(b) holds {sorted(content['rb'][1])}; a swap needs ['b'] and ['a']")
    r0, r1 = (unparse(e).removesuffix(".rd") for e in rets[0].value.elts)
    if not (reg.get(r0) == "rb" and val.get(r0) == frozenset({"a"}) and reg.get(r1) == "ra" and val.get(r1) == frozenset({"b"}) and content["rb"][0] == r0 and content["ra"][0] == r1):
        problems.append("the returned SSA values are not (a's value in b's register, b's value in a's register)")
    if problems:
        for p in problems:
            r.fail(g.fq, Finding("C20.R2", g.fq, "not-a-swap", p, g.loc))
    else:
        r.ok(g.fq, f"{g.loc} ra := a^b; rb := (a^b)^b = a; ra := (a^b)^a = b")

    # ---- R3 failure paths
    r = rep.rule("C20.R3", "unallocated registers are rejected before anything is emitted; a cycle without scratch outside the integer class raises PassFailedException", floor=2)
    raises = [n for n in walk_local(f.node) if isinstance(n, ast.Raise) and "must be allocated" in unparse(n)]
    emits = [c for c in calls_in(f.node) if call_attr(c) in ("_insert_mv_op", "_insert_swap_ops") or unparse(c.func).startswith("rewriter.")]
    if raises:
        from ..astutil import parent_map as _pm

        pm = _pm(f.node)
        gates: dict[str, set[int]] = {"src_types": set(), "dst_types": set()}
        for rs in raises:
            facts = [(re.sub(r"\s+", " ", unparse(t)), p) for t, p in guard_facts(f.node, rs)]
            tests = {cfg.node_of(n.test) for n in walk_local(f.node) if isinstance(n, ast.If) and any(x is rs for x in ast.walk(n))}
            loops = []
            n_ = rs
            while id(n_) in pm:
                n_ = pm[id(n_)]
                if isinstance(n_, ast.For):
                    loops.append(n_)
            alloc_facts = [(t_, p_) for t_, p_ in guard_facts(f.node, rs) if "is_allocated" in unparse(t_)]
            for coll in gates:
                # the raise must be reached whenever some register of `coll` is unallocated, whatever the other collection holds
                whole = bool(alloc_facts) and all(_raise_reached(alloc_facts, {coll: False, other: ov}) is True for other in gates if other != coll for ov in (True, False))
                per_elem = [lp for lp in loops if unparse(lp.iter) == coll and any(re.fullmatch(rf"{re.escape(unparse(lp.target))}\.is_allocated", t) and not p for t, p in facts)]
                per_elem += [lp for lp in loops if unparse(lp.iter) == coll and any(t == f"not {unparse(lp.target)}.is_allocated" and p for t, p in facts)]
                if whole:
                    gates[coll] |= tests
                for lp in per_elem:
                    gates[coll].add(cfg.node_of(lp))
        missing = [c_ for c_, g_ in gates.items() if not g_]
        late = [c_ for c_, g_ in gates.items() if g_ and any(cfg.path_avoiding(cfg.entry, cfg.node_of(c), lambda n, g_=g_: n.id in g_, follow_exc=False) is not None for c in emits)]
        if not missing and not late:
            r.ok(f.fq + ":allocated", f"{f.loc} allocation of all sources and destinations checked before the first emitted instruction")
        elif missing:
            r.fail(f.fq + ":allocated", Finding("C20.R3", f.fq, "unallocated-accepted", f"the registers of {missing} are not checked to be allocated before instructions are emitted", f.loc))
        else:
            r.fail(f.fq + ":allocated", Finding("C20.R3", f.fq, "unallocated-accepted", f"instructions can be emitted before the registers of {late} were checked to be allocated", f.loc))
    else:
        r.fail(f.fq + ":allocated", Finding("C20.R3", f.fq, "unallocated-accepted", "unallocated registers are no longer rejected", f.loc))
    fr = [n for n in walk_local(f.node) if isinstance(n, ast.Raise) and "Float cyclic move without free register" in unparse(n)]
    swaps = [c for c in calls_in(f.node) if call_attr(c) == "_insert_swap_ops"]
    # the swap loop / the failure may live in a module-level helper: the call site of the helper stands for it
    for c in calls_in(f.node):
        if isinstance(c.func, ast.Name):
            h_ = idx.try_func(PM, c.func.id)
            if h_ is None or h_.name in ("_insert_swap_ops", "_insert_mv_op"):
                continue
            if not swaps and any(call_attr(k) == "_insert_swap_ops" for k in calls_in(h_.as_raw().node)):
                swaps = [c]
            if not fr and any(isinstance(n, ast.Raise) and "Float cyclic move without free register" in unparse(n) for n in walk_local(h_.as_raw().node)):
                fr = [c]
    if fr and swaps:
        def _cls(nf):
            """True: integer class, False: another class, None: unknown (any spelling, locals resolved)"""
            for t_, p_ in nf:
                if re.fullmatch(r".+ (==|is) (riscv\.)?IntRegisterType|issubclass\(.+, (riscv\.)?IntRegisterType\)|(riscv\.)?IntRegisterType (==|is) .+", t_):
                    return p_
            return None

        def _nofree(nf):
            for t_, p_ in nf:
                if re.fullmatch(r"free_registers\[.+\]|free_registers\.get\(.+, \(\)\)|free_registers\.get\(.+, \[\]\)|free_registers\.get\(.+\)", t_):
                    return not p_
                if re.fullmatch(r"len\(free_registers\[.+\]\) == 0", t_):
                    return p_
                if re.fullmatch(r"len\(free_registers\[.+\]\) (>|>=) (0|1)", t_):
                    return not p_
            return None

        nf_r = norm_facts(text_facts(f.node, fr[0]))
        nf_s = norm_facts(text_facts(f.node, swaps[0]))
        ok = _cls(nf_r) is False and _nofree(nf_r) is True and _cls(nf_s) is True and _nofree(nf_s) is True
        if not ok:
            # a guard that talks about the register class / the scratch pool in a spelling this rule does not read is
            # "cannot decide", not a violation
            for nf_, what_ in ((nf_r, "failure path"), (nf_s, "xor swap")):
                if (_cls(nf_) is None and any("RegisterType" in t_ for t_, _ in nf_)) or (_nofree(nf_) is None and any("free_registers" in t_ for t_, _ in nf_)):
                    raise AnalysisError(f"{f.fq}: guards of the {what_} not understood: {sorted(t_ for t_, _ in nf_ if 'RegisterType' in t_ or 'free_registers' in t_)[:3]}")
        (r.ok(f.fq + ":float-cycle", f"{f.loc} xor swaps only for integer registers without scratch; other classes fail") if ok else r.fail(f.fq + ":float-cycle", Finding("C20.R3", f.fq, "float-cycle", "the xor swap must be used only for integer registers when no scratch register exists; other register classes must raise PassFailedException", f.loc)))
    else:
        r.fail(f.fq + ":float-cycle", Finding("C20.R3", f.fq, "float-cycle", "the failure path for float cycles without scratch register disappeared", f.loc))

    # ---- R4 bookkeeping
    r = rep.rule("C20.R4", "every source register is removed from the leaves (self-moves included); a destination gets its result once; the value parked in the scratch register is restored with the width it was saved with", floor=3)
    loops = [w for w in walk_local(f.node) if isinstance(w, ast.For) and "zip(range(num_operands), srcs, dsts" in unparse(w.iter)]
    if len(loops) != 1:
        raise AnalysisError(f"{f.fq}: edge-collection loop not found")
    w = loops[0]
    head = cfg.node_of(w)
    # the loop variable that ranges over the sources: the target paired with `srcs` in the zip
    zargs = [unparse(a_) for a_ in w.iter.args] if isinstance(w.iter, ast.Call) else []
    srcv = unparse(w.target.elts[zargs.index("srcs")]) if isinstance(w.target, ast.Tuple) and "srcs" in zargs and len(w.target.elts) == len(zargs) else "src"
    disc = {cfg.node_of(c) for c in calls_in(w) if unparse(c) in (f"leaves.discard({srcv}.type)", f"leaves.difference_update({{{srcv}.type}})") or (unparse(c) == f"leaves.remove({srcv}.type)" and (f"{srcv}.type in leaves", True) in norm_facts(text_facts(f.node, c)))}
    starts = [m for m, lab in cfg.succ[head] if lab == "T"]
    # alternative: the sources are removed in bulk: leaves = set(dst_types) - {s.type for s in srcs} (or -= / difference_update)
    ALL_SRC_TYPES = (r"\{(\w+)\.type for \1 in srcs\}", r"set\(src_types\)", r"src_types", r"set\(\((\w+)\.type for \1 in srcs\)\)")
    bulk = False
    ALL_SRC = r"(?:set\()?\(?\{?\(?(?:(\w+)\.type for \1 in srcs|src_types)\)?\}?\)?\)?"
    for st_ in walk_local(f.node):
        tt0_ = unparse(st_) if isinstance(st_, (ast.Assign, ast.AnnAssign, ast.AugAssign, ast.Expr)) else ""
        if re.fullmatch(rf"leaves(?:: [^=]+)? = set\(dst_types\)\.difference\({ALL_SRC}\)", tt0_) or re.fullmatch(rf"leaves(?:: [^=]+)? = \{{?\(?(\w+) for \1 in dst_types if \1 not in {ALL_SRC}\)?\}}?", tt0_):
            bulk = True
    for st_ in walk_local(f.node):
        tt_ = unparse(st_) if isinstance(st_, (ast.Assign, ast.AnnAssign, ast.AugAssign, ast.Expr)) else ""
        for pat_ in ALL_SRC_TYPES:
            if re.fullmatch(rf"leaves(?:: [^=]+)? = set\(dst_types\) - {pat_}", tt_) or re.fullmatch(rf"leaves -= {pat_}", tt_) or re.fullmatch(rf"leaves\.difference_update\({pat_}\)", tt_):
                bulk = True
    if bulk and not disc:
        r.ok(f.fq + ":leaves", f"{f.loc} every source type is removed from the leaves in bulk")
    elif disc and not any(m not in disc and cfg.path_avoiding(m, head, lambda n: n.id in disc, follow_exc=False) is not None for m in starts):
        r.ok(f.fq + ":leaves", f"{f.loc} leaves.discard(src.type) on every iteration")
    else:
        r.fail(f.fq + ":leaves", Finding("C20.R4", f.fq, "source-stays-leaf", "an iteration of the edge-collection loop skips `leaves.discard(src.type)` (e.g. for a self-move): a register that is read stays a leaf, is treated as free and is overwritten", f.loc))
    stores_ = {unparse(n.targets[0]) for n in walk_local(f.node) if isinstance(n, ast.Assign) and isinstance(n.targets[0], ast.Subscript) and unparse(n.targets[0].value) == "results"}
    asserts = [n for n in walk_local(f.node) if isinstance(n, ast.Assert) and (m_ := re.fullmatch(r"(results\[.+\]) is None", unparse(n.test))) and m_.group(1) in stores_]
    (r.ok(f.fq + ":once", f"{f.loc} a destination receives its result once in the tree phase") if asserts else r.fail(f.fq + ":once", Finding("C20.R4", f.fq, "result-twice", "the single-assignment check of destination results disappeared", f.loc)))
    # the moves are emitted by match_and_rewrite and by the module-level helpers it calls (one level)
    scopes = [f.node]
    mi20 = idx.module(PM)
    for c in calls_in(f.node):
        if isinstance(c.func, ast.Name):
            h = idx.try_func(PM, c.func.id)
            if h is not None and h.name != "_insert_mv_op" and any(call_attr(k) == "_insert_mv_op" or (isinstance(k.func, ast.Name) and k.func.id == "_insert_mv_op") for k in calls_in(h.as_raw().node)):
                scopes.append(h.as_raw().node)
    found_pair = False
    for sc in scopes:
        scfg = cfg if sc is f.node else CFG(sc)
        mv = [c for c in calls_in(sc) if (call_attr(c) or (c.func.id if isinstance(c.func, ast.Name) else "")) == "_insert_mv_op" and len(c.args) >= 4]
        if not mv:
            continue
        # save = a move whose result is bound to a name X; restore = the move whose source is X
        bound = {}
        for st_ in walk_local(sc):
            if isinstance(st_, ast.Assign) and len(st_.targets) == 1 and isinstance(st_.targets[0], ast.Name) and st_.value in mv:
                bound[st_.targets[0].id] = st_.value
        pairs = [(sv, c) for nm_, sv in bound.items() for c in mv if unparse(c.args[1]) == nm_]
        save = [sv for sv, _ in pairs]
        restore = [c for _, c in pairs]
        ws = None
        for sv, rs in pairs:
            found_pair = True
            ws = resolved_text(scfg, sv.args[3], scfg.node_of(sv))
            wr = resolved_text(scfg, rs.args[3], scfg.node_of(rs))
            if ws == wr:
                r.ok(f.fq + ":width", f"{f.loc} saved and restored with the same width `{ws}`")
            else:
                r.fail(f.fq + ":width", Finding("C20.R4", f.fq, "restore-width", f"the value parked in the scratch register is saved with width `{ws}` but restored with `{wr}`: a 64-bit float restored with fmv.s is truncated", f"{PM}:{rs.lineno}"))
        # tables that hold the width registered for each source value
        table = {n.targets[0].id for n in walk_local(sc) if isinstance(n, ast.Assign) and isinstance(n.targets[0], ast.Name) and "input_widths" in unparse(n.value)}
        for w_ in walk_local(sc):
            if isinstance(w_, ast.For) and "input_widths" in unparse(w_.iter):
                table |= {unparse(s_.targets[0].value) for s_ in walk_local(w_) if isinstance(s_, ast.Assign) and isinstance(s_.targets[0], ast.Subscript)}
        if sc is not f.node:
            # a helper receives the table as a parameter: the argument passed at the call site names it
            table |= {a_.arg for a_ in sc.args.args}
        for c in mv:
            if c in save or c in restore:
                continue
            S, W = unparse(c.args[1]), unparse(c.args[3])
            Wr = resolved_text(scfg, c.args[3], scfg.node_of(c))
            Sr = resolved_text(scfg, c.args[1], scfg.node_of(c))
            inst = f"{f.fq}:mv-width@{S}->{unparse(c.args[2])}"
            if any(W == f"{t}[{S}]" or Wr in (f"{t}[{S}]", f"{t}[{Sr}]") for t in table):
                r.ok(inst, f"{PM}:{c.lineno} moved with the width registered for its own source")
            elif save and (Wr == ws or W == unparse(save[0].args[3])):
                r.fail(inst, Finding("C20.R4", f.fq, f"move-width:{W}", f"`{unparse(c)}` moves `{S}` with `{W}`, the width of the move that was split to break the cycle, not the width registered for `{S}` itself: in a float cycle with mixed widths a 64-bit value is moved with fmv.s and loses its upper half", f"{PM}:{c.lineno}"))
            else:
                raise AnalysisError(f"{f.fq}: width argument `{W}` of `{unparse(c)[:60]}` not understood")
    if not found_pair:
        raise AnalysisError(f"{f.fq}: save / restore through the scratch register not found")
    if unparse(f.node).rstrip().endswith("rewriter.replace(op, (), results)"):
        r.ok(f.fq + ":replace", None)

    return (
        "Derivation of the scratch pool's elements, exact abstract evaluation of the xor template in the xor-set domain, "
        "ordering / guard rules for the failure paths, per-iteration bookkeeping rules. Correct ordering of the emitted moves "
        "for every move graph is not decided (a defect of the xor walk for integer cycles of length >= 3 was seen while "
        "probing; no exact structural rule separates it, see DESIGN.md)."
    )
