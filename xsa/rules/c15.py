"""C15 — interpreter (narrow structural claim): width-normalisation discipline of integer arith
implementations, signedness of operand conversion, predicate tables, integer-only division,
truthiness of branch conditions."""

from __future__ import annotations

import ast
import re

from ..astutil import canon_cmp, dispatch_tables, call_attr, calls_in, unparse, walk_local
from ..cfg import CFG
from ..dataflow import resolved_text
from ..report import Finding, Report
from ..srcindex import AnalysisError, Index, raw_funcs

IA = "xdsl/interpreters/arith.py"
AR = "xdsl/dialects/arith.py"
NORMALISERS = {"to_signed", "to_unsigned", "_truncate", "_sign_extend"}
CMP_OP = {"eq": "==", "ne": "!=", "lt": "<", "le": "<=", "gt": ">", "ge": ">="}


def _str_list(idx: Index, relpath: str, name: str) -> list[str]:
    mi = idx.module(relpath)
    v = mi.assigns.get(name)
    if not isinstance(v, ast.List) or not all(isinstance(e, ast.Constant) for e in v.elts):
        raise AnalysisError(f"{relpath}: {name} is not a list of string constants")
    return [e.value for e in v.elts]  # type: ignore[attr-defined]


def impls(idx: Index):
    cls = idx.cls(IA, "ArithFunctions")
    out = []
    for nm, defs in cls.methods.items():
        for d in defs:
            for dec in d.node.decorator_list:
                if isinstance(dec, ast.Call) and unparse(dec.func) == "impl" and dec.args:
                    out.append((unparse(dec.args[0]).split(".")[-1], d))
    return out


def check_scopes(idx: Index, rep: Report) -> None:
    """Every scope an interpreter function pushes is gone when the function returns: the environment is restored from
    a snapshot taken before the first push, or each push is paired with a pop at the same loop depth.  A function that
    pushes once per executed block and pops once at the end leaks a scope per extra block; the leaked scopes shadow
    the caller's bindings of the same SSA values after a recursive call returns."""
    r = rep.rule("C15.R8", "scopes pushed while running a region are all discarded on return (snapshot restore, or push/pop paired at the same loop depth)", floor=1)
    from ..astutil import parent_map

    n_fn = 0
    for rel in ("xdsl/interpreter.py", "xdsl/interpreters/pdl.py"):
        mi = idx.module(rel)
        funcs = list(raw_funcs(mi))

        def evaluate(f, push_names):
            """[(call, ok, message-if-ok, where, n_pops, n_restores)] for every scope push (or call of a pushing helper) of f"""
            pushes = [c for c in calls_in(f.node) if call_attr(c) in push_names]
            if not pushes:
                return []
            cfg = CFG(f.node)
            pm = parent_map(f.node)

            def loop_of(n_):
                while id(n_) in pm:
                    n_ = pm[id(n_)]
                    if isinstance(n_, (ast.For, ast.While)):
                        return n_
                return None

            pops = [c for c in calls_in(f.node) if call_attr(c) == "pop_scope"]
            recv = unparse(pushes[0].func.value)  # type: ignore[attr-defined]
            snaps = [s_ for s_ in walk_local(f.node) if isinstance(s_, ast.Assign) and len(s_.targets) == 1 and isinstance(s_.targets[0], ast.Name) and unparse(s_.value) == f"{recv}._ctx"]
            restores = [s_ for s_ in walk_local(f.node) if isinstance(s_, ast.Assign) and unparse(s_.targets[0]) == f"{recv}._ctx" and isinstance(s_.value, ast.Name) and any(unparse(sn.targets[0]) == s_.value.id for sn in snaps)]
            out = []
            for c in pushes:
                n_push = cfg.node_of(c)
                snap_ok = False
                for rs in restores:
                    sn = next(sn for sn in snaps if unparse(sn.targets[0]) == rs.value.id)  # type: ignore[attr-defined]
                    before = cfg.node_of(sn) not in cfg.reachable(n_push) and loop_of(sn) is None
                    nr = cfg.node_of(rs)
                    # every normal way out of the function after a push passes the restore
                    covers = cfg.path_avoiding(n_push, cfg.exit, lambda x, nr=nr: x.id == nr, follow_exc=False) is None
                    if before and covers and loop_of(rs) is None:
                        snap_ok = True
                lp = loop_of(c)
                pair_ok = False
                same = [p_ for p_ in pops if loop_of(p_) is lp]
                if same:
                    pn = {cfg.node_of(p_) for p_ in same}
                    target = cfg.node_of(lp) if lp is not None else cfg.exit
                    pair_ok = cfg.path_avoiding(n_push, target, lambda x: x.id in pn, follow_exc=False) is None
                msg = "environment restored from a snapshot taken before the first push" if snap_ok else "push paired with pop at the same loop depth" if pair_ok else None
                out.append((c, msg, "inside a loop" if lp is not None else "here", len(pops), len(restores)))
            return out

        first = {f.fq: (f, evaluate(f, {"push_scope"})) for f in funcs if f.name not in ("push_scope", "pop_scope")}
        # a private helper that leaves its scope to the caller: the obligation moves to every call site
        leaky = {f.name for f, res in first.values() if f.name.startswith("_") and any(m_ is None for _, m_, *_ in res)}
        leaky = {nm for nm in leaky if any(call_attr(c) == nm and isinstance(c.func, ast.Attribute) and unparse(c.func.value) == "self" for g in funcs for c in calls_in(g.node))}
        for f, res in first.values():
            if f.name in leaky:
                n_fn += 1
                for c, m_, *_ in res:
                    r.ok(f"{f.fq}:{c.lineno - f.node.lineno}", f"{f.module.relpath}:{c.lineno} helper leaves the scope to its callers (checked there)")
                continue
            res2 = evaluate(f, {"push_scope"} | leaky) if leaky else res
            if not res2:
                continue
            n_fn += 1
            for c, m_, where, npops, nrest in res2:
                inst = f"{f.fq}:{c.lineno - f.node.lineno}"
                if m_ is not None:
                    r.ok(inst, f"{f.module.relpath}:{c.lineno} {m_}")
                else:
                    r.fail(inst, Finding("C15.R8", f.fq, "scope-leak", f"`{unparse(c)}` ({where}) is neither undone by restoring a snapshot of the environment taken before it nor paired with a pop_scope at the same loop depth ({npops} pop_scope call(s), {nrest} snapshot restore(s) in the function): a region that executes k blocks leaves k-1 scopes behind, which shadow the caller's values after a recursive call", f"{f.module.relpath}:{c.lineno}"))
    if n_fn == 0:
        raise AnalysisError("no function pushing an interpreter scope found")


def _operand_flow(fn: ast.AST, want: str) -> tuple[set[int], dict[int, list[str]]]:
    """Which operands (elements of the `args` parameter) are converted by `want(x, …)`, and where an operand is used as it
    arrived.  Statements are followed in source order; a name holds operand i raw ("r", i), converted ("c", i) or neither."""
    params = [a.arg for a in fn.args.args]  # type: ignore[attr-defined]
    argsn = params[-1] if params else "args"
    state: dict[str, tuple[str, int]] = {}
    conv: set[int] = set()
    raw_uses: dict[int, list[str]] = {}

    def operand_of(e: ast.AST):
        if isinstance(e, ast.Name) and e.id in state:
            return state[e.id]
        if isinstance(e, ast.Subscript) and isinstance(e.value, ast.Name) and e.value.id == argsn and isinstance(e.slice, ast.Constant) and isinstance(e.slice.value, int):
            return ("r", e.slice.value)
        return None

    def scan(e: ast.AST, stmt: ast.AST) -> None:
        """record raw uses inside expression e (a want(...) call consumes its first argument legitimately)"""
        if isinstance(e, ast.Call) and isinstance(e.func, ast.Name) and e.func.id == want and e.args:
            o = operand_of(e.args[0])
            if o is not None and o[0] == "r":
                conv.add(o[1])
                for a in e.args[1:]:
                    scan(a, stmt)
                return
        o = operand_of(e)
        if o is not None and o[0] == "r" and isinstance(getattr(e, "ctx", None), ast.Load):
            raw_uses.setdefault(o[1], []).append(unparse(stmt))
            return
        for ch in ast.iter_child_nodes(e):
            scan(ch, stmt)

    def bind(tg: ast.AST, val: ast.AST | None) -> None:
        if isinstance(tg, (ast.Tuple, ast.List)):
            if isinstance(val, ast.Name) and val.id == argsn:
                for i, t_ in enumerate(tg.elts):
                    if isinstance(t_, ast.Name):
                        state[t_.id] = ("r", i)
                return
            if isinstance(val, (ast.Tuple, ast.List)) and len(val.elts) == len(tg.elts):
                for t_, v_ in zip(tg.elts, val.elts):
                    bind(t_, v_)
                return
            for t_ in tg.elts:
                bind(t_, None)
            return
        if not isinstance(tg, ast.Name):
            return
        o = None
        if val is not None:
            if isinstance(val, ast.Call) and isinstance(val.func, ast.Name) and val.func.id == want and val.args:
                oo = operand_of(val.args[0])
                if oo is not None:
                    o = ("c", oo[1])
            else:
                o = operand_of(val)
        if o is None:
            state.pop(tg.id, None)
        else:
            state[tg.id] = o

    def walk(body: list[ast.stmt]) -> None:
        for st in body:
            if isinstance(st, ast.Assign) and len(st.targets) == 1:
                pure_move = isinstance(st.value, (ast.Name, ast.Tuple, ast.List, ast.Subscript)) and (operand_of(st.value) is not None or isinstance(st.value, (ast.Tuple, ast.List)) or (isinstance(st.value, ast.Name) and st.value.id == argsn))
                if not pure_move:
                    scan(st.value, st)
                elif isinstance(st.value, (ast.Tuple, ast.List)):
                    for v_ in st.value.elts:
                        if operand_of(v_) is None:
                            scan(v_, st)
                bind(st.targets[0], st.value)
            elif isinstance(st, ast.AnnAssign):
                if st.value is not None:
                    if operand_of(st.value) is None:
                        scan(st.value, st)
                    bind(st.target, st.value)
            elif isinstance(st, (ast.If, ast.While)):
                scan(st.test, st)
                walk(st.body)
                walk(st.orelse)
            elif isinstance(st, ast.For):
                scan(st.iter, st)
                walk(st.body)
                walk(st.orelse)
            elif isinstance(st, (ast.With, ast.Try)):
                for fld in ("body", "orelse", "finalbody"):
                    walk(getattr(st, fld, []) or [])
                for h in getattr(st, "handlers", []):
                    walk(h.body)
            elif isinstance(st, ast.Match):
                scan(st.subject, st)
                for c_ in st.cases:
                    walk(c_.body)
            else:
                for ch in ast.iter_child_nodes(st):
                    if isinstance(ch, ast.expr):
                        scan(ch, st)

    walk(fn.body)  # type: ignore[attr-defined]
    for nm, (k, i) in state.items():
        if k == "c":
            conv.add(i)
    return conv, raw_uses


def check(idx: Index, rep: Report, tier: str) -> str:
    arith_mod = idx.module(AR)
    table = impls(idx)
    if len(table) < 20:
        raise AnalysisError(f"only {len(table)} arith implementations found")

    def is_int_binop(opname: str) -> bool:
        c = arith_mod.classes.get(opname)
        return c is not None and idx.is_subclass(c, "SignlessIntegerBinaryOperation")

    r1 = rep.rule("C15.R1", "every integer-result arith implementation returns a value that went through a width normaliser with the bit-width of the result type", floor=10)
    r2 = rep.rule("C15.R2", "signedness-sensitive integer operations convert both operands with the matching normaliser before using them", floor=4)
    r5 = rep.rule("C15.R5", "integer operations never go through float arithmetic (true division, math.fmod / floor / ..., float())", floor=10)
    helpers = {f.name: f for f in idx.module(IA).functions.values() if f.cls is None}
    for opname, d in table:
        if not is_int_binop(opname):
            continue
        cfg = CFG(d.node)
        rets = [n for n in walk_local(d.node) if isinstance(n, ast.Return)]
        bad = []
        for rt in rets:
            v = rt.value
            el = v.elts[0] if isinstance(v, ast.Tuple) and len(v.elts) == 1 else v
            t = resolved_text(cfg, el, cfg.node_of(rt)) if el is not None else ""
            m = re.match(r"(to_signed|to_unsigned|_truncate|_sign_extend)\(.*, _int_bitwidth\(interpreter, op\.result\.type\)\)$", t)
            if not m:
                bad.append(t)
        inst = f"{d.fq}[{opname}]"
        if bad:
            r1.fail(inst, Finding("C15.R1", d.fq, f"unnormalised-result:{opname}", f"{d.name} ({opname}) returns `{bad[0][:70]}` without wrapping it to the width of the result type: results can leave the type's range (e.g. shli 1, 9 : i8 gives 512)", d.loc))
        else:
            r1.ok(inst, f"{d.loc} {opname}: result normalised to the result width")
        # signedness of operands
        sens = re.search(r"(S|U)I?Op$", opname) and re.search(r"(SI|UI)Op$", opname)
        if sens:
            want = "to_signed" if opname.endswith("SIOp") else "to_unsigned"
            # a shift amount is not a signed quantity (amounts >= width are poison): only the shifted value needs the conversion
            need = [0] if opname.startswith("ShR") else [0, 1]
            conv, raw_uses = _operand_flow(d.node, want)
            bad_ops = [i for i in need if raw_uses.get(i)]
            if bad_ops:
                i = bad_ops[0]
                r2.fail(inst, Finding("C15.R2", d.fq, f"operands-not-normalised:{opname}", f"{d.name} ({opname}) uses its operand {i} without {want}(…, width) in `{raw_uses[i][0][:60]}`: a non-canonical representative (e.g. 200 for the i8 value -56) gives the wrong {'signed' if want == 'to_signed' else 'unsigned'} result", d.loc))
            elif all(i in conv for i in need):
                r2.ok(inst, f"{d.loc} operands through {want}")
            else:
                r2.fail(inst, Finding("C15.R2", d.fq, f"operand-flow-unrecognised:{opname}", f"{d.name} ({opname}): how the operands reach the computation was not recognised (converted: {sorted(conv)}, needed: {need})", d.loc))
        # true division
        called = [helpers[call_attr(c)] for c in calls_in(d.node) if call_attr(c) in helpers]
        divs = [x for fn in [d] + called for x in walk_local(fn.node) if isinstance(x, ast.BinOp) and isinstance(x.op, ast.Div)]
        # the same through the float library: math.fmod / floor / ceil / trunc / remainder / pow, float(), divmod on floats
        divs += [x for fn in [d] + called for x in calls_in(fn.node) if re.fullmatch(r"(math\.)?(fmod|remainder|floor|ceil|trunc|pow|sqrt|log2?|copysign)|float", unparse(x.func))]
        if divs:
            r5.fail(inst, Finding("C15.R5", d.fq, f"float-division:{opname}", f"`{unparse(divs[0])}` computes an integer operation through float arithmetic (true division or a float library function): exact only below 2**53, so 64-bit operands give wrong quotients / remainders", f"{IA}:{divs[0].lineno}"))
        else:
            r5.ok(inst, None)

    # ---- predicate tables
    r3 = rep.rule("C15.R3", "cmpi / cmpf case k applies the comparison named by the k-th mnemonic of the dialect's list (and, for cmpi, on operands normalised with the predicate's signedness)", floor=26)
    cmpi = _str_list(idx, AR, "CMPI_COMPARISON_OPERATIONS")
    cmpf = _str_list(idx, AR, "CMPF_COMPARISON_OPERATIONS")
    f = dict((o, d) for o, d in table).get("CmpiOp")
    if f is None:
        raise AnalysisError("run_cmpi not found")
    cases = {}
    for _s, tbl_, _d, _n in dispatch_tables(f.node):  # `match` or if-chain on the predicate number
        for key_, body_ in tbl_.items():
            if re.fullmatch(r"-?\d+", key_):
                rets = [s for s in body_ if isinstance(s, ast.Return)]
                if rets and rets[0].value is not None:
                    cases[int(key_)] = rets[0].value.elts[0] if isinstance(rets[0].value, ast.Tuple) else rets[0].value
    cfg = CFG(f.node)
    for k, mn in enumerate(cmpi):
        inst = f"cmpi:{k}:{mn}"
        e = cases.get(k)
        if e is None:
            r3.fail(inst, Finding("C15.R3", f.fq, f"cmpi-missing:{mn}", f"cmpi predicate {k} ({mn}) has no implementation", f.loc))
            continue
        if not (isinstance(e, ast.Compare) and len(e.ops) == 1):
            r3.fail(inst, Finding("C15.R3", f.fq, f"cmpi-shape:{mn}", f"case {k} ({mn}) is `{unparse(e)}`, not a single comparison", f.loc))
            continue
        op = {ast.Eq: "==", ast.NotEq: "!=", ast.Lt: "<", ast.LtE: "<=", ast.Gt: ">", ast.GtE: ">="}[type(e.ops[0])]
        want = CMP_OP[mn[-2:]]
        l, rr = resolved_text(cfg, e.left, cfg.node_of(e)), resolved_text(cfg, e.comparators[0], cfg.node_of(e))
        if "args[1]" in l and "args[0]" in rr and "args[0]" not in l and "args[1]" not in rr:
            # written the other way round (`rhs > lhs` for `lhs < rhs`): same relation with the operands swapped
            l, rr = rr, l
            op = {"<": ">", "<=": ">=", ">": "<", ">=": "<=", "==": "==", "!=": "!="}[op]
        if op != want:
            r3.fail(inst, Finding("C15.R3", f.fq, f"cmpi-operator:{mn}", f"case {k} ({mn}) compares with `{op}`; the mnemonic means `{want}`", f.loc))
            continue
        norm = "to_unsigned" if mn.startswith("u") else "to_signed"
        if mn in ("eq", "ne"):
            ok = any(l.startswith(n_ + "(") and rr.startswith(n_ + "(") for n_ in ("to_signed", "to_unsigned"))
        else:
            ok = l.startswith(norm + "(") and rr.startswith(norm + "(")
        if ok and "args[0]" in l and "args[1]" in rr:
            r3.ok(inst, f"{f.loc} {mn}: {norm}(lhs) {op} {norm}(rhs)")
        else:
            r3.fail(inst, Finding("C15.R2", f.fq, f"cmpi-raw-operands:{mn}", f"case {k} ({mn}) compares `{l} {op} {rr}`: the operands are not normalised with {norm}(…, width), so two representatives of the same bit pattern (200 and -56 for i8) compare differently and unsigned predicates order by the signed value (cmpi ult 200, 1 : i8 is true)", f.loc))
    g = dict((o, d) for o, d in table).get("CmpfOp")
    if g is None:
        raise AnalysisError("run_cmpf not found")
    gcfg = CFG(g.node)
    argsn = g.node.args.args[-1].arg
    A, B = f"{argsn}[0]", f"{argsn}[1]"
    O, U = f"not isnan({A}) and (not isnan({B}))", f"isnan({A}) or isnan({B})"
    canon_ = lambda t_: canon_cmp(ast.parse(t_, mode="eval").body)  # comparisons oriented with < / <= on both sides
    fcases = {}
    for _s, tbl_, _d, _n in dispatch_tables(g.node):
        for key_, body_ in tbl_.items():
            if re.fullmatch(r"-?\d+", key_):
                rets = [s for s in body_ if isinstance(s, ast.Return)]
                if rets and rets[0].value is not None:
                    e_ = rets[0].value.elts[0] if isinstance(rets[0].value, ast.Tuple) else rets[0].value
                    # the returned expression with the locals (operands, ordered / unordered flags) replaced by their definitions
                    fcases[int(key_)] = canon_(resolved_text(gcfg, e_, gcfg.node_of(rets[0])))
    if not fcases:
        raise AnalysisError("run_cmpf: dispatch on the predicate not recognised")
    for k, mn in enumerate(cmpf):
        if mn == "false":
            want = "False"
        elif mn == "true":
            want = "True"
        elif mn == "ord":
            want = O
        elif mn == "uno":
            want = U
        else:
            want = f"{A} {CMP_OP[mn[1:]]} {B} {'and (' + O + ')' if mn[0] == 'o' else 'or (' + U + ')'}"
        want = canon_(want)
        inst = f"cmpf:{k}:{mn}"
        if fcases.get(k) == want:
            r3.ok(inst, f"{g.loc} {mn}: {want}")
        else:
            r3.fail(inst, Finding("C15.R3", g.fq, f"cmpf:{mn}", f"case {k} ({mn}) computes `{fcases.get(k)}`; the mnemonic means `{want}`", g.loc))

    # ---- branch conditions are consumed through truthiness only
    r4 = rep.rule("C15.R4", "an i1 condition is consumed only through truthiness (a true i1 may be represented as True, 1 or -1)", floor=2)
    for mod, q in (("xdsl/interpreters/cf.py", "CfFunctions.run_cond_br"), ("xdsl/interpreters/scf.py", "ScfFunctions.run_if")):
        f = idx.try_func(mod, q)
        if f is None:
            raise AnalysisError(f"{mod}: {q} not found")
        cfg = CFG(f.node)
        bad = None
        for n in walk_local(f.node):
            if isinstance(n, ast.Compare):
                sides = [resolved_text(cfg, n.left, cfg.node_of(n))] + [resolved_text(cfg, c, cfg.node_of(n)) for c in n.comparators]
                if any(re.fullmatch(r"args\[0\]|cond|args", s) or s in ("args[0]",) for s in sides) and any(s in ("1", "True", "-1") for s in sides):
                    bad = n
            if isinstance(n, ast.Compare) and any(unparse(x) in ("1", "True") for x in [n.left] + n.comparators) and "args" in resolved_text(cfg, n, cfg.node_of(n)):
                bad = n
        if bad is not None:
            r4.fail(f.fq, Finding("C15.R4", f.fq, "condition-by-equality", f"`{unparse(bad)}` tests the i1 condition by equality: a true value produced by an i1 arithmetic op is -1 (signed canonical form), so the else branch is taken", f"{mod}:{bad.lineno}"))
        else:
            r4.ok(f.fq, f"{f.loc} condition used through truthiness")

    # ---- the normalisers themselves are total modular reductions
    r6 = rep.rule("C15.R6", "the width normalisers are total: every return of to_unsigned / to_signed / _truncate / _sign_extend is a reduction modulo 2**width of its (arbitrary) integer argument, so overflowed intermediate results wrap", floor=4)
    CMPU = "xdsl/utils/comparisons.py"
    from .. import modarith as ma

    cm = idx.module(CMPU)
    cm_funcs = {n: f.node for n, f in cm.functions.items() if f.cls is None}
    ia_funcs = {n: f.node for n, f in idx.module(IA).functions.items() if f.cls is None}
    for nm, want in (("unsigned_upper_bound", ma.M_), ("signed_upper_bound", ma.H_), ("signed_lower_bound", -ma.H_)):
        bf = idx.func(CMPU, nm)
        got = ma.const_of(bf.node, cm_funcs)
        if got == want:
            r6.ok(bf.fq, f"{bf.loc} {nm}(w) = {got} with M = 2**w")
        else:
            r6.fail(bf.fq, Finding("C15.R6", bf.fq, f"bound:{nm}", f"{nm}(w) evaluates to {got} (M = 2**w); it must be {want}", bf.loc))

    def modular(fi, funcs, lo, hi, what: str) -> None:
        for val, line in ma.analyse(fi.node, funcs):
            inst = f"{fi.fq}:{line - fi.node.lineno}"
            loc = f"{fi.module.relpath}:{line}"
            if not isinstance(val, ma.Var):
                r6.fail(inst, Finding("C15.R6", fi.fq, "constant-result", f"a path returns the constant {val}", loc))
            elif val.cong is None or not val.cong.is_multiple_of_m():
                r6.fail(inst, Finding("C15.R6", fi.fq, "not-congruent", f"the value returned at line {line} is {val.show()}: it is not congruent to the argument modulo 2**width", loc))
            elif not ma.within(val, lo, hi):
                r6.fail(inst, Finding("C15.R6", fi.fq, "partial-normaliser", f"the value returned at line {line} is {val.show()}, not inside the {what} range [{lo}, {hi}] for every integer argument: the function only corrects arguments within one modulus of the range, but the interpreter applies it to raw Python results of addi/subi/muli/shli, which overflow by arbitrary amounts (e.g. 127 * 127 : i8, -128 + -1 : i8)", loc))
            else:
                r6.ok(inst, f"{loc} {fi.name}: {val.show()} ⊆ {what} range")

    modular(idx.func(CMPU, "to_unsigned"), cm_funcs, ma.ZERO, ma.M_ - ma.ONE, "unsigned")
    modular(idx.func(CMPU, "to_signed"), cm_funcs, -ma.H_, ma.H_ - ma.ONE, "signed")
    modular(idx.func(IA, "_truncate"), ia_funcs, -ma.H_, ma.H_ - ma.ONE, "signed")
    modular(idx.func(IA, "_sign_extend"), ia_funcs, -ma.H_, ma.H_ - ma.ONE, "signed")

    # ---- loop interpreters iterate exactly the induction values of range(lb, ub, step)
    r7 = rep.rule("C15.R7", "every loop interpreter runs the body once per element of range(lb, ub, step) (ceil((ub-lb)/step) iterations), with the bounds taken in operand order", floor=3)
    for mod, q in (("xdsl/interpreters/scf.py", "ScfFunctions.run_for"), ("xdsl/interpreters/affine.py", "AffineFunctions.run_for"), ("xdsl/interpreters/riscv_scf.py", "RiscvScfFunctions.run_for")):
        lf = idx.try_func(mod, q)
        if lf is None:
            raise AnalysisError(f"{mod}: {q} not found")
        cfg = CFG(lf.node)
        loops = [n for n in walk_local(lf.node) if isinstance(n, (ast.For, ast.While)) and any(call_attr(c) in ("run_ssacfg_region", "run_op", "_run_block", "run_region") for c in calls_in(n))]
        if len(loops) != 1:
            raise AnalysisError(f"{lf.fq}: expected one loop running the body, found {len(loops)}")
        lp = loops[0]
        it = lp.iter if isinstance(lp, ast.For) else None
        if isinstance(it, ast.Call) and unparse(it.func) == "range" and len(it.args) == 3:
            a3 = [resolved_text(cfg, a, cfg.node_of(lp)) for a in it.args]
            # the induction variable must be what is passed to the body
            iv = unparse(lp.target)
            passes_iv = any(iv in {n_.id for n_ in ast.walk(c) if isinstance(n_, ast.Name)} for c in calls_in(lp)) or any(isinstance(s_, ast.Assign) and iv in unparse(s_.value) for s_ in walk_local(lp) if isinstance(s_, ast.Assign))
            unpack = [s_ for s_ in lf.node.body if isinstance(s_, ast.Assign) and isinstance(s_.targets[0], ast.Tuple) and unparse(s_.value) == "args"]
            order_ok = True
            if unpack:
                names3 = [unparse(e) for e in unpack[0].targets[0].elts[:3]]
                order_ok = [unparse(a) for a in it.args] == names3
            if passes_iv and order_ok:
                r7.ok(lf.fq, f"{lf.loc} for {iv} in range({', '.join(a3)})")
            else:
                r7.fail(lf.fq, Finding("C15.R7", lf.fq, "range-operands", f"`{unparse(it)}` does not take (lb, ub, step) in operand order, or the induction variable `{iv}` is not passed to the body", lf.loc))
        else:
            floor_divs = [b for b in walk_local(lf.node) if isinstance(b, ast.BinOp) and isinstance(b.op, ast.FloorDiv)]
            ceil = any(re.search(r"-\(-|\+ \w+ - 1\)", unparse(b)) for b in floor_divs) or "ceil" in unparse(lf.node)
            if floor_divs and not ceil:
                r7.fail(lf.fq, Finding("C15.R7", lf.fq, "floor-trip-count", f"the trip count is computed as `{unparse(floor_divs[0])}` (floor division): a loop whose range is not a multiple of the step loses its last iteration (0 to 5 step 2 runs twice instead of three times)", f"{mod}:{floor_divs[0].lineno}"))
            else:
                raise AnalysisError(f"{lf.fq}: loop shape `{unparse(lp).splitlines()[0]}` not recognised")

    rep.run(check_scopes, idx, rep)
    return (
        "Derivation / table rules over xdsl/interpreters/arith.py (+ cf, scf): returned integers pass a width normaliser "
        "with the result type's bit-width, signedness-sensitive operations normalise both operands, cmpi/cmpf cases match "
        "the dialect's mnemonic lists, no float division in integer operations, i1 conditions consumed by truthiness. "
        "Float rounding to f32, poison cases and value-level results are not decided."
    )
