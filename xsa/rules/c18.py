"""C18 — pipeline specifications round-trip: writer forms vs the token language each value type is
read back from (first-match lexer), escape alphabets, empty-value handling, registry agreement."""

from __future__ import annotations

import ast
import re

from .. import regexlang as rx
from ..astutil import call_attr, call_name, calls_in, guard_facts, unparse, walk_local
from ..cfg import CFG
from ..dataflow import resolved_text
from ..report import Finding, Report
from ..rx_extract import compile_call
from ..srcindex import AnalysisError, ClassInfo, Index

AS = "xdsl/utils/arg_spec.py"
LEXER = "xdsl/utils/mlir_lexer.py"
TR = "xdsl/transforms/__init__.py"


def lexer_rules(idx: Index) -> list[tuple[str, int, str]]:
    mi = idx.module(AS)
    v = mi.assigns.get("_lexer_rules")
    elts = None
    if isinstance(v, (ast.List, ast.Tuple)):
        elts = list(v.elts)
    elif isinstance(v, (ast.ListComp, ast.GeneratorExp)) or (isinstance(v, ast.Call) and unparse(v.func) in ("list", "tuple") and len(v.args) == 1 and isinstance(v.args[0], (ast.ListComp, ast.GeneratorExp))):
        # [(re.compile(regex), kind) for kind, regex in (<literal table>)]: instantiate the element per table row
        comp = v if isinstance(v, (ast.ListComp, ast.GeneratorExp)) else v.args[0]
        g = comp.generators[0]
        if isinstance(g.iter, ast.Name) and isinstance(mi.assigns.get(g.iter.id), (ast.Tuple, ast.List)):
            g = ast.comprehension(target=g.target, iter=mi.assigns[g.iter.id], ifs=g.ifs, is_async=0)
        if len(comp.generators) == 1 and not g.ifs and isinstance(g.iter, (ast.Tuple, ast.List)) and isinstance(g.target, ast.Tuple) and all(isinstance(t_, ast.Name) for t_ in g.target.elts):
            from ..paths import subst

            elts = []
            for row in g.iter.elts:
                if not (isinstance(row, (ast.Tuple, ast.List)) and len(row.elts) == len(g.target.elts)):
                    raise AnalysisError("_lexer_rules table row shape changed")
                env = {t_.id: x_ for t_, x_ in zip(g.target.elts, row.elts)}
                elts.append(subst(comp.elt, env))
    if elts is None:
        raise AnalysisError("_lexer_rules not found")
    out = []
    for e in elts:
        if not (isinstance(e, ast.Tuple) and len(e.elts) == 2):
            raise AnalysisError("_lexer_rules entry shape changed")
        pat, fl = compile_call(idx, mi, e.elts[0])
        out.append((pat, fl, unparse(e.elts[1]).split(".")[-1]))
    return out


def _sigma_star() -> rx.NFA:
    return rx.from_classes([rx.ALL], star_last=True)


def first_match_kind_witness(rules, L: rx.NFA, want_kind: str, must_contain: str | None = None):
    """A word of L whose first matching rule (list order, prefix match) is not of kind `want_kind`
    or does not cover the whole word; None if every word of L is lexed as one `want_kind` token."""
    remaining = L
    for pat, fl, kind in rules:
        R = rx.from_regex(pat, fl)
        pref = rx.concat(R, _sigma_star())
        if kind != want_kind:
            w = rx.intersect_witness(remaining, pref)
            if w is not None:
                return rx.show(w), kind
        else:
            # words that this rule starts matching must be matched entirely (the rules used here end in a
            # greedy class, so a full match exists iff the greedy match covers the word)
            starts = rx.intersect_witness(rx._minus_suffix(remaining, R), pref)
            if starts is not None:
                return rx.show(starts), kind + "(partial)"
        remaining = rx._minus_suffix(remaining, pref)
    w = rx.intersect_witness(remaining, _sigma_star())
    if w is not None:
        return rx.show(w), "no rule"
    return None



def _pred_language(t: ast.AST, text: str) -> "rx.NFA | None":
    """Language of the strings T for which the predicate `t` (over the text expression `text`) is true."""
    tt = unparse(t)
    if tt in (f"'.' in {text}", f'"." in {text}'):
        return rx.from_regex(r"[^.]*\.(?:.|\n)*")
    if tt == f"{text}.isdigit()" or tt == f"{text}.isdecimal()":
        return rx.from_regex(r"[0-9]+")
    m = re.fullmatch(rf"{re.escape(text)}\.lstrip\('([^']*)'\)\.isdigit\(\)", tt)
    if m:
        return rx.from_regex("[" + re.escape(m.group(1)) + "]*[0-9]+")
    return None


def _int_branch(reader) -> str | None:
    """The reader converts a NUMBER token with int() exactly for the texts str(int) can produce and with float() for
    every NUMBER text containing '.'.  Decided on the languages of the branch conditions.  None = holds."""
    fn = reader.node
    ints = [c for c in calls_in(fn) if isinstance(c.func, ast.Name) and c.func.id == "int" and len(c.args) == 1]
    if not ints:
        return "no int() conversion of the NUMBER text"
    PYI = rx.from_regex(rx.PY_INT)
    DOTTED = rx.from_regex(r"[-+]?[0-9]+\.[0-9]*(?:[eE][-+]?[0-9]+)?")
    for c in ints:
        text = unparse(c.args[0])
        conds = []
        from ..astutil import norm_fact as _nf18

        for t, pol in guard_facts(fn, c):
            if text not in unparse(t):
                continue
            tt_, pol = _nf18(t, pol)  # `'.' not in x`:T == `'.' in x`:F ; `not p`:T == p:F
            try:
                t = ast.parse(tt_, mode="eval").body
            except SyntaxError:
                pass
            L = _pred_language(t, text)
            if L is None:
                if "kind" in unparse(t) or "isinstance" in unparse(t):
                    continue
                raise AnalysisError(f"{reader.fq}: condition `{unparse(t)}` of the int() branch is not a recognised text predicate")
            conds.append((L, pol, unparse(t)))
        if not conds:
            return f"`{unparse(c)}` is not guarded by a test that excludes float texts"
        # every printed int must satisfy all conditions
        for L, pol, tt in conds:
            wit = rx.included(PYI, L) if pol else rx.intersect_witness(PYI, L)
            if wit is not None:
                return f"the int `{rx.show(wit)}` does not take the int() branch (condition `{tt}` is {'false' if pol else 'true'} for it)"
        # no dotted text may satisfy all of them
        if not any((rx.intersect_witness(DOTTED, L) is None) if pol else (rx.included(DOTTED, L) is None) for L, pol, tt in conds):
            return "a NUMBER text containing '.' can take the int() branch"
    return None


def check_writer_forms(idx: Index, rep: Report) -> None:
    r = rep.rule("C18.R1", "each value type is printed in a form that the first-match lexer reads back as one token which the value parser maps to the same Python type", floor=4)
    rules = lexer_rules(idx)
    f = idx.func(AS, "ArgSpec._spec_parameter_type_str")
    arg = f.node.args.args[0].arg
    ms = [n for n in walk_local(f.node) if isinstance(n, ast.Match)]
    cases: dict[str, list[ast.stmt]] = {}
    bool_consts: set[str] = set()
    if len(ms) == 1:
        for c in ms[0].cases:
            if isinstance(c.pattern, ast.MatchClass):
                cases[unparse(c.pattern.cls)] = c.body
    else:
        # any other dispatch on the type of the value (isinstance chains, early returns): one case per path
        from ..paths import enum_paths

        TYPES = ("bool", "str", "int", "float")
        for pth in enum_paths(f.node):
            if not pth.feasible() or pth.end != "return" or pth.value is None:
                continue
            pos, neg = None, set()
            for t_, p_ in pth.nfacts():
                m_ = re.fullmatch(rf"isinstance\({re.escape(arg)}, \(?([\w |,]+)\)?\)", t_)
                if m_:
                    alts = set(re.split(r" \| |, ", m_.group(1)))
                    if p_:
                        pos = alts if pos is None else pos & alts
                    else:
                        neg |= alts
            if pos is None:
                continue
            ts = [t_ for t_ in TYPES if t_ in pos and t_ not in neg and not (t_ == "bool" and "int" in neg)]
            if "int" in pos and "bool" not in neg and "bool" not in pos:
                ts = ["bool"] + ts  # isinstance(x, int) also holds for bool
            rv = ast.parse(pth.rvalue(), mode="eval").body
            for t_ in ts:
                if t_ == "bool" and isinstance(rv, ast.Constant) and isinstance(rv.value, str):
                    bool_consts.add(rv.value)
                    continue
                cases.setdefault(t_, [ast.Return(value=rv)])
        if bool_consts == {"true", "false"} and "bool" not in cases:
            cases["bool"] = [ast.Return(value=ast.parse(f"str({arg}).lower()", mode="eval").body)]
        if not cases:
            raise AnalysisError(f"{f.fq}: dispatch over the value type not found")
    order = list(cases)
    if len(ms) == 1 and order[:1] != ["bool"] and "bool" in order and order.index("bool") > order.index("int"):
        r.fail("order", Finding("C18.R1", f.fq, "bool-after-int", "`case int()` precedes `case bool()`: True would be printed as `True`/`1` (bool is an int)", f.loc))
    reader = idx.func(AS, "_parse_parameter_value_element")
    rt = unparse(reader.node)
    # bool
    body = cases.get("bool")
    mt_ = re.search(r"\b(\w+)\.text == 'true'", rt)
    reader_bool = bool(mt_) and f"{mt_.group(1)}.text == 'false'" in rt
    if not reader_bool and re.search(r"if ([\w.]+) in \('true', 'false'\):\s+return \1 == 'true'", rt):
        reader_bool = True
    if not reader_bool:
        # a literal table {"true": True, "false": False} looked up with the identifier text
        for nm_, v_ in idx.module(AS).assigns.items():
            if isinstance(v_, ast.Dict) and nm_ in rt and all(isinstance(k_, ast.Constant) for k_ in v_.keys):
                tab = {k_.value: (x_.value if isinstance(x_, ast.Constant) else None) for k_, x_ in zip(v_.keys, v_.values)}
                if tab == {"true": True, "false": False} and re.search(rf"{nm_}\.get\(\w+(\.\w+)*, |{nm_}\[", rt):
                    reader_bool = True
    if body and unparse(body[-1]) == f"return str({arg}).lower()" and reader_bool:
        w = first_match_kind_witness(rules, rx.from_regex("true|false"), "IDENT")
        (r.ok("bool", f"{f.loc} bool -> true|false -> IDENT special-cased by the reader") if w is None else r.fail("bool", Finding("C18.R1", f.fq, "bool-form", f"`{w[0]}` is lexed as {w[1]}", f.loc)))
    else:
        r.fail("bool", Finding("C18.R1", f.fq, "bool-form", "booleans must be printed as true/false and read back from the IDENT token", f.loc))
    # int
    body = cases.get("int")
    if body and unparse(body[-1]) == f"return str({arg})":
        w = first_match_kind_witness(rules, rx.from_regex(rx.PY_INT), "NUMBER")
        why = _int_branch(reader) if w is None else f"`{w[0]}` is lexed as {w[1]}"
        if why is None:
            r.ok("int", f"{f.loc} int -> -?[0-9]+ -> NUMBER -> int() for every printed int, float() for every text with '.'")
        else:
            r.fail("int", Finding("C18.R1", f.fq, "int-form", f"an int printed with str() is not read back as an int ({why})", f.loc))
    else:
        r.fail("int", Finding("C18.R1", f.fq, "int-form", "ints must be printed with str()", f.loc))
    # float
    body = cases.get("float")
    if body is None:
        raise AnalysisError(f"{f.fq}: float case not found")
    ftxt = unparse(body[-1])
    if ftxt in (f"return str({arg})", f"return repr({arg})", f"return f'{{{arg}}}'", f"return f'{{{arg}!r}}'"):
        L = rx.from_regex(rx.PY_FLOAT_REPR)
        w = first_match_kind_witness(rules, L, "NUMBER")
        nodot = rx.intersect_witness(L, rx.from_regex(r"[^.]*"))
        if w is not None or nodot is not None:
            ex = w[0] if w is not None else rx.show(nodot)
            r.fail("float", Finding("C18.R1", f.fq, "float-form", f"floats are printed with `{ftxt[7:]}`: Python's repr language contains `{ex}` (also `1e-05`, `inf`, `nan`, `1e+16`), which the lexer does not read back as one NUMBER containing '.', so the value is re-read as an identifier / int or rejected", f.loc))
        else:
            r.ok("float", f"{f.loc} repr(float) ⊆ NUMBER with '.'")
    else:
        # a custom formatter: accept only if a NUMBER-with-dot guarantee is visible
        r.fail("float", Finding("C18.R1", f.fq, "float-form-unknown", f"float form `{ftxt}` is not a reviewed writer form", f.loc))
    # str
    body = cases.get("str")
    if body is None:
        raise AnalysisError(f"{f.fq}: str case not found")
    string_rule = next(((p, fl) for p, fl, k in rules if k == "STRING_LIT"), None)
    if string_rule is None:
        raise AnalysisError("STRING_LIT lexer rule not found")
    SL = rx.from_regex(*string_rule)
    for rtn in [n for s in body for n in ast.walk(s) if isinstance(n, ast.Return)]:
        v = rtn.value
        t = unparse(v)
        inst = f"str:{t[:30]}"
        if t == f"""f'"{{{arg}}}"'""":
            quoted_any = rx.concat(rx.from_regex('"'), rx.concat(_sigma_star(), rx.from_regex('"')))
            w = rx.included(quoted_any, SL)
            if w is None:
                r.ok(inst, "quoted form accepted for every string")
            else:
                inner = rx.show(w)[1:-1]
                r.fail(inst, Finding("C18.R1", f.fq, "string-unescaped", f"strings are printed as `\"{{arg}}\"` without escaping: for arg = {inner!r} the text {rx.show(w)!r} is not a STRING_LIT (quotes, backslashes and newlines break or change the literal)", f.loc))
        elif t == arg:
            # unquoted emission: the guard must confine the string to words lexed as one IDENT that is not a keyword
            pats = []
            excl = set()
            for g, pol in guard_facts(f.node, rtn):
                gt = unparse(g)
                m = re.search(r"fullmatch\((.*?), " + re.escape(arg) + r"\)|(\w+)\.fullmatch\(" + re.escape(arg) + r"\)", gt)
                if m and pol:
                    pats.append(g)
                m2 = re.fullmatch(re.escape(arg) + r" not in \((.*)\)", gt)
                if m2 and pol:
                    excl |= {x.strip().strip("'\"") for x in m2.group(1).split(",")}
            lang = None
            for g in pats:
                for c in calls_in(g, local=False):
                    if call_attr(c) == "fullmatch":
                        try:
                            if isinstance(c.func, ast.Attribute) and isinstance(c.func.value, ast.Name) and c.func.value.id != "re":
                                mi = idx.module(AS)
                                pat, fl = compile_call(idx, mi, mi.assigns[c.func.value.id])
                            else:
                                from ..rx_extract import const_str

                                pat, fl = const_str(idx, idx.module(AS), c.args[0]), 0
                            lang = rx.from_regex(pat, fl)
                        except (AnalysisError, KeyError):
                            lang = None
            if lang is None:
                r.fail(inst, Finding("C18.R1", f.fq, "unquoted-unguarded", "a string is printed unquoted without a recognisable guard on its characters", f.loc))
                continue
            w = first_match_kind_witness(rules, lang, "IDENT")
            kw = [k for k in ("true", "false") if k not in excl and rx.intersect_witness(lang, rx.from_regex(k)) is not None]
            if w is not None:
                r.fail(inst, Finding("C18.R1", f.fq, "unquoted-not-ident", f"the string `{w[0]}` is printed unquoted but the first-match lexer reads it as {w[1]} (so `\"{w[0]}\"` comes back as a number, not a string)", f.loc))
            elif kw:
                r.fail(inst, Finding("C18.R1", f.fq, "unquoted-keyword", f"the strings {kw} are printed unquoted and come back as booleans", f.loc))
            else:
                r.ok(inst, "unquoted strings are always one IDENT token")
        else:
            r.ok(inst, f"escaped form `{t[:40]}` (escaper checked by C18.R2)") if "escape" in t.lower() or "print_bytes" in t else r.fail(inst, Finding("C18.R1", f.fq, "string-form-unknown", f"string form `{t}` is not a reviewed writer form", f.loc))


def check_escapes(idx: Index, rep: Report) -> None:
    r = rep.rule("C18.R2", "the escape sequences the pipeline lexer accepts inside string literals are exactly those the decoder understands", floor=1)
    rules = lexer_rules(idx)
    pat = next(p for p, fl, k in rules if k == "STRING_LIT")
    m = re.search(r"\\\\\[([^\]]*)\]", pat)
    if not m:
        raise AnalysisError(f"escape class not found in STRING_LIT pattern {pat!r}")
    lex_esc = set(m.group(1).replace("\\\\", "\\"))
    bc = idx.func(LEXER, "StringLiteral.bytes_contents")
    from ..rx_extract import escape_table

    dec_esc = {k[1] for k in escape_table(bc)}
    extra = sorted(lex_esc - dec_esc)
    reader = idx.func(AS, "_parse_parameter_value_element")
    converts = any(isinstance(n, ast.Try) and "string_contents" in unparse(n) for n in walk_local(reader.node))
    if extra and not converts:
        r.fail("escapes", Finding("C18.R2", "xdsl.utils.arg_spec._lexer_rules", "escape-alphabet:" + "".join(extra), f"the STRING_LIT rule accepts the escapes \\{', \\'.join(extra)} but StringLiteral.bytes_contents only decodes {sorted(dec_esc)} (+ two hex digits): `\"\\r\"` is lexed and then raises a ParseError of the MLIR lexer out of parse_pipeline instead of a pipeline parse error", f"{AS}"))
    else:
        r.ok("escapes", f"lexer escapes {sorted(lex_esc)} ⊆ decoder escapes {sorted(dec_esc)}")


def check_empty_values(idx: Index, rep: Report) -> None:
    r = rep.rule("C18.R3", "an empty value list means 'no value given' only for optional (Union with None) fields; for tuple fields it is the empty tuple that was printed", floor=1)
    f = idx.func(AS, "_convert_arg_to_type")
    val = f.node.args.args[0].arg
    dest = f.node.args.args[1].arg
    EMPTY_T = {f"len({val}) == 0", f"not {val}", f"{val} == []", f"not len({val})", f"len({val}) < 1", f"{val} == ()"}
    EMPTY_F = {f"len({val}) != 0", f"{val}", f"len({val})", f"len({val}) > 0", f"len({val}) >= 1", f"{val} != []"}

    def is_empty_fact(t: ast.AST, pol: bool) -> bool:
        txt = unparse(t)
        return (pol and txt in EMPTY_T) or ((not pol) and txt in EMPTY_F) or ((not pol) and isinstance(t, ast.UnaryOp) and unparse(t.operand) in EMPTY_T)

    def is_union_fact(t: ast.AST, pol: bool, cfg) -> bool:
        txt = resolved_text(cfg, t, cfg.node_of(t)) if not isinstance(t, ast.Name) else unparse(t)
        return pol and ("Union" in txt and f"get_origin({dest})" in txt)

    def is_tuple_check_failed(t: ast.AST, pol: bool) -> bool:
        return (not pol) and isinstance(t, ast.Call) and call_attr(t) == "isa" and len(t.args) == 2 and unparse(t.args[0]) == val and unparse(t.args[1]) == dest

    cfg = CFG(f.node)
    sites = [n for n in walk_local(f.node) if isinstance(n, ast.Raise) or (isinstance(n, ast.Return) and n.value is not None and unparse(n.value) == "None")]
    n_empty = 0
    for n in sites:
        facts = guard_facts(f.node, n)
        if not any(is_empty_fact(t, p) for t, p in facts):
            continue
        n_empty += 1
        if any(is_union_fact(t, p, cfg) for t, p in facts) or any(is_tuple_check_failed(t, p) for t, p in facts):
            r.ok(f.fq, f"{AS}:{n.lineno} `{unparse(n)[:50]}` for an empty list only for Union-typed fields")
        else:
            r.fail(f.fq, Finding("C18.R3", f.fq, "empty-tuple-rejected", f"`{unparse(n)[:60]}` is reached for an empty value list whatever the destination type: a `tuple[T, ...]` option holding () is printed as a bare key and parsing it back raises / yields None instead of ()", f"{AS}:{n.lineno}"))
    if n_empty == 0:
        # no special case at all: the empty list falls through to the isa(value, dest_type) test, which accepts it for tuple[T, ...]
        if any(isinstance(c, ast.Call) and call_attr(c) == "isa" and len(c.args) == 2 and unparse(c.args[0]) == val for c in calls_in(f.node)):
            r.ok(f.fq, f"{f.loc} no emptiness special case; the whole list is checked against the destination type")
        else:
            raise AnalysisError(f"{f.fq}: neither an emptiness special case nor the `isa({val}, {dest})` fallback found")
    g = idx.func(AS, "ArgSpec._spec_parameter_list_type_str")
    if "if arg:" in unparse(g.node) and "return name" in unparse(g.node):
        r.ok(g.fq, f"{g.loc} empty list printed as a bare key")


def check_registry(idx: Index, rep: Report) -> None:
    r = rep.rule("C18.R4", "every key of get_all_passes() equals the `name` of the ModulePass class its thunk imports and returns", floor=120)
    f = idx.func(TR, "get_all_passes")
    thunks: dict[str, ast.FunctionDef] = {n.name: n for n in f.node.body if isinstance(n, ast.FunctionDef)}
    dicts = [n.value for n in f.node.body if isinstance(n, ast.Return) and isinstance(n.value, ast.Dict)]
    if len(dicts) != 1:
        raise AnalysisError(f"{f.fq}: registry dictionary not found")
    for k, v in zip(dicts[0].keys, dicts[0].values):
        key = k.value  # type: ignore[union-attr]
        inst = f"pass:{key}"
        fn = thunks.get(unparse(v))
        if fn is None:
            r.fail(inst, Finding("C18.R4", f.fq, f"thunk-missing:{key}", f"registry entry `{key}` refers to `{unparse(v)}`, which is not defined in get_all_passes", f.loc))
            continue
        imp = [s for s in fn.body if isinstance(s, ast.ImportFrom)]
        ret = [s for s in fn.body if isinstance(s, ast.Return)]
        if len(imp) != 1 or len(ret) != 1:
            r.fail(inst, Finding("C18.R4", f.fq, f"thunk-shape:{key}", f"thunk {fn.name} is not `from … import …; return …`", f"{TR}:{fn.lineno}"))
            continue
        rtxt = unparse(ret[0].value)
        mod = imp[0].module or ""
        name = imp[0].names[0].name
        if rtxt == name:
            target_mod, cname = mod, name
        elif rtxt.startswith(name + "."):
            target_mod, cname = f"{mod}.{name}", rtxt.split(".", 1)[1]
        else:
            r.fail(inst, Finding("C18.R4", f.fq, f"thunk-return:{key}", f"thunk {fn.name} returns `{rtxt}`, which is not what it imports", f"{TR}:{fn.lineno}"))
            continue
        mi = idx.modules.get(target_mod)
        ci: ClassInfo | None = mi.classes.get(cname) if mi is not None else None
        if ci is None:
            r.fail(inst, Finding("C18.R4", f.fq, f"class-missing:{key}", f"`{target_mod}.{cname}` does not exist: looking the pass up raises ImportError/AttributeError", f"{TR}:{fn.lineno}"))
            continue
        nm = ci.class_assigns().get("name")
        cls_name = nm.value if isinstance(nm, ast.Constant) else None
        if cls_name != key:
            r.fail(inst, Finding("C18.R4", ci.fq, f"name-mismatch:{key}", f"the registry key `{key}` maps to class {ci.name} whose `name` is `{cls_name}`: the printed spec of an instance cannot be parsed back to the same pass", ci.loc))
        elif not idx.is_subclass(ci, "ModulePass"):
            r.fail(inst, Finding("C18.R4", ci.fq, f"not-a-pass:{key}", f"{ci.name} does not derive from ModulePass", ci.loc))
        else:
            r.ok(inst, None)
    r.samples[:] = ["canonicalize -> xdsl.transforms.canonicalize.CanonicalizePass (name = 'canonicalize')"]


def check_pipeline_instances(idx: Index, rep: Report) -> None:
    """A pipeline spec may name the same pass several times with different options: the pass built for the i-th entry
    must come from the i-th entry's own spec (from_pass_spec(<that entry>)), not from a table keyed by the pass name."""
    r = rep.rule("C18.R5", "PassPipeline.parse_spec builds the pass of each pipeline entry from that entry's own spec (no reuse of an instance by pass name)", floor=1)
    from ..setbuild import describe as describe_set

    f = idx.func("xdsl/passes.py", "PassPipeline.parse_spec")
    cfg = CFG(f.node)
    ctor = [c for c in calls_in(f.node) if call_name(c).endswith("PassPipeline") and c.args]
    if len(ctor) != 1:
        raise AnalysisError(f"{f.fq}: construction of the PassPipeline not found")
    d = describe_set(f.node, cfg, ctor[0].args[0], cfg.node_of(ctor[0]))
    if d.unknown or d.bases or not d.adds:
        raise AnalysisError(f"{f.fq}: how the tuple of passes is built was not understood ({d.unknown or sorted(d.bases)})")
    for ad in d.adds:
        inst = f"{f.fq}:{ad.elem[:40]}"
        if len(ad.iters) != 1:
            raise AnalysisError(f"{f.fq}: pass `{ad.elem}` is not built in one iteration over the specs")
        var = ad.iters[0][0]
        e_ = ast.parse(ad.elem, mode="eval").body
        from_spec = [c for c in ast.walk(e_) if isinstance(c, ast.Call) and call_attr(c) == "from_pass_spec" and c.args and unparse(c.args[0]) == var]
        if from_spec and e_ is from_spec[0]:
            r.ok(inst, f"{f.loc} each entry `{var}` gives `{ad.elem[:60]}`")
        else:
            r.fail(inst, Finding("C18.R5", f.fq, "instance-not-from-own-spec", f"the pass for pipeline entry `{var}` is `{ad.elem[:70]}`, not `<pass>.from_pass_spec({var})`: a pass repeated with different options (`p{{a=1}},q,p{{a=2}}`) gets the instance built for another occurrence, so the printed pipeline re-parses to a different pipeline", f.loc))


def check_spec_not_consumed(idx: Index, rep: Report) -> None:
    """from_spec removes the arguments it has converted from a dictionary (to report the unknown ones): that dictionary must
    be a private copy, otherwise instantiating a pass empties the ArgSpec it was given and the spec no longer prints / builds
    the same pass."""
    r = rep.rule("C18.R6", "from_spec consumes a private copy of the spec's parameters: the dictionary it pops from is built fresh on every path (normalize_parameter_names never returns the spec itself)", floor=1)
    f = idx.func(AS, "ArgSpecConvertible.from_spec")
    cfg = CFG(f.node)
    popped = {unparse(c.func.value) for c in calls_in(f.node) if isinstance(c.func, ast.Attribute) and c.func.attr in ("pop", "popitem", "clear") and isinstance(c.func.value, ast.Name)}  # type: ignore[attr-defined]
    popped |= {unparse(t.value) for n in walk_local(f.node) if isinstance(n, ast.Delete) for t in n.targets if isinstance(t, ast.Subscript)}
    if not popped:
        r.ok(f.fq, f"{f.loc} from_spec does not remove entries from a dictionary")
        return
    for d in sorted(popped):
        src = resolved_text(cfg, ast.Name(id=d, ctx=ast.Load()), cfg.exit)
        inst = f"{f.fq}:{d}"
        if re.fullmatch(r"dict\(.*\)|\{.*\}|.*\.copy\(\)", src):
            r.ok(inst, f"{f.loc} `{d}` is a copy ({src[:50]})")
            continue
        m = re.fullmatch(r"(\w+)\.(\w+)\(\)\.parameters", src)
        if not m:
            if re.fullmatch(r"\w+\.parameters", src):
                r.fail(inst, Finding("C18.R6", f.fq, "spec-consumed", f"from_spec removes entries from `{src}`, the dictionary of the ArgSpec it was given: after building a pass from a spec, the spec prints as the bare pass name and builds the all-defaults pass", f.loc))
                continue
            raise AnalysisError(f"{f.fq}: origin `{src[:80]}` of the dictionary from_spec removes entries from not understood")
        h = idx.func(AS, f"ArgSpec.{m.group(2)}")
        bad = None
        for rt in [n for n in walk_local(h.node) if isinstance(n, ast.Return)]:
            v = rt.value
            fresh = False
            if isinstance(v, ast.Call) and call_attr(v) == "ArgSpec":
                pv = next((k.value for k in v.keywords if k.arg == "parameters"), v.args[1] if len(v.args) > 1 else None)
                if pv is not None:
                    pt = resolved_text(CFG(h.node), pv, None) if not isinstance(pv, ast.Name) else None
                    defs_ = [s_.value for s_ in walk_local(h.node) if isinstance(pv, ast.Name) and isinstance(s_, (ast.Assign, ast.AnnAssign)) and unparse(s_.targets[0] if isinstance(s_, ast.Assign) else s_.target) == pv.id and s_.value is not None]
                    fresh = (bool(defs_) and all(isinstance(x, (ast.Dict, ast.DictComp)) or (isinstance(x, ast.Call) and unparse(x.func).split("[")[0] == "dict") for x in defs_)) or (pt is not None and bool(re.fullmatch(r"dict\(.*\)|\{.*\}", pt)))
            if not fresh:
                bad = rt
        if bad is not None:
            r.fail(inst, Finding("C18.R6", h.fq, "spec-consumed", f"`{unparse(bad)[:70]}` hands back an ArgSpec that shares its parameter dictionary with the receiver (or is the receiver), and from_spec removes the converted entries from it: the caller's spec is emptied, prints as the bare pass name and builds the all-defaults pass the next time", f"{h.module.relpath}:{bad.lineno}"))
        else:
            r.ok(inst, f"{h.loc} {m.group(2)} builds a new dictionary on every path")


def check_quoted_words(idx: Index, rep: Report) -> None:
    """A string value is written quoted, and a quoted word is a string whatever it spells: the reader may turn `true` /
    `false` into booleans only for bare identifiers."""
    r = rep.rule("C18.R7", "the value reader answers True / False only on an IDENT token: a STRING_LIT token (how string values are written) is always read back as a string", floor=1)
    reader = idx.func(AS, "_parse_parameter_value_element")
    from ..astutil import parent_map

    pm = parent_map(reader.node)
    n = 0
    for rt in [x for x in ast.walk(reader.node) if isinstance(x, ast.Return) and isinstance(x.value, ast.Constant) and isinstance(x.value.value, bool)]:
        n += 1
        case = rt
        while id(case) in pm and not isinstance(case, ast.match_case):
            case = pm[id(case)]
        kinds: set[str] = set()
        if isinstance(case, ast.match_case):
            for p_ in ast.walk(case.pattern):
                if isinstance(p_, ast.MatchValue) and "TokenKind." in unparse(p_.value):
                    kinds.add(unparse(p_.value).split(".")[-1])
        facts = [(unparse(t_), p_) for t_, p_ in guard_facts(reader.node, rt)]
        for t_, p_ in facts:
            m_ = re.fullmatch(r"[\w.]+ (is|==|is not|!=) \w*TokenKind\.(\w+)", t_)
            if m_:
                positive = (m_.group(1) in ("is", "==")) == p_
                if positive:
                    kinds = {m_.group(2)}
                else:
                    kinds.discard(m_.group(2))
        inst = f"{reader.fq}:return {rt.value.value}"
        if not kinds:
            raise AnalysisError(f"{reader.fq}: the token kind under which `return {rt.value.value}` is reached was not determined")
        if "STRING_LIT" in kinds:
            r.fail(inst, Finding("C18.R7", reader.fq, "quoted-word-read-as-bool", f"`return {rt.value.value}` is reached for a STRING_LIT token (kinds {sorted(kinds)}): the string value \"{str(rt.value.value).lower()}\", which the printer writes quoted, is read back as a boolean and the spec no longer builds the same pass", f"{AS}:{rt.lineno}"))
        else:
            r.ok(inst, f"{AS}:{rt.lineno} booleans only from {sorted(kinds)}")
    if n == 0:
        r.ok("table-form", "no literal boolean return in the reader (table form, checked by C18.R1)")


def check_spec_text_untouched(idx: Index, rep: Report) -> None:
    """The text of a pipeline specification is structured only by the lexer (quoted strings are one token).  Any rewriting
    of the raw text before it is lexed -- a regex substitution, replace(), split / join -- does not know about quotes and
    changes string values that contain the characters it looks for."""
    r = rep.rule("C18.R8", "every caller of parse_pipeline in passes.py / arg_spec.py hands it the specification text as received: no regex or string rewriting of the raw text before the lexer sees it", floor=1)
    n = 0
    for rel in ("xdsl/passes.py", AS, "xdsl/xdsl_opt_main.py"):
        try:
            mi = idx.module(rel)
        except AnalysisError:
            continue
        from ..srcindex import raw_funcs as _rf

        for f in _rf(mi):
            cfg = None
            for c in calls_in(f.node):
                if call_attr(c) != "parse_pipeline" and unparse(c.func) != "parse_pipeline":
                    continue
                if not c.args:
                    continue
                n += 1
                if cfg is None:
                    cfg = CFG(f.node)
                txt = resolved_text(cfg, c.args[0], cfg.node_of(c))
                inst = f"{f.fq}:{c.lineno - f.node.lineno}"
                rewriting = re.search(r"\bre\.(sub|subn|split)\(|\.replace\(|\.translate\(|\.split\(|\.join\(|\.expandtabs\(", txt)
                if rewriting:
                    r.fail(inst, Finding("C18.R8", f.fq, "spec-text-rewritten", f"`{unparse(c)[:60]}` lexes `{txt[:70]}`: the raw specification is rewritten before the lexer has recognised the quoted strings, so a string value that contains the rewritten characters (`\"a, b\"`) is changed silently and the parsed pipeline is not the one that was printed", f"{rel}:{c.lineno}"))
                else:
                    r.ok(inst, f"{rel}:{c.lineno} lexes `{txt[:40]}`")
    if n == 0:
        raise AnalysisError("no call of parse_pipeline found in passes.py / arg_spec.py")


def check(idx: Index, rep: Report, tier: str) -> str:
    rep.run(check_writer_forms, idx, rep)
    rep.run(check_escapes, idx, rep)
    rep.run(check_empty_values, idx, rep)
    rep.run(check_registry, idx, rep)
    rep.run(check_pipeline_instances, idx, rep)
    rep.run(check_spec_not_consumed, idx, rep)
    rep.run(check_quoted_words, idx, rep)
    rep.run(check_spec_text_untouched, idx, rep)
    return (
        "Regular-language analysis of each writer form of ArgSpec._spec_parameter_type_str against the first-match token "
        "rules of arg_spec.py and the value parser's type mapping; agreement of the lexer's escape alphabet with the decoder; "
        "guard of the empty-value special case; registry agreement (key = class name, module and class exist, ModulePass). "
        "Type coercion of from_spec for every declared field type is not decided."
    )
