"""C24 — dominance and post-order traversal: structural clauses (DESIGN.md §2 C24)."""

from __future__ import annotations

import ast
import re

from ..astutil import attr_chain, call_attr, calls_in, expand_value_calls, guard_facts, unparse, walk_local, text_facts
from ..cfg import CFG
from ..dataflow import reaching_defs, resolved_text
from ..report import Finding, Report
from ..srcindex import AnalysisError, Index

PO = "xdsl/ir/post_order.py"
DOM = "xdsl/irdl/dominance.py"

DEDUP_CALLS = {"fromkeys", "set", "frozenset", "unique", "OrderedSet"}



def _meet_verdict(loop: ast.For, upd: ast.Assign, b: str, pred: str = "pred"):
    """None when on every path through the sweep body the new dominator set of `b` is {b} ∪ ⋂ dom[p] over all p in pred[b]
    (and {b} when there is no predecessor); ("meet", msg) on positive evidence of another meet; ("meet-unrecognised", msg)
    when the construction is not understood."""
    import copy

    from ..paths import enum_paths

    fn = ast.FunctionDef(name="_sweep_body", args=ast.arguments(posonlyargs=[], args=[], kwonlyargs=[], kw_defaults=[], defaults=[]), body=copy.deepcopy(loop.body), decorator_list=[], lineno=loop.lineno, col_offset=0)
    ast.fix_missing_locations(fn)
    target = unparse(upd.targets[0])
    seen = 0
    for pth in enum_paths(fn):
        if not pth.feasible():
            continue
        ks = [k for k, e_ in enumerate(pth.effects) if isinstance(e_, ast.Assign) and unparse(e_.targets[0]) == target]
        if not ks:
            continue
        k = ks[0]
        rhs = ast.parse(pth.res(pth.effects[k].value, k), mode="eval").body  # type: ignore[union-attr]
        facts = {(t_, p_) for t_, p_ in pth.nfacts()}
        variants = [(rhs, set(facts))]
        # split conditional expressions
        changed = True
        while changed:
            changed = False
            nxt = []
            for e_, fs in variants:
                ife = next((n for n in ast.walk(e_) if isinstance(n, ast.IfExp)), None)
                if ife is None:
                    nxt.append((e_, fs))
                    continue
                changed = True
                tt = unparse(ife.test)
                for pol, br in ((True, ife.body), (False, ife.orelse)):
                    class R(ast.NodeTransformer):
                        def visit_IfExp(self, node, tt=tt, br=br):
                            if unparse(node.test) == tt:
                                return self.visit(copy.deepcopy(node.body if br is ife.body else node.orelse))
                            return self.generic_visit(node)
                    nxt.append((R().visit(copy.deepcopy(e_)), fs | {(tt, pol)}))
            variants = nxt
        for e_, fs in variants:
            seen += 1
            nonempty = None
            for t_, p_ in fs:
                t2, p2 = t_, p_
                while t2.startswith("not "):
                    t2, p2 = t2[4:].strip("()") if t2[4:].startswith("(") and t2.endswith(")") else t2[4:], not p2
                if re.fullmatch(rf"{pred}\[{re.escape(b)}\]|len\({pred}\[{re.escape(b)}\]\)( > 0| != 0| >= 1)?", t2):
                    nonempty = p2
                elif re.fullmatch(rf"len\({pred}\[{re.escape(b)}\]\) == 0", t2):
                    nonempty = not p2
            # {b} | X
            X = None
            if isinstance(e_, ast.BinOp) and isinstance(e_.op, ast.BitOr):
                for me, other in ((e_.left, e_.right), (e_.right, e_.left)):
                    if isinstance(me, ast.Set) and len(me.elts) == 1 and unparse(me.elts[0]) == b:
                        X = other
            if X is None:
                return ("meet-unrecognised", f"dominator update `{unparse(e_)[:100]}` is not of the form {{{b}}} | <meet>")
            xt = unparse(X)
            empty = bool(re.fullmatch(r"set(\[[^\]]*\])?\(\)", xt))
            if nonempty is False:
                if not empty:
                    return ("meet-unrecognised", f"without predecessors the update adds `{xt[:80]}`")
                continue
            if empty and nonempty is None:
                return ("meet-unrecognised", f"the update is {{{b}}} alone on a path where pred[{b}] is not known to be empty")
            if empty and nonempty is True:
                return ("meet", f"with predecessors the dominator set of {b} is reset to {{{b}}}: the dominators common to all predecessors are lost")
            if not (isinstance(X, ast.Call) and isinstance(X.func, ast.Attribute)):
                return ("meet-unrecognised", f"meet `{xt[:100]}` not understood")
            if X.func.attr == "union":
                return ("meet", f"the meet over the predecessors is a union (`{xt[:80]}`): a block is dominated only by what dominates ALL its predecessors")
            if X.func.attr != "intersection" or len(X.args) != 1 or not isinstance(X.args[0], ast.Starred) or not isinstance(X.args[0].value, (ast.GeneratorExp, ast.ListComp)) or len(X.args[0].value.generators) != 1:
                return ("meet-unrecognised", f"meet `{xt[:100]}` not understood")
            g = X.args[0].value
            gen = g.generators[0]
            if gen.ifs:
                return ("meet", f"the meet skips the predecessors failing `{unparse(gen.ifs[0])}`: a dominator must dominate every predecessor")
            it_text = unparse(gen.iter)
            for _ in range(3):  # names inside the comprehension are resolved against the path's environment too
                it_text = pth.res(ast.parse(it_text, mode="eval").body, k)
            if unparse(g.elt) != f"self._dominance[{unparse(gen.target)}]" or it_text != f"{pred}[{b}]":
                return ("meet-unrecognised", f"meet `{xt[:100]}` does not range over self._dominance[p] for p in pred[{b}]")
            if nonempty is None:
                return ("meet-unrecognised", f"intersection over pred[{b}] on a path where it is not known to be non-empty")
    if seen == 0:
        return ("meet-unrecognised", "no path through the sweep body reaches the dominator update")
    return None


def _is_seen(e: ast.AST) -> bool:
    return attr_chain(e) == "self.seen"


def check_post_order(idx: Index, rep: Report) -> None:
    cls = idx.cls(PO, "PostOrderIterator")
    if not {"stack", "seen"} <= {n for n, _, _ in cls.ann_fields()}:
        raise AnalysisError("PostOrderIterator no longer has stack/seen fields")
    init = idx.func(PO, "PostOrderIterator.__init__")
    nxt = idx.func(PO, "PostOrderIterator.__next__")

    # ---- R1a: the start block is marked visited when it is put on the stack
    r = rep.rule("C24.R1a", "every block put on the DFS stack as unvisited is in `seen` (start block in __init__)", floor=1)
    start = init.node.args.args[1].arg
    st_stack = [s for s in init.node.body if isinstance(s, ast.Assign) and attr_chain(s.targets[0]) == "self.stack"]
    st_seen = [s for s in init.node.body if isinstance(s, ast.Assign) and attr_chain(s.targets[0]) == "self.seen"]
    if len(st_stack) != 1 or len(st_seen) != 1:
        raise AnalysisError(f"{init.fq}: expected one assignment each to self.stack and self.seen")
    if unparse(st_stack[0].value) != f"[({start}, False)]":
        raise AnalysisError(f"{init.fq}: initial stack `{unparse(st_stack[0].value)}` not recognised")
    seen_txt = unparse(st_seen[0].value)
    if seen_txt in (f"{{{start}}}", f"set([{start}])", f"set(({start},))"):
        r.ok(init.fq, f"{init.loc} stack=[({start}, False)], seen={{{start}}}")
    else:
        r.fail(init.fq, Finding("C24.R1a", init.fq, "start-not-seen", f"the start block is pushed but `seen` is initialised to `{seen_txt}`: an edge back to the start block re-enqueues it (yielded twice, not last)", init.loc))

    # ---- R1b: visited-set discipline for successor pushes
    r = rep.rule("C24.R1b", "a block is tested against `seen` and marked before the next candidate of the same batch is tested (no duplicate enqueue for multi-edges)", floor=1)
    cfg = CFG(nxt.node)
    pushes = []  # (call, kind)
    for c in calls_in(nxt.node):
        if isinstance(c.func, ast.Attribute) and attr_chain(c.func.value) == "self.stack" and c.func.attr in ("extend", "append"):
            pushes.append(c)
    succ_pushes = []
    for c in pushes:
        arg = c.args[0] if c.args else None
        if arg is None:
            continue
        txt = unparse(arg)
        if ", False)" in txt:
            succ_pushes.append(c)
    if not succ_pushes:
        raise AnalysisError(f"{nxt.fq}: no push of unvisited successors `(x, False)` found")
    for c in succ_pushes:
        arg = c.args[0]
        inst = f"{nxt.fq}:{c.func.attr}"  # type: ignore[attr-defined]
        if c.func.attr == "extend" and isinstance(arg, (ast.GeneratorExp, ast.ListComp)):  # type: ignore[attr-defined]
            gen = arg.generators[0]
            if not gen.ifs and isinstance(gen.iter, ast.Name):
                # the batch was filtered when it was collected: `unseen = [x for x in ... if x not in seen]; extend((x, False) for x in unseen)`
                from ..dataflow import reaching_defs as _rd

                ds = [v for _, v in _rd(cfg, gen.iter.id, cfg.node_of(c)) if v is not None]
                if len(ds) == 1 and isinstance(ds[0], (ast.ListComp, ast.GeneratorExp)) and len(ds[0].generators) == 1 and isinstance(ds[0].elt, ast.Name) and unparse(ds[0].generators[0].target) == ds[0].elt.id:
                    inner = ds[0].generators[0]
                    gen = ast.comprehension(target=gen.target, iter=inner.iter, ifs=[ast.parse(unparse(i_).replace(ds[0].elt.id, unparse(gen.target)), mode="eval").body for i_ in inner.ifs], is_async=0)
            var = unparse(gen.target)
            filt = [i for i in gen.ifs if isinstance(i, ast.Compare) and isinstance(i.ops[0], ast.NotIn) and _is_seen(i.comparators[0]) and unparse(i.left) == var]
            if not filt:
                r.fail(inst, Finding("C24.R1b", nxt.fq, "unfiltered-push", f"successors are pushed without testing `{var} not in self.seen`", nxt.loc))
                continue
            dedup = any(call_attr(x) in DEDUP_CALLS for x in calls_in(gen.iter, local=False))
            if dedup:
                # still need marking afterwards
                upd = [u for u in calls_in(nxt.node) if isinstance(u.func, ast.Attribute) and _is_seen(u.func.value) and u.func.attr in ("update", "add")]
                if upd:
                    r.ok(inst, f"{nxt.loc} batch deduplicated before the seen-filter: {unparse(gen.iter)}")
                else:
                    r.fail(inst, Finding("C24.R1b", nxt.fq, "never-marked", "pushed successors are never added to `seen`", nxt.loc))
            else:
                r.fail(inst, Finding("C24.R1b", nxt.fq, "batch-duplicates", f"`{unparse(c)[:110]}` filters the whole batch against `seen` and marks it afterwards in bulk: a block occurring twice in the successor list passes the filter twice and is yielded twice", f"{nxt.module.relpath}:{c.lineno}"))
        else:
            # append inside an explicit loop: must be guarded by `x not in seen` and followed/preceded by seen.add(x) in the same iteration
            el = arg.elts[0] if isinstance(arg, ast.Tuple) else None
            if el is None:
                raise AnalysisError(f"{nxt.fq}: push form `{unparse(c)}` not recognised")
            var = unparse(el)
            facts = guard_facts(nxt.node, c)
            guarded = any(isinstance(t, ast.Compare) and ((isinstance(t.ops[0], ast.NotIn) and pol) or (isinstance(t.ops[0], ast.In) and not pol)) and _is_seen(t.comparators[0]) and unparse(t.left) == var for t, pol in facts)
            n_push = cfg.node_of(c)
            adds = [u for u in calls_in(nxt.node) if isinstance(u.func, ast.Attribute) and _is_seen(u.func.value) and u.func.attr == "add" and u.args and unparse(u.args[0]) == var]
            # the for-head of the loop that binds var
            loops = [w for w in walk_local(nxt.node) if isinstance(w, ast.For) and unparse(w.target) == var and any(x is c for x in ast.walk(w))]
            ok_mark = False
            if adds and loops:
                head = cfg.node_of(loops[-1])
                add_nodes = {cfg.node_of(a) for a in adds}
                # from the push, the loop head cannot be reached again without passing an add (or the add precedes the push on every path from head)
                after = cfg.path_avoiding(n_push, head, lambda n: n.id in add_nodes) is None or n_push in add_nodes
                before = cfg.path_avoiding(head, n_push, lambda n: n.id in add_nodes) is None
                ok_mark = after or before
            # every successor is examined: the loop over the successors is not left early
            early = [x for w in loops[-1:] for x in walk_local(w) if isinstance(x, (ast.Break, ast.Return)) and not any(x in ast.walk(inner) for inner in walk_local(w) if isinstance(inner, (ast.For, ast.While)) and inner is not w)]
            if early:
                r.fail(inst + ":all-successors", Finding("C24.R1b", nxt.fq, "successor-skipped", f"the loop over the successors is left early (`{type(early[0]).__name__.lower()}` at line {early[0].lineno}): the successors after the first already-seen one are never pushed, so a block reachable only through such an edge is not visited (not yielded; treated as unreachable by its clients)", f"{nxt.module.relpath}:{early[0].lineno}"))
            if not guarded:
                r.fail(inst, Finding("C24.R1b", nxt.fq, "unfiltered-push", f"`{unparse(c)}` is not guarded by `{var} not in self.seen`", nxt.loc))
            elif not ok_mark:
                r.fail(inst, Finding("C24.R1b", nxt.fq, "batch-duplicates", f"`{var}` is pushed but not added to `seen` within the same iteration", nxt.loc))
            else:
                r.ok(inst, f"{nxt.loc} per-element test-and-mark for {var}")

    # ---- R1c: post-order stack discipline
    r = rep.rule("C24.R1c", "a block is re-pushed as visited before its successors are pushed, and only blocks popped as visited are returned", floor=2)
    repush = [c for c in pushes if c.args and ", True)" in unparse(c.args[0])]
    if len(repush) != 1:
        raise AnalysisError(f"{nxt.fq}: expected one re-push `(block, True)`")
    n_re = cfg.node_of(repush[0])
    bad = False
    for c in succ_pushes:
        n_s = cfg.node_of(c)
        # every path from function entry / loop iteration start to the successor push passes the re-push
        if cfg.path_avoiding(cfg.entry, n_s, lambda n: n.id == n_re) is not None:
            bad = True
        # and no path from the successor push back to the re-push of the same iteration without a pop in between
        pops = {cfg.node_of(p) for p in calls_in(nxt.node) if isinstance(p.func, ast.Attribute) and attr_chain(p.func.value) == "self.stack" and p.func.attr == "pop"}
        if cfg.path_avoiding(n_s, n_re, lambda n: n.id in pops) is not None:
            bad = True
    if bad:
        r.fail(nxt.fq + ":order", Finding("C24.R1c", nxt.fq, "repush-order", "successors can be pushed before the block itself is re-pushed as visited: the block would be yielded before its successors", nxt.loc))
    else:
        r.ok(nxt.fq + ":order", f"{nxt.loc} (block, True) pushed before successors")
    rets = [n for n in walk_local(nxt.node) if isinstance(n, ast.Return)]
    for ret in rets:
        if not isinstance(ret.value, ast.Name):
            raise AnalysisError(f"{nxt.fq}: return of a non-name")
        nret = cfg.node_of(ret)
        from ..astutil import conjuncts as _cj

        defs = reaching_defs(cfg, ret.value.id, nret)
        ok = bool(defs)
        for nid, val in defs:
            node = cfg.nodes[nid].ast
            flag = None
            if isinstance(node, ast.Assign) and unparse(node.value) == "self.stack.pop()" and isinstance(node.targets[0], ast.Tuple) and len(node.targets[0].elts) == 2 and unparse(node.targets[0].elts[0]) == ret.value.id:
                flag = unparse(node.targets[0].elts[1])
            if flag is None:
                ok = False
                continue
            others = {d for d, _ in defs if d != nid}

            def establishes(n_: int, m_: int, lab, flag=flag) -> bool:
                a_ = cfg.nodes[n_].ast
                if a_ is None or lab not in ("T", "F") or not isinstance(a_, ast.expr):
                    return False
                return any(isinstance(t_, ast.Name) and t_.id == flag and pol for t_, pol in _cj(a_, lab == "T")) or any(unparse(t_) in (f"{flag} is True", f"{flag} == True") and pol for t_, pol in _cj(a_, lab == "T"))

            # a path from the pop to the return on which `visited` is never established true
            if cfg.path_avoiding(nid, nret, lambda n_: n_.id in others, follow_exc=False, edge_ok=lambda n_, m_, lab: not establishes(n_, m_, lab)) is not None:
                ok = False
        # the successor list used is the popped block's terminator
        if ok:
            r.ok(nxt.fq + ":return", f"{nxt.loc} returns only entries popped with visited=True")
        else:
            r.fail(nxt.fq + ":return", Finding("C24.R1c", nxt.fq, "return-unvisited", "a block can be returned without having been popped as visited (its successors may not have been yielded yet)", nxt.loc))
    # successors come from the current block's last op
    r = rep.rule("C24.R1d", "the successors pushed are those of the current block's terminator", floor=1)
    for c in succ_pushes:
        arg = c.args[0]
        it = arg.generators[0].iter if isinstance(arg, (ast.GeneratorExp, ast.ListComp)) else None
        if it is None:
            loops = [w for w in walk_local(nxt.node) if isinstance(w, ast.For) and any(x is c for x in ast.walk(w))]
            it = loops[-1].iter if loops else None
        at_ = cfg.node_of(c)
        if isinstance(it, ast.Name):
            ds_ = [(n_, v_) for n_, v_ in reaching_defs(cfg, it.id, at_) if v_ is not None]
            if len(ds_) == 1 and isinstance(ds_[0][1], (ast.ListComp, ast.GeneratorExp)) and len(ds_[0][1].generators) == 1:
                at_, it = ds_[0][0], ds_[0][1].generators[0].iter
        txt = resolved_text(cfg, it, at_) if it is not None else "?"
        # strip order / dedup wrappers, then: <t>.successors with <t> = <b>.last_op and <b> the block re-pushed as visited
        core = it
        while isinstance(core, ast.Call) and core.args and unparse(core.func) in ("reversed", "dict.fromkeys", "list", "tuple", "OrderedSet", "iter"):
            core = core.args[0]
        src_block = None
        if isinstance(core, ast.Attribute) and core.attr == "successors":
            t_ = core.value
            if isinstance(t_, ast.Name):
                ds2 = [v_ for _, v_ in reaching_defs(cfg, t_.id, at_) if v_ is not None]
                t_ = ds2[0] if len(ds2) == 1 else t_
            if isinstance(t_, ast.Attribute) and t_.attr == "last_op" and isinstance(t_.value, ast.Name):
                src_block = t_.value.id
        rp = repush[0].args[0]
        repushed = unparse(rp.elts[0]) if isinstance(rp, ast.Tuple) and rp.elts else None
        if src_block is not None and src_block == repushed:
            r.ok(nxt.fq, f"{nxt.loc} iterates {txt}")
        else:
            r.fail(nxt.fq, Finding("C24.R1d", nxt.fq, "successor-source", f"pushed successors come from `{txt}`, not from block.last_op.successors", nxt.loc))


    # successors are followed unless the last op is known not to be a terminator
    for c in calls_in(nxt.node):
        if call_attr(c) == "has_trait" and "IsTerminator" in unparse(c):
            kw = {k.arg: unparse(k.value) for k in c.keywords}
            if kw.get("value_if_unregistered") == "False":
                r.fail(nxt.fq + ":unregistered", Finding("C24.R1d", nxt.fq, "unregistered-terminator-ignored", f"`{unparse(c)}`: successors of an unregistered last op are not followed; blocks reachable only through it are not yielded", nxt.loc))
            else:
                r.ok(nxt.fq + ":unregistered", f"{nxt.loc} `{unparse(c)}` keeps unregistered ops as possible terminators")


def _entry_names(f, region: str) -> set[str]:
    """Local names bound to the region's first block (`entry, *rest = region.blocks`, `entry = region.blocks[0]`)."""
    out: set[str] = set()
    for s in walk_local(f.node):
        if isinstance(s, ast.Assign) and isinstance(s.targets[0], ast.Tuple) and unparse(s.value) == f"{region}.blocks" and s.targets[0].elts and isinstance(s.targets[0].elts[0], ast.Name):
            out.add(s.targets[0].elts[0].id)
        elif isinstance(s, ast.Assign) and isinstance(s.targets[0], ast.Name) and unparse(s.value) in (f"{region}.blocks[0]", f"{region}.first_block", f"{region}.block"):
            out.add(s.targets[0].id)
    return out


def _reach_closure_set(f, cfg: CFG, name: str, entry_names: set[str]) -> str | None:
    """Is local `name` the set of blocks reachable from the entry, built by the worklist closure idiom?

        R = {entry}; W = [entry]
        while W: x = W.pop(); for s in x.last_op.successors: if s not in R: R.add(s); W.append(s)

    Returns a description when recognised, None when `name` is not such a set, raises AnalysisError when it
    looks like one but a part of the idiom cannot be established (so nothing passes on the name alone)."""
    fn = f.node
    binds = [s for s in walk_local(fn) if isinstance(s, (ast.Assign, ast.AnnAssign)) and any(isinstance(t, ast.Name) and t.id == name for t in (s.targets if isinstance(s, ast.Assign) else [s.target]))]
    if len(binds) != 1 or binds[0].value is None:
        return None
    init = unparse(binds[0].value)
    seeds = {f"{{{e}}}" for e in entry_names} | {f"set([{e}])" for e in entry_names} | {f"set(({e},))" for e in entry_names}
    if init not in seeds:
        return None
    muts = [c for c in calls_in(fn) if isinstance(c.func, ast.Attribute) and isinstance(c.func.value, ast.Name) and c.func.value.id == name]
    aug = [s for s in walk_local(fn) if isinstance(s, ast.AugAssign) and isinstance(s.target, ast.Name) and s.target.id == name]
    if aug or any(c.func.attr not in ("add", "copy", "__contains__") for c in muts):  # type: ignore[attr-defined]
        raise AnalysisError(f"{f.fq}: reachability set `{name}` is modified by something other than `{name}.add(...)`")
    adds = [c for c in muts if c.func.attr == "add"]  # type: ignore[attr-defined]
    if not adds:
        raise AnalysisError(f"{f.fq}: reachability set `{name}` is never grown")
    wl_names: set[str] = set()
    for c in adds:
        if len(c.args) != 1 or not isinstance(c.args[0], ast.Name):
            raise AnalysisError(f"{f.fq}: `{unparse(c)}` not recognised")
        sv = c.args[0].id
        loops = [w for w in walk_local(fn) if isinstance(w, ast.For) and unparse(w.target) == sv and any(x is c for x in ast.walk(w))]
        if not loops:
            raise AnalysisError(f"{f.fq}: `{unparse(c)}`: `{sv}` is not a loop variable")
        loop = loops[-1]
        it = loop.iter
        if not (isinstance(it, ast.Attribute) and it.attr == "successors" and isinstance(it.value, ast.Attribute) and it.value.attr == "last_op" and isinstance(it.value.value, ast.Name)):
            raise AnalysisError(f"{f.fq}: `{sv}` ranges over `{unparse(it)}`, not over `<block>.last_op.successors`")
        xv = it.value.value.id
        # the block whose successors are followed is popped from a worklist
        xdefs = reaching_defs(cfg, xv, cfg.node_of(loop))
        for nid, val in xdefs:
            if not (isinstance(val, ast.Call) and isinstance(val.func, ast.Attribute) and val.func.attr in ("pop", "popleft") and isinstance(val.func.value, ast.Name)):
                raise AnalysisError(f"{f.fq}: `{xv}` (whose successors feed `{name}`) is not popped from a worklist")
            wl_names.add(val.func.value.id)
        # guards of the add: only `s not in R`, `x.last_op is not None`, truthiness of the worklist
        outer = [x for x in walk_local(fn) if isinstance(x, ast.While) and any(y is c for y in ast.walk(x))]
        if not outer:
            raise AnalysisError(f"{f.fq}: `{unparse(c)}` is not inside a worklist loop")
        for t, pol in guard_facts(fn, c):
            if not any(y is t for y in ast.walk(outer[0])):
                continue  # conditions outside the closure loop guard the whole construction, not single blocks
            tt = unparse(t)
            okg = (
                (isinstance(t, ast.Compare) and isinstance(t.ops[0], ast.NotIn) and pol and tt == f"{sv} not in {name}")
                or (isinstance(t, ast.Compare) and isinstance(t.ops[0], ast.In) and not pol and tt == f"{sv} in {name}")
                or (pol and tt in (f"{xv}.last_op is not None", f"{xv}.last_op"))
                or ((not pol) and tt == f"{xv}.last_op is None")
                or (pol and isinstance(t, ast.Name) and t.id in wl_names)
                or (pol and tt in {f"len({w}) > 0" for w in wl_names} | {f"len({w}) != 0" for w in wl_names})
            )
            if not okg:
                raise AnalysisError(f"{f.fq}: `{unparse(c)}` is additionally guarded by `{tt}`: the set may miss reachable blocks")
        # the added block is pushed in the same statement list
        pm_blocks = [blk for n in walk_local(fn) for fld in ("body", "orelse") if isinstance(blk := getattr(n, fld, None), list) and any(isinstance(st, ast.Expr) and st.value is c for st in blk)]
        if not pm_blocks:
            raise AnalysisError(f"{f.fq}: `{unparse(c)}` is not a statement")
        pushed = any(isinstance(st, ast.Expr) and isinstance(st.value, ast.Call) and isinstance(st.value.func, ast.Attribute) and st.value.func.attr == "append" and isinstance(st.value.func.value, ast.Name) and st.value.func.value.id in wl_names and len(st.value.args) == 1 and unparse(st.value.args[0]) == sv for st in pm_blocks[0])
        if not pushed:
            raise AnalysisError(f"{f.fq}: `{sv}` is added to `{name}` but not pushed on the worklist: its successors are never followed")
    if len(wl_names) != 1:
        raise AnalysisError(f"{f.fq}: worklist of `{name}` not recognised")
    w = next(iter(wl_names))
    wb = [s for s in walk_local(fn) if isinstance(s, (ast.Assign, ast.AnnAssign)) and any(isinstance(t, ast.Name) and t.id == w for t in (s.targets if isinstance(s, ast.Assign) else [s.target]))]
    winit = {f"[{e}]" for e in entry_names} | {f"deque([{e}])" for e in entry_names}
    if len(wb) != 1 or wb[0].value is None or unparse(wb[0].value) not in winit:
        raise AnalysisError(f"{f.fq}: worklist `{w}` is not initialised to [entry]")
    # other pushes must push members of R (only the recognised ones exist)
    for c in calls_in(fn):
        if isinstance(c.func, ast.Attribute) and isinstance(c.func.value, ast.Name) and c.func.value.id == w and c.func.attr in ("append", "extend", "insert", "appendleft"):
            if not (c.func.attr == "append" and len(c.args) == 1 and any(unparse(c.args[0]) == unparse(a.args[0]) for a in adds)):
                raise AnalysisError(f"{f.fq}: `{unparse(c)}` pushes something that is not a newly reached block")
    drains = [x for x in walk_local(fn) if isinstance(x, ast.While) and unparse(x.test) in (w, f"len({w}) > 0", f"len({w}) != 0")]
    if not drains:
        raise AnalysisError(f"{f.fq}: no `while {w}:` loop drains the worklist")
    return f"{name} = closure of {{entry}} under last_op.successors (worklist {w})"


def check_dominance(idx: Index, rep: Report) -> None:
    f = idx.func(DOM, "DominanceInfo.__init__")
    cfg = CFG(f.node)
    region = f.node.args.args[1].arg

    # ---- R2: predecessors restricted to reachable blocks
    r = rep.rule("C24.R2", "predecessor sets that feed the dominance meet contain only blocks reachable from the entry", floor=1)
    # the predecessor table: the local dict whose entries receive `.add(...)` and which the dominator update reads
    cand = {unparse(c.func.value.value) for c in calls_in(f.node) if call_attr(c) == "add" and isinstance(c.func, ast.Attribute) and isinstance(c.func.value, ast.Subscript) and isinstance(c.func.value.value, ast.Name)}  # type: ignore[attr-defined]
    predn = next(iter(cand)) if len(cand) == 1 else "pred"
    adds = [c for c in calls_in(f.node) if call_attr(c) == "add" and isinstance(c.func, ast.Attribute) and isinstance(c.func.value, ast.Subscript) and unparse(c.func.value.value) == predn]
    if not adds:
        raise AnalysisError(f"{f.fq}: `pred[s].add(b)` not found")
    for c in adds:
        b = unparse(c.args[0])
        loops = [w for w in walk_local(f.node) if isinstance(w, ast.For) and unparse(w.target) == b and any(x is c for x in ast.walk(w))]
        if not loops:
            raise AnalysisError(f"{f.fq}: loop binding `{b}` not found")
        dom_txt = resolved_text(cfg, loops[-1].iter, cfg.node_of(loops[-1]))
        facts = guard_facts(f.node, c)
        entry_names = _entry_names(f, region)

        def reach_expr(e: ast.AST) -> str | None:
            """`e` denotes exactly the blocks reachable from the entry: a post-order traversal from the entry
            (possibly wrapped in set/list/tuple/frozenset) or a recognised closure set."""
            t = resolved_text(cfg, e, cfg.node_of(e) if not isinstance(e, ast.Name) else None)
            for wrap in ("set(", "frozenset(", "list(", "tuple("):
                if t.startswith(wrap) and t.endswith(")"):
                    t = t[len(wrap):-1]
            if t in {f"PostOrderIterator({en})" for en in entry_names} | {f"PostOrderIterator({region}.blocks[0])", f"PostOrderIterator({region}.block)", f"PostOrderIterator({region}.first_block)"}:
                return t
            if isinstance(e, ast.Name):
                return _reach_closure_set(f, cfg, e.id, entry_names | {f"{region}.blocks[0]", f"{region}.first_block"})
            return None

        src = reach_expr(loops[-1].iter)
        if src is None:
            for t, pol in facts:
                if isinstance(t, ast.Compare) and len(t.ops) == 1 and unparse(t.left) == b and ((pol and isinstance(t.ops[0], ast.In)) or ((not pol) and isinstance(t.ops[0], ast.NotIn))):
                    src = reach_expr(t.comparators[0])
                    if src is not None:
                        src = f"guard `{unparse(t)}` with {src}"
                        break
        # the successors the edge is taken from: the loop binding the subscript of pred[...]
        s_name = unparse(c.func.value.slice)  # type: ignore[attr-defined]
        s_loops = [w for w in walk_local(f.node) if isinstance(w, ast.For) and unparse(w.target) == s_name and any(x is c for x in ast.walk(w))]
        s_iter = resolved_text(cfg, s_loops[-1].iter, cfg.node_of(s_loops[-1])) if s_loops else ""
        raw_successors = bool(re.fullmatch(rf"{re.escape(b)}\.last_op\.successors|{re.escape(b)}\.ops\.last\.successors", s_iter))
        if src is not None:
            r.ok(f.fq, f"{f.loc} predecessors collected from {src}")
        elif not raw_successors:
            # the edges come from a table / helper this rule does not read (e.g. a successor map keyed by the reachable blocks)
            r.fail(f.fq, Finding("C24.R2", f.fq, "preds-source-unrecognised", f"`pred[{s_name}].add({b})` takes its edges from `{s_iter[:80]}`: whether that covers reachable blocks only was not decided", f"{f.module.relpath}:{c.lineno}"))
        else:
            r.fail(f.fq, Finding("C24.R2", f.fq, "unreachable-preds", f"`pred[...].add({b})` runs for every `{b}` in `{dom_txt}`: an unreachable block branching to B removes the entry block from dom(B)", f"{f.module.relpath}:{c.lineno}"))

    # ---- R3: initialisation, fixpoint, queries
    r = rep.rule("C24.R3", "dominator sets: entry={entry}, others=all blocks; sweep until no set changed; meet = {b} | intersection over predecessors", floor=5)
    texts = [unparse(s) for s in walk_local(f.node) if isinstance(s, ast.stmt)]
    # entry / others
    unpack = [s for s in walk_local(f.node) if isinstance(s, ast.Assign) and isinstance(s.targets[0], ast.Tuple) and unparse(s.value) == f"{region}.blocks"]
    if len(unpack) != 1 or len(unpack[0].targets[0].elts) != 2 or not isinstance(unpack[0].targets[0].elts[1], ast.Starred):
        # no `entry, *blocks = region.blocks`: if the entry is bound on its own and the dominator sets are initialised and
        # swept over *all* blocks of the region, the entry takes part in the meet like any other block - positive evidence
        ens = sorted(_entry_names(f, region))
        all_loops = [w_ for w_ in walk_local(f.node) if isinstance(w_, ast.For) and unparse(w_.iter) == f"{region}.blocks" and any(isinstance(x_, ast.Assign) and unparse(x_.targets[0]).startswith("self._dominance[") for x_ in walk_local(w_))]
        seeded = any(isinstance(s_, ast.Assign) and any(unparse(s_.targets[0]) == f"self._dominance[{en_}]" and unparse(s_.value) == f"{{{en_}}}" for en_ in ens) for s_ in walk_local(f.node))
        if ens and all_loops and not seeded:
            r.fail(f.fq + ":entry-init", Finding("C24.R3", f.fq, "entry-in-sweep", f"the dominator sets are initialised and swept for every block of `{region}.blocks`, the entry `{ens[0]}` included, and the entry is never fixed to {{{ens[0]}}}: when a reachable block branches back to the entry (a loop header that is the first block), the entry keeps the blocks of that cycle as dominators and so does everything below it", f.loc))
            return
        raise AnalysisError(f"{f.fq}: `entry, *blocks = region.blocks` not recognised")
    entry = unparse(unpack[0].targets[0].elts[0])
    others = unparse(unpack[0].targets[0].elts[1].value)
    if f"self._dominance[{entry}] = {{{entry}}}" in texts:
        r.ok(f.fq + ":entry-init")
    else:
        r.fail(f.fq + ":entry-init", Finding("C24.R3", f.fq, "entry-init", "the entry block's dominator set must be initialised to {entry}", f.loc))
    init_loops = [w for w in walk_local(f.node) if isinstance(w, ast.For) and unparse(w.iter) == others and len(w.body) == 1 and isinstance(w.body[0], ast.Assign) and unparse(w.body[0].targets[0]) == f"self._dominance[{unparse(w.target)}]"]
    if init_loops and unparse(init_loops[0].body[0].value) in (f"set({region}.blocks)", f"set([{entry}, *{others}])", f"{{{entry}, *{others}}}"):
        r.ok(f.fq + ":others-init")
    else:
        r.fail(f.fq + ":others-init", Finding("C24.R3", f.fq, "others-init", "non-entry blocks must start from the set of all blocks (top of the lattice)", f.loc))
    # fixpoint loop
    wl = [w for w in walk_local(f.node) if isinstance(w, ast.While) and any(isinstance(x, ast.Assign) and unparse(x.targets[0]).startswith("self._dominance[") for x in walk_local(w))]
    if len(wl) != 1 or not isinstance(wl[0].test, ast.Name):
        raise AnalysisError(f"{f.fq}: `while changed:` loop not recognised")
    flag = wl[0].test.id
    w = wl[0]
    flag_assigns = [s for s in walk_local(w) if isinstance(s, (ast.Assign, ast.AugAssign, ast.AnnAssign)) and any(isinstance(t, ast.Name) and t.id == flag for t in (s.targets if isinstance(s, ast.Assign) else [s.target]))]
    bad = []
    if not (w.body and unparse(w.body[0]) == f"{flag} = False"):
        bad.append(("flag-reset", f"the sweep must start with `{flag} = False`"))
    for s in flag_assigns:
        if s is w.body[0]:
            continue
        t = unparse(s)
        ok = t == f"{flag} = True" or t.startswith(f"{flag} |= ") or t.startswith(f"{flag} = {flag} or ") or (t.startswith(f"{flag} = ") and t.endswith(f" or {flag}"))
        if not ok:
            bad.append(("flag-overwrite", f"`{t}` overwrites the change flag inside the sweep: a later unchanged block hides an earlier change and the iteration stops before the fixpoint"))
    if not any(unparse(s) == f"{flag} = True" or unparse(s).startswith((f"{flag} |= ", f"{flag} = {flag} or ")) for s in flag_assigns):
        bad.append(("flag-never-set", "the change flag is never set inside the sweep"))
    # the flag set must be guarded by old != new
    for s in flag_assigns:
        if unparse(s) == f"{flag} = True":
            facts = guard_facts(w, s)
            if not any(pol and isinstance(t, ast.Compare) and isinstance(t.ops[0], ast.NotEq) and "self._dominance[" in unparse(t) for t, pol in facts):
                bad.append(("flag-guard", "the change flag is not set under `old != new`"))
    pre = [s for s in f.node.body if unparse(s) == f"{flag} = True"]
    if not pre:
        bad.append(("flag-init", f"`{flag}` must be True before the loop"))
    if bad:
        for k, m in bad:
            r.fail(f.fq + ":fixpoint", Finding("C24.R3", f.fq, k, m, f.loc))
    else:
        r.ok(f.fq + ":fixpoint", f"{f.loc} while {flag}: {flag}=False; ...; if old != new: {flag}=True")
    # meet
    inner = [x for x in walk_local(w) if isinstance(x, ast.For) and unparse(x.iter) == others]
    if len(inner) != 1:
        raise AnalysisError(f"{f.fq}: sweep over non-entry blocks not recognised")
    b = unparse(inner[0].target)
    upd = [s for s in inner[0].body if isinstance(s, ast.Assign) and unparse(s.targets[0]) == f"self._dominance[{b}]"]
    if len(upd) != 1:
        raise AnalysisError(f"{f.fq}: dominator update not recognised")
    verdict = _meet_verdict(inner[0], upd[0], b, predn)
    if verdict is None:
        r.ok(f.fq + ":meet", f"{f.loc} dom[{b}] = {{{b}}} | ∩ dom[p], p ∈ pred[{b}]")
    else:
        r.fail(f.fq + ":meet", Finding("C24.R3", f.fq, verdict[0], verdict[1], f.loc))
    # queries (judged on what the returned expressions denote, under the guards of each return)
    def _returns(fi):
        c_ = CFG(fi.node)
        out = []
        for rt in [n for n in walk_local(fi.node) if isinstance(n, ast.Return) and n.value is not None]:
            out.append((expand_value_calls(fi.module, resolved_text(c_, rt.value, c_.node_of(rt))), text_facts(fi.node, rt), rt))
        return out

    def _not_same(facts, a, bb) -> bool:
        return (f"{a} is {bb}", False) in facts or (f"{a} is not {bb}", True) in facts or (f"{bb} is {a}", False) in facts or (f"{a} == {bb}", False) in facts or (f"{a} != {bb}", True) in facts

    def _same(facts, a, bb) -> bool:
        return (f"{a} is {bb}", True) in facts or (f"{a} is not {bb}", False) in facts or (f"{a} == {bb}", True) in facts

    dm = idx.func(DOM, "DominanceInfo.dominates")
    a, bb = dm.node.args.args[1].arg, dm.node.args.args[2].arg
    rets = _returns(dm)
    if rets and all(t == f"{a} in self._dominance[{bb}]" for t, _, _ in rets):
        r.ok(dm.fq)
    else:
        r.fail(dm.fq, Finding("C24.R3", dm.fq, "dominates", f"dominates(a, b) must be `a in self._dominance[b]`, found `{'; '.join(t for t, _, _ in rets)}`", dm.loc))
    DOMQ = lambda a_, b_: {f"self.dominates({a_}, {b_})", f"{a_} in self._dominance[{b_}]"}
    sd = idx.func(DOM, "DominanceInfo.strictly_dominates")
    a, bb = sd.node.args.args[1].arg, sd.node.args.args[2].arg
    ok = True
    rets = _returns(sd)
    for t, facts, rt in rets:
        if t == "False":
            ok = ok and _same(facts, a, bb)
        elif t in DOMQ(a, bb):
            ok = ok and _not_same(facts, a, bb)
        elif t in {f"{a} is not {bb} and {q}" for q in DOMQ(a, bb)} | {f"{q} if {a} is not {bb} else False" for q in DOMQ(a, bb)}:
            pass
        else:
            ok = False
    if ok and rets:
        r.ok(sd.fq)
    else:
        r.fail(sd.fq, Finding("C24.R3", sd.fq, "strict", "strictly_dominates must be `a is not b and dominates(a, b)`", sd.loc))
    sb = idx.func(DOM, "_strictly_dominates_block")
    a, bb = sb.node.args.args[0].arg, sb.node.args.args[1].arg
    rets = _returns(sb)
    ok = bool(rets)
    for t, facts, rt in rets:
        if t == "False":
            ok = ok and _same(facts, a, bb)
        elif t == f"DominanceInfo({a}.parent).strictly_dominates({a}, {bb})":
            pass
        elif t == f"DominanceInfo({a}.parent).dominates({a}, {bb})":
            ok = ok and _not_same(facts, a, bb)
        else:
            ok = False
    if ok:
        r.ok(sb.fq)
    else:
        r.fail(sb.fq, Finding("C24.R3", sb.fq, "wrapper", f"the free function must answer with DominanceInfo({a}.parent).strictly_dominates({a}, {bb}) (found {[t for t, _, _ in rets]})", sb.loc))

def check(idx: Index, rep: Report, tier: str) -> str:
    rep.run(check_post_order, idx, rep)
    rep.run(check_dominance, idx, rep)
    return (
        "AST/CFG rules over xdsl/ir/post_order.py and xdsl/irdl/dominance.py: visited-set discipline of the DFS "
        "(start marked, per-element test-and-mark, re-push before successors, only visited entries returned), "
        "predecessor sets restricted to reachable blocks, lattice initialisation, monotone change flag, meet shape, "
        "query definitions. These are necessary conditions decided for every region CFG at once; agreement with a "
        "path-based reference on concrete graphs is not decided here."
    )
