"""C24 — dominance and post-order traversal: structural clauses (DESIGN.md §2 C24)."""

from __future__ import annotations

import ast

from ..astutil import attr_chain, call_attr, calls_in, guard_facts, unparse, walk_local
from ..cfg import CFG
from ..dataflow import reaching_defs, resolved_text
from ..report import Finding, Report
from ..srcindex import AnalysisError, Index

PO = "xdsl/ir/post_order.py"
DOM = "xdsl/irdl/dominance.py"

DEDUP_CALLS = {"fromkeys", "set", "frozenset", "unique", "OrderedSet"}


def _is_seen(e: ast.AST) -> bool:
    return attr_chain(e) == "self.seen"


def check_post_order(idx: Index, rep: Report) -> None:
    cls = idx.cls(PO, "PostOrderIterator")
    if not {"stack", "seen"} <= {n for n, _, _ in cls.ann_fields()}:
        raise AnalysisError("PostOrderIterator no longer has stack/seen fields")
    init = idx.func(PO, "PostOrderIterator.__init__")
    nxt = idx.func(PO, "PostOrderIterator.__next__")

    # ---- R1a: the start block is marked visited when it is put on the stack
    r = rep.rule("C24.R1a", "every block put on the DFS stack as unvisited is in `seen` (start block in __init__)", floor=1)
    start = init.node.args.args[1].arg
    st_stack = [s for s in init.node.body if isinstance(s, ast.Assign) and attr_chain(s.targets[0]) == "self.stack"]
    st_seen = [s for s in init.node.body if isinstance(s, ast.Assign) and attr_chain(s.targets[0]) == "self.seen"]
    if len(st_stack) != 1 or len(st_seen) != 1:
        raise AnalysisError(f"{init.fq}: expected one assignment each to self.stack and self.seen")
    if unparse(st_stack[0].value) != f"[({start}, False)]":
        raise AnalysisError(f"{init.fq}: initial stack `{unparse(st_stack[0].value)}` not recognised")
    seen_txt = unparse(st_seen[0].value)
    if seen_txt in (f"{{{start}}}", f"set([{start}])", f"set(({start},))"):
        r.ok(init.fq, f"{init.loc} stack=[({start}, False)], seen={{{start}}}")
    else:
        r.fail(init.fq, Finding("C24.R1a", init.fq, "start-not-seen", f"the start block is pushed but `seen` is initialised to `{seen_txt}`: an edge back to the start block re-enqueues it (yielded twice, not last)", init.loc))

    # ---- R1b: visited-set discipline for successor pushes
    r = rep.rule("C24.R1b", "a block is tested against `seen` and marked before the next candidate of the same batch is tested (no duplicate enqueue for multi-edges)", floor=1)
    cfg = CFG(nxt.node)
    pushes = []  # (call, kind)
    for c in calls_in(nxt.node):
        if isinstance(c.func, ast.Attribute) and attr_chain(c.func.value) == "self.stack" and c.func.attr in ("extend", "append"):
            pushes.append(c)
    succ_pushes = []
    for c in pushes:
        arg = c.args[0] if c.args else None
        if arg is None:
            continue
        txt = unparse(arg)
        if ", False)" in txt:
            succ_pushes.append(c)
    if not succ_pushes:
        raise AnalysisError(f"{nxt.fq}: no push of unvisited successors `(x, False)` found")
    for c in succ_pushes:
        arg = c.args[0]
        inst = f"{nxt.fq}:{c.func.attr}"  # type: ignore[attr-defined]
        if c.func.attr == "extend" and isinstance(arg, (ast.GeneratorExp, ast.ListComp)):  # type: ignore[attr-defined]
            gen = arg.generators[0]
            var = unparse(gen.target)
            filt = [i for i in gen.ifs if isinstance(i, ast.Compare) and isinstance(i.ops[0], ast.NotIn) and _is_seen(i.comparators[0]) and unparse(i.left) == var]
            if not filt:
                r.fail(inst, Finding("C24.R1b", nxt.fq, "unfiltered-push", f"successors are pushed without testing `{var} not in self.seen`", nxt.loc))
                continue
            dedup = any(call_attr(x) in DEDUP_CALLS for x in calls_in(gen.iter, local=False))
            if dedup:
                # still need marking afterwards
                upd = [u for u in calls_in(nxt.node) if isinstance(u.func, ast.Attribute) and _is_seen(u.func.value) and u.func.attr in ("update", "add")]
                if upd:
                    r.ok(inst, f"{nxt.loc} batch deduplicated before the seen-filter: {unparse(gen.iter)}")
                else:
                    r.fail(inst, Finding("C24.R1b", nxt.fq, "never-marked", "pushed successors are never added to `seen`", nxt.loc))
            else:
                r.fail(inst, Finding("C24.R1b", nxt.fq, "batch-duplicates", f"`{unparse(c)[:110]}` filters the whole batch against `seen` and marks it afterwards in bulk: a block occurring twice in the successor list passes the filter twice and is yielded twice", f"{nxt.module.relpath}:{c.lineno}"))
        else:
            # append inside an explicit loop: must be guarded by `x not in seen` and followed/preceded by seen.add(x) in the same iteration
            el = arg.elts[0] if isinstance(arg, ast.Tuple) else None
            if el is None:
                raise AnalysisError(f"{nxt.fq}: push form `{unparse(c)}` not recognised")
            var = unparse(el)
            facts = guard_facts(nxt.node, c)
            guarded = any(isinstance(t, ast.Compare) and ((isinstance(t.ops[0], ast.NotIn) and pol) or (isinstance(t.ops[0], ast.In) and not pol)) and _is_seen(t.comparators[0]) and unparse(t.left) == var for t, pol in facts)
            n_push = cfg.node_of(c)
            adds = [u for u in calls_in(nxt.node) if isinstance(u.func, ast.Attribute) and _is_seen(u.func.value) and u.func.attr == "add" and u.args and unparse(u.args[0]) == var]
            # the for-head of the loop that binds var
            loops = [w for w in walk_local(nxt.node) if isinstance(w, ast.For) and unparse(w.target) == var and any(x is c for x in ast.walk(w))]
            ok_mark = False
            if adds and loops:
                head = cfg.node_of(loops[-1])
                add_nodes = {cfg.node_of(a) for a in adds}
                # from the push, the loop head cannot be reached again without passing an add (or the add precedes the push on every path from head)
                after = cfg.path_avoiding(n_push, head, lambda n: n.id in add_nodes) is None or n_push in add_nodes
                before = cfg.path_avoiding(head, n_push, lambda n: n.id in add_nodes) is None
                ok_mark = after or before
            if not guarded:
                r.fail(inst, Finding("C24.R1b", nxt.fq, "unfiltered-push", f"`{unparse(c)}` is not guarded by `{var} not in self.seen`", nxt.loc))
            elif not ok_mark:
                r.fail(inst, Finding("C24.R1b", nxt.fq, "batch-duplicates", f"`{var}` is pushed but not added to `seen` within the same iteration", nxt.loc))
            else:
                r.ok(inst, f"{nxt.loc} per-element test-and-mark for {var}")

    # ---- R1c: post-order stack discipline
    r = rep.rule("C24.R1c", "a block is re-pushed as visited before its successors are pushed, and only blocks popped as visited are returned", floor=2)
    repush = [c for c in pushes if c.args and ", True)" in unparse(c.args[0])]
    if len(repush) != 1:
        raise AnalysisError(f"{nxt.fq}: expected one re-push `(block, True)`")
    n_re = cfg.node_of(repush[0])
    bad = False
    for c in succ_pushes:
        n_s = cfg.node_of(c)
        # every path from function entry / loop iteration start to the successor push passes the re-push
        if cfg.path_avoiding(cfg.entry, n_s, lambda n: n.id == n_re) is not None:
            bad = True
        # and no path from the successor push back to the re-push of the same iteration without a pop in between
        pops = {cfg.node_of(p) for p in calls_in(nxt.node) if isinstance(p.func, ast.Attribute) and attr_chain(p.func.value) == "self.stack" and p.func.attr == "pop"}
        if cfg.path_avoiding(n_s, n_re, lambda n: n.id in pops) is not None:
            bad = True
    if bad:
        r.fail(nxt.fq + ":order", Finding("C24.R1c", nxt.fq, "repush-order", "successors can be pushed before the block itself is re-pushed as visited: the block would be yielded before its successors", nxt.loc))
    else:
        r.ok(nxt.fq + ":order", f"{nxt.loc} (block, True) pushed before successors")
    rets = [n for n in walk_local(nxt.node) if isinstance(n, ast.Return)]
    for ret in rets:
        if not isinstance(ret.value, ast.Name):
            raise AnalysisError(f"{nxt.fq}: return of a non-name")
        nret = cfg.node_of(ret)
        whiles = [w for w in walk_local(nxt.node) if isinstance(w, ast.While) and unparse(w.test) == "not visited"]
        if not whiles:
            raise AnalysisError(f"{nxt.fq}: `while not visited` loop not found")
        tests = {cfg.node_of(w.test) for w in whiles}
        defs = reaching_defs(cfg, ret.value.id, nret)
        ok = True
        for nid, val in defs:
            node = cfg.nodes[nid].ast
            if not (isinstance(node, ast.Assign) and unparse(node.value) == "self.stack.pop()" and unparse(node.targets[0]) == f"({ret.value.id}, visited)"):
                ok = False
            if cfg.path_avoiding(nid, nret, lambda n: n.id in tests) is not None:
                ok = False
        # the edge into return must be the False edge of `not visited`
        for p in cfg.pred[nret]:
            if p in tests:
                if ("F" not in [lab for m, lab in cfg.succ[p] if m == nret]):
                    ok = False
            else:
                ok = False
        # the successor list used is the popped block's terminator
        if ok:
            r.ok(nxt.fq + ":return", f"{nxt.loc} returns only entries popped with visited=True")
        else:
            r.fail(nxt.fq + ":return", Finding("C24.R1c", nxt.fq, "return-unvisited", "a block can be returned without having been popped as visited (its successors may not have been yielded yet)", nxt.loc))
    # successors come from the current block's last op
    r = rep.rule("C24.R1d", "the successors pushed are those of the current block's terminator", floor=1)
    for c in succ_pushes:
        arg = c.args[0]
        it = arg.generators[0].iter if isinstance(arg, (ast.GeneratorExp, ast.ListComp)) else None
        if it is None:
            loops = [w for w in walk_local(nxt.node) if isinstance(w, ast.For) and any(x is c for x in ast.walk(w))]
            it = loops[-1].iter if loops else None
        txt = resolved_text(cfg, it, cfg.node_of(c)) if it is not None else "?"
        if "block.last_op.successors" in txt:
            r.ok(nxt.fq, f"{nxt.loc} iterates {txt}")
        else:
            r.fail(nxt.fq, Finding("C24.R1d", nxt.fq, "successor-source", f"pushed successors come from `{txt}`, not from block.last_op.successors", nxt.loc))


    # successors are followed unless the last op is known not to be a terminator
    for c in calls_in(nxt.node):
        if call_attr(c) == "has_trait" and "IsTerminator" in unparse(c):
            kw = {k.arg: unparse(k.value) for k in c.keywords}
            if kw.get("value_if_unregistered") == "False":
                r.fail(nxt.fq + ":unregistered", Finding("C24.R1d", nxt.fq, "unregistered-terminator-ignored", f"`{unparse(c)}`: successors of an unregistered last op are not followed; blocks reachable only through it are not yielded", nxt.loc))
            else:
                r.ok(nxt.fq + ":unregistered", f"{nxt.loc} `{unparse(c)}` keeps unregistered ops as possible terminators")


def check_dominance(idx: Index, rep: Report) -> None:
    f = idx.func(DOM, "DominanceInfo.__init__")
    cfg = CFG(f.node)
    region = f.node.args.args[1].arg

    # ---- R2: predecessors restricted to reachable blocks
    r = rep.rule("C24.R2", "predecessor sets that feed the dominance meet contain only blocks reachable from the entry", floor=1)
    adds = [c for c in calls_in(f.node) if call_attr(c) == "add" and isinstance(c.func, ast.Attribute) and isinstance(c.func.value, ast.Subscript) and unparse(c.func.value.value) == "pred"]
    if not adds:
        raise AnalysisError(f"{f.fq}: `pred[s].add(b)` not found")
    for c in adds:
        b = unparse(c.args[0])
        loops = [w for w in walk_local(f.node) if isinstance(w, ast.For) and unparse(w.target) == b and any(x is c for x in ast.walk(w))]
        if not loops:
            raise AnalysisError(f"{f.fq}: loop binding `{b}` not found")
        dom_txt = resolved_text(cfg, loops[-1].iter, cfg.node_of(loops[-1]))
        facts = guard_facts(f.node, c)
        def reach_expr(t: str) -> bool:
            return "PostOrderIterator(" in t or "reachable" in t.lower()
        guarded = any(pol and isinstance(t, ast.Compare) and isinstance(t.ops[0], ast.In) and unparse(t.left) == b and reach_expr(resolved_text(cfg, t.comparators[0], cfg.node_of(t))) for t, pol in facts) or any((not pol) and isinstance(t, ast.Compare) and isinstance(t.ops[0], ast.NotIn) and unparse(t.left) == b and reach_expr(resolved_text(cfg, t.comparators[0], cfg.node_of(t))) for t, pol in facts)
        if reach_expr(dom_txt) or guarded:
            # a name merely called "reachable" must be built from a traversal
            src = dom_txt if reach_expr(dom_txt) else "guard"
            if "PostOrderIterator(" not in dom_txt and not guarded:
                raise AnalysisError(f"{f.fq}: predecessor domain `{dom_txt}` looks like a reachability set but its construction is not recognised")
            r.ok(f.fq, f"{f.loc} predecessors collected from {src}")
        else:
            r.fail(f.fq, Finding("C24.R2", f.fq, "unreachable-preds", f"`pred[...].add({b})` runs for every `{b}` in `{dom_txt}`: an unreachable block branching to B removes the entry block from dom(B)", f"{f.module.relpath}:{c.lineno}"))

    # ---- R3: initialisation, fixpoint, queries
    r = rep.rule("C24.R3", "dominator sets: entry={entry}, others=all blocks; sweep until no set changed; meet = {b} | intersection over predecessors", floor=5)
    texts = [unparse(s) for s in walk_local(f.node) if isinstance(s, ast.stmt)]
    # entry / others
    unpack = [s for s in walk_local(f.node) if isinstance(s, ast.Assign) and isinstance(s.targets[0], ast.Tuple) and unparse(s.value) == f"{region}.blocks"]
    if len(unpack) != 1 or len(unpack[0].targets[0].elts) != 2 or not isinstance(unpack[0].targets[0].elts[1], ast.Starred):
        raise AnalysisError(f"{f.fq}: `entry, *blocks = region.blocks` not recognised")
    entry = unparse(unpack[0].targets[0].elts[0])
    others = unparse(unpack[0].targets[0].elts[1].value)
    if f"self._dominance[{entry}] = {{{entry}}}" in texts:
        r.ok(f.fq + ":entry-init")
    else:
        r.fail(f.fq + ":entry-init", Finding("C24.R3", f.fq, "entry-init", "the entry block's dominator set must be initialised to {entry}", f.loc))
    init_loops = [w for w in walk_local(f.node) if isinstance(w, ast.For) and unparse(w.iter) == others and len(w.body) == 1 and isinstance(w.body[0], ast.Assign) and unparse(w.body[0].targets[0]) == f"self._dominance[{unparse(w.target)}]"]
    if init_loops and unparse(init_loops[0].body[0].value) in (f"set({region}.blocks)", f"set([{entry}, *{others}])", f"{{{entry}, *{others}}}"):
        r.ok(f.fq + ":others-init")
    else:
        r.fail(f.fq + ":others-init", Finding("C24.R3", f.fq, "others-init", "non-entry blocks must start from the set of all blocks (top of the lattice)", f.loc))
    # fixpoint loop
    wl = [w for w in walk_local(f.node) if isinstance(w, ast.While)]
    if len(wl) != 1 or not isinstance(wl[0].test, ast.Name):
        raise AnalysisError(f"{f.fq}: `while changed:` loop not recognised")
    flag = wl[0].test.id
    w = wl[0]
    flag_assigns = [s for s in walk_local(w) if isinstance(s, (ast.Assign, ast.AugAssign, ast.AnnAssign)) and any(isinstance(t, ast.Name) and t.id == flag for t in (s.targets if isinstance(s, ast.Assign) else [s.target]))]
    bad = []
    if not (w.body and unparse(w.body[0]) == f"{flag} = False"):
        bad.append(("flag-reset", f"the sweep must start with `{flag} = False`"))
    for s in flag_assigns:
        if s is w.body[0]:
            continue
        t = unparse(s)
        ok = t == f"{flag} = True" or t.startswith(f"{flag} |= ") or t.startswith(f"{flag} = {flag} or ") or (t.startswith(f"{flag} = ") and t.endswith(f" or {flag}"))
        if not ok:
            bad.append(("flag-overwrite", f"`{t}` overwrites the change flag inside the sweep: a later unchanged block hides an earlier change and the iteration stops before the fixpoint"))
    if not any(unparse(s) == f"{flag} = True" or unparse(s).startswith((f"{flag} |= ", f"{flag} = {flag} or ")) for s in flag_assigns):
        bad.append(("flag-never-set", "the change flag is never set inside the sweep"))
    # the flag set must be guarded by old != new
    for s in flag_assigns:
        if unparse(s) == f"{flag} = True":
            facts = guard_facts(w, s)
            if not any(pol and isinstance(t, ast.Compare) and isinstance(t.ops[0], ast.NotEq) and "self._dominance[" in unparse(t) for t, pol in facts):
                bad.append(("flag-guard", "the change flag is not set under `old != new`"))
    pre = [s for s in f.node.body if unparse(s) == f"{flag} = True"]
    if not pre:
        bad.append(("flag-init", f"`{flag}` must be True before the loop"))
    if bad:
        for k, m in bad:
            r.fail(f.fq + ":fixpoint", Finding("C24.R3", f.fq, k, m, f.loc))
    else:
        r.ok(f.fq + ":fixpoint", f"{f.loc} while {flag}: {flag}=False; ...; if old != new: {flag}=True")
    # meet
    inner = [x for x in walk_local(w) if isinstance(x, ast.For) and unparse(x.iter) == others]
    if len(inner) != 1:
        raise AnalysisError(f"{f.fq}: sweep over non-entry blocks not recognised")
    b = unparse(inner[0].target)
    upd = [s for s in inner[0].body if isinstance(s, ast.Assign) and unparse(s.targets[0]) == f"self._dominance[{b}]"]
    if len(upd) != 1:
        raise AnalysisError(f"{f.fq}: dominator update not recognised")
    v = upd[0].value
    vt = unparse(v)
    meet_ok = (
        isinstance(v, ast.BinOp) and isinstance(v.op, ast.BitOr) and unparse(v.left) == f"{{{b}}}"
        and "intersection(*(self._dominance[p] for p in pred[" + b + "]))" in vt
        and f"if pred[{b}] else set()" in vt
    )
    if meet_ok:
        r.ok(f.fq + ":meet", f"{f.loc} dom[{b}] = {{{b}}} | ∩ dom[p], p ∈ pred[{b}]")
    else:
        r.fail(f.fq + ":meet", Finding("C24.R3", f.fq, "meet", f"dominator update `{vt}` is not `{{b}} | intersection(dom[p] for p in pred[b])`", f.loc))
    # queries
    sd = idx.func(DOM, "DominanceInfo.strictly_dominates")
    a, bb = sd.node.args.args[1].arg, sd.node.args.args[2].arg
    body = [unparse(s) for s in sd.node.body if not (isinstance(s, ast.Expr) and isinstance(s.value, ast.Constant))]
    if body == [f"if {a} is {bb}:\n    return False", f"return self.dominates({a}, {bb})"] or body == [f"return {a} is not {bb} and self.dominates({a}, {bb})"]:
        r.ok(sd.fq)
    else:
        r.fail(sd.fq, Finding("C24.R3", sd.fq, "strict", "strictly_dominates must be `a is not b and dominates(a, b)`", sd.loc))
    dm = idx.func(DOM, "DominanceInfo.dominates")
    a, bb = dm.node.args.args[1].arg, dm.node.args.args[2].arg
    body = [unparse(s) for s in dm.node.body if not (isinstance(s, ast.Expr) and isinstance(s.value, ast.Constant))]
    if body == [f"return {a} in self._dominance[{bb}]"]:
        r.ok(dm.fq)
    else:
        r.fail(dm.fq, Finding("C24.R3", dm.fq, "dominates", f"dominates(a, b) must be `a in self._dominance[b]`, found `{'; '.join(body)}`", dm.loc))
    sb = idx.func(DOM, "_strictly_dominates_block")
    a, bb = sb.node.args.args[0].arg, sb.node.args.args[1].arg
    rets = [unparse(n) for n in walk_local(sb.node) if isinstance(n, ast.Return)]
    if f"return DominanceInfo({a}.parent).strictly_dominates({a}, {bb})" in rets and "return False" in rets:
        r.ok(sb.fq)
    else:
        r.fail(sb.fq, Finding("C24.R3", sb.fq, "wrapper", "free function must forward (a, b) in order to DominanceInfo(a.parent).strictly_dominates", sb.loc))


def check(idx: Index, rep: Report, tier: str) -> str:
    rep.run(check_post_order, idx, rep)
    rep.run(check_dominance, idx, rep)
    return (
        "AST/CFG rules over xdsl/ir/post_order.py and xdsl/irdl/dominance.py: visited-set discipline of the DFS "
        "(start marked, per-element test-and-mark, re-push before successors, only visited entries returned), "
        "predecessor sets restricted to reachable blocks, lattice initialisation, monotone change flag, meet shape, "
        "query definitions. These are necessary conditions decided for every region CFG at once; agreement with a "
        "path-based reference on concrete graphs is not decided here."
    )
