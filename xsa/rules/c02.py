"""C02 — cloning: writes only to fresh objects, mapper provenance, registration-before-remap ordering."""

from __future__ import annotations

import ast

from ..astutil import attr_chain, call_attr, calls_in, unparse, walk_local
from ..cfg import CFG
from ..dataflow import reaching_defs, resolved_text
from ..report import Finding, Report
from ..srcindex import AnalysisError, Index

CORE = "xdsl/ir/core.py"
PASSES = "xdsl/passes.py"

FRESH_CALLS = {"Block", "Region", "create", "clone", "clone_without_regions"}
DERIVING_ATTRS = {"results", "args", "regions", "blocks", "ops", "walk", "operands", "res", "block", "first_block", "last_block", "first_op", "last_op"}
MAPPERS = {"value_mapper", "block_mapper"}
IR_MUTATORS = {
    "add_op", "add_ops", "insert_op", "insert_op_before", "insert_op_after", "insert_ops_before", "insert_ops_after",
    "insert_arg", "erase_arg", "insert_block", "add_block", "insert_block_before", "insert_block_after",
    "detach_op", "detach_block", "erase_op", "erase_block", "erase", "detach", "replace_by", "replace_all_uses_with",
    "move_blocks", "move_blocks_before", "drop_all_references", "split_before",
}
WRITES_FIRST_ARG = {"clone_into", "move_blocks", "move_blocks_before"}


class Fresh:
    def __init__(self, fn: ast.FunctionDef, cfg: CFG):
        self.fn, self.cfg = fn, cfg
        self._memo: dict[tuple[int, int], bool] = {}
        # local lists populated only by append(fresh)
        self.fresh_lists: set[str] = set()
        for s in walk_local(fn):
            tgt = None
            if isinstance(s, ast.Assign) and len(s.targets) == 1 and isinstance(s.targets[0], ast.Name):
                tgt, val = s.targets[0].id, s.value
            elif isinstance(s, ast.AnnAssign) and isinstance(s.target, ast.Name) and s.value is not None:
                tgt, val = s.target.id, s.value
            if tgt and isinstance(val, ast.List) and not val.elts:
                self.fresh_lists.add(tgt)
        for name in list(self.fresh_lists):
            for c in calls_in(fn):
                if isinstance(c.func, ast.Attribute) and isinstance(c.func.value, ast.Name) and c.func.value.id == name:
                    if c.func.attr == "append":
                        if not self.fresh(c.args[0], self.cfg.node_of(c)):
                            self.fresh_lists.discard(name)
                    elif c.func.attr in ("extend", "insert", "__setitem__"):
                        self.fresh_lists.discard(name)

    def fresh(self, e: ast.AST, at: int, depth: int = 8) -> bool:
        if depth <= 0:
            return False
        if isinstance(e, ast.Call):
            nm = call_attr(e)
            if isinstance(e.func, ast.Name) and nm in ("Block", "Region"):
                return True
            if isinstance(e.func, ast.Attribute) and nm in ("create", "clone", "clone_without_regions"):
                return True
            if isinstance(e.func, ast.Attribute) and nm in DERIVING_ATTRS:
                return self.fresh(e.func.value, at, depth - 1)
            if isinstance(e.func, ast.Attribute) and nm in ("insert_arg",):
                # creates and returns a new argument of the receiver
                return self.fresh(e.func.value, at, depth - 1)
            if nm in ("tuple", "list", "reversed", "iter") and e.args:
                return self.fresh(e.args[0], at, depth - 1)
            return False
        if isinstance(e, ast.Attribute):
            return e.attr in DERIVING_ATTRS and self.fresh(e.value, at, depth - 1)
        if isinstance(e, ast.Subscript):
            return self.fresh(e.value, at, depth - 1)
        if isinstance(e, (ast.GeneratorExp, ast.ListComp)):
            # elements produced by walking fresh containers, or every element built by a creating call
            if isinstance(e.elt, ast.Call) and self.fresh(e.elt, at, depth - 1):
                return True
            env_ok = self.fresh(e.generators[0].iter, at, depth - 1)
            return env_ok
        if isinstance(e, ast.Name):
            if e.id in self.fresh_lists:
                return True
            defs = reaching_defs(self.cfg, e.id, at)
            if not defs:
                return False
            for nid, val in defs:
                if nid == self.cfg.entry:
                    return False
                node = self.cfg.nodes[nid]
                if val is not None:
                    if not self.fresh(val, nid, depth - 1):
                        return False
                    continue
                if node.kind == "for":
                    it = self._for_component(node.ast, e.id)
                    if it is None or not self.fresh(it, nid, depth - 1):
                        return False
                    continue
                return False
            return True
        return False

    def foreign(self, e: ast.AST, at: int, depth: int = 8) -> bool:
        """Positively known NOT to be created by this clone: the expression is rooted (through attribute / subscript /
        call chains and plain local rebindings) in a parameter of the function, `self` included.  When neither fresh()
        nor foreign() holds the provenance is unknown (tuple components, helper results, ...)."""
        if depth <= 0:
            return False
        root = e
        while isinstance(root, (ast.Attribute, ast.Subscript, ast.Call, ast.Starred)):
            root = root.func if isinstance(root, ast.Call) else root.value
        if isinstance(root, (ast.GeneratorExp, ast.ListComp)):
            return self.foreign(root.generators[0].iter, at, depth - 1) and not isinstance(root.elt, ast.Call)
        if not isinstance(root, ast.Name):
            return False
        params = {a.arg for a in self.fn.args.posonlyargs + self.fn.args.args + self.fn.args.kwonlyargs}
        defs = reaching_defs(self.cfg, root.id, at)
        if not defs:
            return False
        for nid, val in defs:
            if nid == self.cfg.entry:
                if root.id not in params:
                    return False
                continue
            node = self.cfg.nodes[nid]
            if val is not None:
                if not self.foreign(val, nid, depth - 1):
                    return False
                continue
            if node.kind == "for":
                it = self._for_component(node.ast, root.id)
                if it is None or not self.foreign(it, nid, depth - 1):
                    return False
                continue
            return False
        return True

    def _for_component(self, loop: ast.For, name: str) -> ast.AST | None:
        tgt, it = loop.target, loop.iter
        if isinstance(tgt, ast.Name):
            return it if tgt.id == name else None
        if isinstance(tgt, ast.Tuple) and isinstance(it, ast.Call):
            fn = call_attr(it)
            if fn == "zip" and len(it.args) == len(tgt.elts):
                for t, a in zip(tgt.elts, it.args):
                    if isinstance(t, ast.Name) and t.id == name:
                        return a
            if fn == "enumerate" and len(tgt.elts) == 2 and isinstance(tgt.elts[1], ast.Name) and tgt.elts[1].id == name:
                return it.args[0]
        return None


def _root_name(e: ast.AST) -> str | None:
    while isinstance(e, (ast.Attribute, ast.Subscript, ast.Call)):
        e = e.func if isinstance(e, ast.Call) else e.value
    return e.id if isinstance(e, ast.Name) else None



def _mutable_default_uses(fn: ast.AST):
    """[(param, default expr, first offending node or None, why)] for every parameter of fn whose default is a mutable literal"""
    MUT = ("append", "add", "update", "setdefault", "pop", "popitem", "clear", "extend", "insert", "remove", "discard", "__setitem__")
    a_ = fn.args  # type: ignore[attr-defined]
    pos = a_.posonlyargs + a_.args
    defaults = dict(zip([x.arg for x in pos[len(pos) - len(a_.defaults):]], a_.defaults))
    defaults.update({x.arg: d for x, d in zip(a_.kwonlyargs, a_.kw_defaults) if d is not None})
    out = []
    for pn, d in defaults.items():
        mutable = isinstance(d, (ast.Dict, ast.List, ast.Set)) or (isinstance(d, ast.Call) and unparse(d.func) in ("dict", "list", "set", "defaultdict", "OrderedDict"))
        if not mutable:
            continue
        uses = []
        rebound = any(isinstance(n, ast.Name) and n.id == pn and isinstance(n.ctx, ast.Store) for n in walk_local(fn))
        for n in walk_local(fn):
            if isinstance(n, (ast.Assign, ast.AugAssign)):
                tgs = n.targets if isinstance(n, ast.Assign) else [n.target]
                if any(isinstance(t_, ast.Subscript) and unparse(t_.value) == pn for t_ in tgs) or (isinstance(n, ast.AugAssign) and unparse(n.target) == pn):
                    uses.append((n, f"`{unparse(n)[:60]}` writes it"))
            if isinstance(n, ast.Call):
                if isinstance(n.func, ast.Attribute) and unparse(n.func.value) == pn and n.func.attr in MUT:
                    uses.append((n, f"`{unparse(n)[:60]}` writes it"))
                elif any(isinstance(x, ast.Name) and x.id == pn for x in list(n.args) + [k.value for k in n.keywords]) and not (isinstance(n.func, ast.Name) and n.func.id in ("dict", "list", "set", "tuple", "len", "isinstance", "frozenset", "sorted")):
                    uses.append((n, f"`{unparse(n)[:60]}` hands it to another function"))
        if uses and not rebound:
            out.append((pn, d, uses[0][0], uses[0][1]))
        else:
            out.append((pn, d, None, ""))
    return out


def check(idx: Index, rep: Report, tier: str) -> str:
    r1 = rep.rule("C02.R1", "clone functions write (attribute stores, IR mutators) only to objects created by the clone; the only write to `dest` is the block insertion of the fresh blocks", floor=8)
    funcs = ["Operation.clone_without_regions", "Operation.clone", "Region.clone", "Region.clone_into"]
    undecided: list[str] = []
    for q in funcs:
        f = idx.func(CORE, q)
        cfg = CFG(f.node)
        fr = Fresh(f.node, cfg)
        # attribute stores
        for n in walk_local(f.node):
            tgts = []
            if isinstance(n, ast.Assign):
                tgts = n.targets
            elif isinstance(n, (ast.AugAssign, ast.AnnAssign)):
                tgts = [n.target]
            for t in tgts:
                if isinstance(t, ast.Attribute):
                    inst = f"{f.fq}:{unparse(t)}="
                    at = cfg.node_of(n)
                    if fr.fresh(t.value, at):
                        r1.ok(inst, f"{f.module.relpath}:{n.lineno} `{unparse(t)} = ...` on a fresh object")
                    elif not fr.foreign(t.value, at):
                        undecided.append(f"{f.fq}: `{unparse(n)[:70]}`: whether `{unparse(t.value)}` was created by this clone")
                    else:
                        src = _root_name(t.value)
                        r1.fail(inst, Finding("C02.R1", f.fq, f"write-nonfresh:{unparse(t)}", f"`{unparse(n)[:100]}` writes `{unparse(t)}` where `{unparse(t.value)}` is not derived from objects created by this clone (it comes from `{_origin(fr, cfg, t.value, at)}`): cloning modifies IR that was already there", f"{f.module.relpath}:{n.lineno}"))
                elif isinstance(t, ast.Subscript):
                    base = _root_name(t.value)
                    if base in MAPPERS:
                        continue
        for c in calls_in(f.node):
            nm = call_attr(c)
            if not isinstance(c.func, ast.Attribute):
                continue
            at = cfg.node_of(c)
            if nm in IR_MUTATORS:
                inst = f"{f.fq}:{unparse(c.func)}()"
                recv = c.func.value
                if fr.fresh(recv, at):
                    r1.ok(inst, f"{f.module.relpath}:{c.lineno} `{unparse(c.func)}(...)` on a fresh object")
                elif q == "Region.clone_into" and nm == "insert_block" and unparse(recv) == "dest":
                    # the one permitted write to the destination: insertion of the fresh blocks
                    if c.args and fr.fresh(c.args[0], at):
                        r1.ok(inst, f"{f.module.relpath}:{c.lineno} dest.insert_block(<fresh blocks>)")
                    elif c.args and not fr.foreign(c.args[0], at):
                        undecided.append(f"{f.fq}: `{unparse(c)[:70]}`: whether the inserted blocks were all created by this clone")
                    else:
                        r1.fail(inst, Finding("C02.R1", f.fq, "dest-insert-nonfresh", f"`{unparse(c)}` inserts blocks that are not all created by this clone", f"{f.module.relpath}:{c.lineno}"))
                elif not fr.foreign(recv, at):
                    undecided.append(f"{f.fq}: `{unparse(c)[:70]}`: whether `{unparse(recv)}` was created by this clone")
                else:
                    r1.fail(inst, Finding("C02.R1", f.fq, f"mutate-nonfresh:{unparse(c.func)}", f"`{unparse(c)[:100]}` mutates `{unparse(recv)}` which is not created by this clone", f"{f.module.relpath}:{c.lineno}"))
            if nm in WRITES_FIRST_ARG and c.args:
                inst = f"{f.fq}:{unparse(c.func)}(arg0)"
                if fr.fresh(c.args[0], at):
                    r1.ok(inst, f"{f.module.relpath}:{c.lineno} `{nm}` into fresh `{unparse(c.args[0])}`")
                elif not fr.foreign(c.args[0], at):
                    undecided.append(f"{f.fq}: `{unparse(c)[:70]}`: whether `{unparse(c.args[0])}` was created by this clone")
                else:
                    r1.fail(inst, Finding("C02.R1", f.fq, f"clone-into-nonfresh:{unparse(c.args[0])}", f"`{unparse(c)[:100]}` clones into `{unparse(c.args[0])}` which is not created by this clone", f"{f.module.relpath}:{c.lineno}"))

    if undecided and not any(r_.findings for r_ in [r1]):
        raise AnalysisError("provenance not understood (neither created by the clone nor rooted in a parameter): " + "; ".join(undecided[:3]))

    # ---- R2: operands / successors of the copy come through the mappers
    r2 = rep.rule("C02.R2", "operands and successors given to the copy are obtained through value_mapper / block_mapper with identity fallback; remap loops pair source and copy walks", floor=4)
    f = idx.func(CORE, "Operation.clone_without_regions")
    cfg = CFG(f.node)
    creates = [c for c in calls_in(f.node) if call_attr(c) == "create"]
    if len(creates) != 1:
        raise AnalysisError(f"{f.fq}: expected exactly one create(...) call")
    kw = {k.arg: k.value for k in creates[0].keywords}
    at = cfg.node_of(creates[0])
    from ..setbuild import describe as describe_set, element_shape

    def mapped(expr, sources: set[str], mapper: str, allowed_facts: set, what: str):
        """None when `expr` is the sequence `mapper`-mapped (identity fallback) over one of `sources`; else why not."""
        if expr is None:
            return f"no {what} are given to create(...)"
        d = describe_set(f.node, cfg, expr, at)
        if d.unknown:
            raise AnalysisError(f"{f.fq}: how the {what} of the copy are built was not understood: {d.unknown[:2]}")
        if d.bases - {"()"}:
            return f"the {what} of the copy include `{sorted(d.bases)}` unmapped"
        shapes = {f"{mapper}.get(_x, _x)", f"{mapper}[_x] if _x in {mapper} else _x", f"_x if _x not in {mapper} else {mapper}[_x]"}
        # explicit two-branch form: `M[x]` appended when x in M, `x` otherwise (same loop)
        if len(d.adds) == 2 and all(len(a_.iters) == 1 for a_ in d.adds) and d.adds[0].iters == d.adds[1].iters and d.adds[0].iters[0][1] in sources:
            var = d.adds[0].iters[0][0]
            by_shape = {element_shape(a_): set(a_.facts) for a_ in d.adds}
            inm = (f"{var} in {mapper}", True)
            notin = (f"{var} in {mapper}", False)
            if set(by_shape) == {f"{mapper}[_x]", "_x"} and inm in by_shape[f"{mapper}[_x]"] and notin in by_shape["_x"] and (by_shape[f"{mapper}[_x]"] - {inm}) <= allowed_facts and (by_shape["_x"] - {notin}) <= allowed_facts:
                return None
        for ad in d.adds:
            if len(ad.iters) != 1 or ad.iters[0][1] not in sources:
                return f"`{ad.elem}` is not taken per element of {sorted(sources)}"
            if element_shape(ad) not in shapes:
                return f"each of the {what} is `{ad.elem}`; it must be {mapper}.get(x, x) (mapped when known, identity otherwise)"
            if not set(ad.facts) <= allowed_facts:
                return f"the {what} are only given under {sorted(set(ad.facts) - allowed_facts)}"
        return None if d.adds else f"the {what} of the copy are empty"

    why = mapped(kw.get("operands"), {"self._operands", "self.operands"}, "value_mapper", {("clone_operands", True)}, "operands")
    if why is None:
        r2.ok(f.fq + ":operands", f"{f.loc} operands mapped through value_mapper with identity fallback (deferred unless clone_operands)")
    else:
        r2.fail(f.fq + ":operands", Finding("C02.R2", f.fq, "operands-not-mapped", f"{why}; they must be value_mapper.get(operand, operand) over the source operands (or empty when deferred)", f.loc))
    why = mapped(kw.get("successors"), {"self._successors", "self.successors"}, "block_mapper", set(), "successors")
    if why is None:
        r2.ok(f.fq + ":successors", f"{f.loc} successors through block_mapper with identity fallback")
    else:
        r2.fail(f.fq + ":successors", Finding("C02.R2", f.fq, "successors-not-mapped", f"{why}; they must go through block_mapper with identity fallback", f.loc))
    # result types / regions
    dreg = describe_set(f.node, cfg, kw["regions"], at) if "regions" in kw else None
    regs_ok = dreg is not None and not dreg.unknown and not dreg.bases and len(dreg.adds) == 1 and dreg.adds[0].elem == "Region()" and [it for _, it in dreg.adds[0].iters] in (["self.regions"], ["range(len(self.regions))"]) and not dreg.adds[0].facts
    if _def_texts(cfg, kw.get("result_types"), at) <= {"self.result_types", "[r.type for r in self.results]", "tuple((r.type for r in self.results))"} and regs_ok:
        r2.ok(f.fq + ":results-regions")
    else:
        r2.fail(f.fq + ":results-regions", Finding("C02.R2", f.fq, "results-regions", "result types / fresh empty regions of the copy do not mirror the source", f.loc))
    # remap loops in Operation.clone and Region.clone_into
    for q in ("Operation.clone", "Region.clone_into"):
        f = idx.func(CORE, q)
        cfg = CFG(f.node)
        fr = Fresh(f.node, cfg)
        loops = [w for w in walk_local(f.node) if isinstance(w, ast.For) and any(isinstance(s, ast.Assign) and isinstance(s.targets[0], ast.Attribute) and s.targets[0].attr == "operands" for s in w.body)]
        if len(loops) != 1:
            raise AnalysisError(f"{f.fq}: expected exactly one operand-remap loop")
        w = loops[0]
        st = next(s for s in w.body if isinstance(s, ast.Assign) and isinstance(s.targets[0], ast.Attribute) and s.targets[0].attr == "operands")
        new = unparse(st.targets[0].value)
        inst = f"{f.fq}:remap"
        bad = []
        if not (isinstance(w.iter, ast.Call) and call_attr(w.iter) == "zip" and len(w.iter.args) == 2 and isinstance(w.target, ast.Tuple)):
            raise AnalysisError(f"{f.fq}: remap loop is not over zip(source walk, copy walk)")
        names = [unparse(t) for t in w.target.elts]
        src_arg, new_arg = (w.iter.args[0], w.iter.args[1]) if names[1] == new else (w.iter.args[1], w.iter.args[0])
        old = names[0] if names[1] == new else names[1]
        if unparse(src_arg) != "self.walk()":
            bad.append(("remap-source", f"the source side of the remap loop is `{unparse(src_arg)}`, not self.walk()"))
        dval = describe_set(f.node, cfg, st.value, cfg.node_of(st))
        val_ok = not dval.unknown and not dval.bases and len(dval.adds) == 1 and dval.adds[0].iters and dval.adds[0].iters[0][1] in (f"{old}.operands", f"{old}._operands") and element_shape(dval.adds[0]) in ("value_mapper.get(_x, _x)", "value_mapper[_x] if _x in value_mapper else _x") and not dval.adds[0].facts
        if not val_ok:
            bad.append(("remap-value", f"remapped operands are `{unparse(st.value)}`; must be value_mapper.get(operand, operand) over {old}.operands"))
        if not fr.fresh(new_arg, cfg.node_of(w)) and not fr.foreign(new_arg, cfg.node_of(w)):
            raise AnalysisError(f"{f.fq}: whether the copy side of the remap loop `{unparse(new_arg)}` walks only objects created by this clone was not understood")
        if not fr.fresh(new_arg, cfg.node_of(w)):
            bad.append(("remap-target", f"the copy side of the remap loop is `{unparse(new_arg)}`, which is not the walk of the freshly created copy: the pairing with self.walk() is wrong whenever it contains anything else"))
        # guarded by clone_operands
        from ..astutil import guard_facts
        if not any(pol and unparse(t) == "clone_operands" for t, pol in guard_facts(f.node, w)):
            bad.append(("remap-guard", "the remap loop must run iff clone_operands"))
        if bad:
            for k, m in bad:
                r2.fail(inst, Finding("C02.R2", f.fq, k, m, f"{f.module.relpath}:{w.lineno}"))
        else:
            r2.ok(inst, f"{f.module.relpath}:{w.lineno} zip(self.walk(), <fresh>.walk())")

    # ---- R3: registration before remap
    r3 = rep.rule("C02.R3", "every definition of the cloned part is entered in the mappers before any reference is remapped (blocks before ops, results/args at creation, nested clones defer operands)", floor=5)
    f = idx.func(CORE, "Region.clone_into")
    cfg = CFG(f.node)
    bm_stores = [s for s in walk_local(f.node) if isinstance(s, ast.Assign) and unparse(s.targets[0]).startswith("block_mapper[")]
    clones = [c for c in calls_in(f.node) if call_attr(c) == "clone"]
    bulk = [s for s in walk_local(f.node) if isinstance(s, ast.Expr) and isinstance(s.value, ast.Call) and unparse(s.value.func) == "block_mapper.update" and s.value.args and isinstance(s.value.args[0], ast.Call) and call_attr(s.value.args[0]) == "zip" and s.value.args[0].args and unparse(s.value.args[0].args[0]) == "self.blocks"]
    if (not bm_stores and not bulk) or not clones:
        raise AnalysisError(f"{f.fq}: block registration or op.clone not found")
    reg_loop = [w for w in walk_local(f.node) if isinstance(w, ast.For) and any(s in w.body for s in bm_stores)]
    def _over_all_blocks(it: ast.AST) -> bool:
        if unparse(it) == "self.blocks":
            return True
        return isinstance(it, ast.Call) and unparse(it.func) in ("zip", "enumerate") and bool(it.args) and unparse(it.args[0]) == "self.blocks"

    if not bulk and (not reg_loop or not _over_all_blocks(reg_loop[0].iter)):
        r3.fail(f.fq + ":blocks", Finding("C02.R3", f.fq, "blocks-registration", "block_mapper is not filled by a loop over all self.blocks", f.loc))
    else:
        head = cfg.node_of(bulk[0]) if bulk else cfg.node_of(reg_loop[0])
        ns = {cfg.node_of(s) for s in bm_stores} | {cfg.node_of(s) for s in bulk}
        bad = False
        for c in clones:
            nc = cfg.node_of(c)
            if cfg.path_avoiding(cfg.entry, nc, lambda n: n.id == head) is not None:
                bad = True
            if any(s in cfg.reachable(nc) for s in ns):
                bad = True
        if bad:
            r3.fail(f.fq + ":blocks", Finding("C02.R3", f.fq, "blocks-registration", "an operation can be cloned before all blocks of the region are in block_mapper (forward successor would keep pointing to the source block)", f.loc))
        else:
            r3.ok(f.fq + ":blocks", f"{f.loc} all blocks registered before the first op.clone")
    # block args registered before ops of the block are cloned
    arg_stores = [s for s in walk_local(f.node) if isinstance(s, ast.Assign) and unparse(s.targets[0]).startswith("value_mapper[")]
    if not arg_stores:
        r3.fail(f.fq + ":args", Finding("C02.R3", f.fq, "args-registration", "block arguments of the copy are not entered in value_mapper", f.loc))
    else:
        fr = Fresh(f.node, cfg)
        ok = True
        for s in arg_stores:
            if not fr.fresh(s.value, cfg.node_of(s)):
                ok = False
            loops = [w for w in walk_local(f.node) if isinstance(w, ast.For) and s in w.body]
            if not loops or "args" not in unparse(loops[0].iter):
                ok = False
            else:
                head = cfg.node_of(loops[0])
                for c in clones:
                    # within one block iteration the args loop comes before op cloning
                    if head in cfg.reachable(cfg.node_of(c)) and cfg.path_avoiding(cfg.node_of(c), head, lambda n: n.kind == "for" and n.id != head and "zip(self.blocks" in n.text()) is not None:
                        ok = False
                    if cfg.path_avoiding(cfg.entry, cfg.node_of(c), lambda n: n.id == head) is not None:
                        ok = False
        if ok:
            r3.ok(f.fq + ":args", f"{f.loc} value_mapper[block_arg] = <fresh arg> before the block's ops are cloned")
        else:
            r3.fail(f.fq + ":args", Finding("C02.R3", f.fq, "args-registration", "block arguments are not registered (to the fresh argument) before the ops of the block are cloned", f.loc))
    # results registered at creation in clone_without_regions on every path to return
    f = idx.func(CORE, "Operation.clone_without_regions")
    cfg = CFG(f.node)
    loops = [w for w in walk_local(f.node) if isinstance(w, ast.For) and any(isinstance(s, ast.Assign) and unparse(s.targets[0]).startswith("value_mapper[") for s in w.body)]
    good = False
    for w in loops:
        ret_names = {unparse(n.value) for n in walk_local(f.node) if isinstance(n, ast.Return) and isinstance(n.value, ast.Name)}
        if isinstance(w.iter, ast.Call) and call_attr(w.iter) == "zip" and len(w.iter.args) >= 2 and unparse(w.iter.args[0]) == "self.results" and unparse(w.iter.args[1]) in {f"{rn}.results" for rn in ret_names}:
            names = [unparse(t) for t in w.target.elts]  # type: ignore[attr-defined]
            if any(unparse(s) == f"value_mapper[{names[0]}] = {names[1]}" for s in w.body):
                head = cfg.node_of(w)
                rets = [n for n in walk_local(f.node) if isinstance(n, ast.Return)]
                if all(cfg.path_avoiding(cfg.entry, cfg.node_of(r), lambda n: n.id == head) is None for r in rets):
                    good = True
    if good:
        r3.ok(f.fq + ":results", f"{f.loc} value_mapper[self_result] = cloned_result on every path")
    else:
        r3.fail(f.fq + ":results", Finding("C02.R3", f.fq, "results-registration", "results of the copy are not entered in value_mapper on every path", f.loc))
    # nested clone calls defer operands
    for q in ("Operation.clone", "Region.clone_into"):
        f = idx.func(CORE, q)
        cfg = CFG(f.node)
        nested = [c for c in calls_in(f.node) if call_attr(c) in ("clone", "clone_into", "clone_without_regions") and isinstance(c.func, ast.Attribute)]
        remap = [w for w in walk_local(f.node) if isinstance(w, ast.For) and any(isinstance(s, ast.Assign) and isinstance(s.targets[0], ast.Attribute) and s.targets[0].attr == "operands" for s in w.body)]
        for c in nested:
            kwv = {k.arg: k.value for k in c.keywords}.get("clone_operands")
            inst = f"{f.fq}:{unparse(c.func)}"
            if kwv is None or not (isinstance(kwv, ast.Constant) and kwv.value is False):
                r3.fail(inst, Finding("C02.R3", f.fq, f"eager-remap:{call_attr(c)}", f"`{unparse(c.func)}(...)` is called with clone_operands={unparse(kwv) if kwv is not None else '<default True>'}: operands would be remapped before the definitions cloned later (own results, nested regions, later blocks) are in value_mapper", f"{f.module.relpath}:{c.lineno}"))
            elif remap and cfg.node_of(c) in cfg.reachable(cfg.node_of(remap[0])):
                r3.fail(inst, Finding("C02.R3", f.fq, f"remap-before-clone:{call_attr(c)}", "the operand remap loop can run before a nested clone call", f"{f.module.relpath}:{c.lineno}"))
            else:
                r3.ok(inst, f"{f.module.relpath}:{c.lineno} nested {call_attr(c)} defers operands")
        # mappers are threaded through
        for c in nested:
            args = [unparse(a) for a in c.args] + [unparse(k.value) for k in c.keywords]
            if not ("value_mapper" in args and "block_mapper" in args):
                r3.fail(f"{f.fq}:{unparse(c.func)}:mappers", Finding("C02.R3", f.fq, f"mappers-not-threaded:{call_attr(c)}", f"`{unparse(c.func)}(...)` does not receive both value_mapper and block_mapper", f"{f.module.relpath}:{c.lineno}"))

    # ---- R4: mutable containers are copied
    r4 = rep.rule("C02.R4", "attributes / properties dictionaries reach the copy through .copy() / dict(...)", floor=2)
    f = idx.func(CORE, "Operation.clone_without_regions")
    cfg = CFG(f.node)
    c = [c for c in calls_in(f.node) if call_attr(c) == "create"][0]
    kw = {k.arg: k.value for k in c.keywords}
    for fld in ("attributes", "properties"):
        t = _def_texts(cfg, kw.get(fld), cfg.node_of(c))
        if t and all(x in (f"self.{fld}.copy()", f"dict(self.{fld})", f"{{**self.{fld}}}") for x in t):
            r4.ok(f"{f.fq}:{fld}", f"{f.loc} {fld} = {sorted(t)[0]}")
        else:
            r4.fail(f"{f.fq}:{fld}", Finding("C02.R4", f.fq, f"shared-{fld}", f"the copy receives `{sorted(t)}` for {fld}: the dictionary is shared with (or differs from) the source", f.loc))

    # ---- R5: apply_to_clone
    r5 = rep.rule("C02.R5", "ModulePass.apply_to_clone applies the pass to clones of both the context and the module and returns them", floor=1)
    f = idx.func(PASSES, "ModulePass.apply_to_clone")
    cfg = CFG(f.node)
    applies = [c for c in calls_in(f.node) if call_attr(c) == "apply" and attr_chain(c.func) == "self.apply"]
    if len(applies) != 1:
        raise AnalysisError(f"{f.fq}: expected one self.apply call")
    p = [a.arg for a in f.node.args.args]
    at = cfg.node_of(applies[0])
    def _flat(exprs, where):
        out = []
        for a in exprs:
            star = isinstance(a, ast.Starred)
            t = resolved_text(cfg, a.value if star else a, where)
            if star:
                e = ast.parse(t, mode="eval").body
                if not isinstance(e, (ast.Tuple, ast.List)):
                    raise AnalysisError(f"{f.fq}: `*{unparse(a.value)}` does not resolve to a literal tuple")
                out.extend(ast.unparse(x) for x in e.elts)
            else:
                out.append(t)
        return out

    got = _flat(applies[0].args, at)
    want = [f"{p[1]}.clone()", f"{p[2]}.clone()"]
    rets = [n for n in walk_local(f.node) if isinstance(n, ast.Return)]
    if not rets or any(rt.value is None for rt in rets):
        raise AnalysisError(f"{f.fq}: expected returns of a pair")
    rgot = None
    for rt in rets:
        rv = ast.parse(resolved_text(cfg, rt.value, cfg.node_of(rt)), mode="eval").body
        if not isinstance(rv, ast.Tuple):
            raise AnalysisError(f"{f.fq}: the returned value `{ast.unparse(rv)}` does not resolve to a pair")
        one = [ast.unparse(e) for e in rv.elts]
        # a return that hands back the caller's own objects (the parameters) is the positive evidence looked for
        if any(x in (p[1], p[2]) for x in one):
            r5.fail(f.fq + f":return@{rt.lineno - f.node.lineno}", Finding("C02.R5", f.fq, "returns-original", f"`{unparse(rt)[:60]}` hands back the caller's own ({', '.join(one)}) instead of the copies: callers treat the result of apply_to_clone as an independent module and edit it in place, which now edits the original on the inputs that take this path", f"{PASSES}:{rt.lineno}"))
            continue
        if rgot is not None and one != rgot:
            raise AnalysisError(f"{f.fq}: returns different pairs on different paths ({rgot} / {one})")
        rgot = one
    if rgot is None:
        rgot = []
    # clone called once each (same object applied and returned)
    n_clones = len([c for c in calls_in(f.node) if call_attr(c) == "clone"])
    if got == want and rgot == want and n_clones == 2:
        r5.ok(f.fq, f"{f.loc} self.apply({', '.join(got)})")
    else:
        r5.fail(f.fq, Finding("C02.R5", f.fq, "apply-original", f"apply_to_clone calls self.apply({', '.join(got)}) and returns ({', '.join(rgot)}); both must be the clones {want}", f.loc))

    # ---- R6: optional index parameters are normalised on None-ness, not truthiness (partition {None, 0, other})
    r6 = rep.rule("C02.R6", "an `int | None` position parameter of a clone function is defaulted only when it is None (index 0 is a position, not 'absent')", floor=1)
    for q in funcs:
        f = idx.func(CORE, q)
        for a in f.node.args.args + f.node.args.kwonlyargs:
            ann = unparse(a.annotation) if a.annotation is not None else ""
            if ann.replace(" ", "") not in ("int|None", "None|int", "Optional[int]"):
                continue
            inst = f"{f.fq}:{a.arg}"
            bad = None
            for n in walk_local(f.node):
                if isinstance(n, ast.BoolOp) and isinstance(n.op, ast.Or) and isinstance(n.values[0], ast.Name) and n.values[0].id == a.arg:
                    bad = n
                if isinstance(n, ast.If):
                    t = n.test
                    if (isinstance(t, ast.UnaryOp) and isinstance(t.op, ast.Not) and isinstance(t.operand, ast.Name) and t.operand.id == a.arg) or (isinstance(t, ast.Name) and t.id == a.arg):
                        bad = n.test
                if isinstance(n, ast.IfExp) and isinstance(n.test, ast.Name) and n.test.id == a.arg:
                    bad = n
            if bad is not None:
                r6.fail(inst, Finding("C02.R6", f.fq, f"falsy-default:{a.arg}", f"`{unparse(bad)[:80]}` treats {a.arg}=0 like None: cloning to position 0 of a non-empty destination appends instead", f"{f.module.relpath}:{bad.lineno}"))
            else:
                r6.ok(inst, f"{f.loc} {a.arg} defaulted on `is None` only")

    r7 = rep.rule("C02.R7", "a clone function keeps no state between calls: a parameter whose default is a mutable literal ({} / [] / set() / dict()) is neither written nor handed on to another function", floor=None)
    for q in funcs:
        f = idx.func(CORE, q)
        for pn, d, n0, why in _mutable_default_uses(f.node):
            inst = f"{f.fq}:{pn}"
            if n0 is not None:
                r7.fail(inst, Finding("C02.R7", f.fq, f"mutable-default:{pn}", f"parameter `{pn}` defaults to the mutable literal `{unparse(d)}`, created once when the function is defined, and {why}: entries recorded by one clone are still there for the next call without a mapper, which then redirects operands / successors to the copies made by an unrelated earlier clone", f"{f.module.relpath}:{getattr(n0, 'lineno', f.raw_node.lineno)}"))
            else:
                r7.ok(inst, f"{f.loc} `{pn}` has a mutable default that is never written")
    # the expected count on today's tree is zero: a positive example must be recognised on every run
    pos_ = _mutable_default_uses(ast.parse("def f(self, m={}):\n    m[self] = 1\n").body[0])
    neg_ = _mutable_default_uses(ast.parse("def f(self, m=None):\n    m = {} if m is None else m\n    m[self] = 1\n").body[0])
    if [x[2] is not None for x in pos_] == [True] and not neg_:
        r7.ok("self-check", "`def f(self, m={}): m[self] = 1` is reported, the `m=None` idiom is not")
    else:
        raise AnalysisError("C02.R7: the mutable-default detector fails its positive / negative example")

    return (
        "Derivation analysis (reaching definitions through constructors, zip/enumerate components and fresh local lists) "
        "over the four clone functions of xdsl/ir/core.py and ModulePass.apply_to_clone: every attribute store and IR "
        "mutator call targets an object created by the clone; operands/successors come through the mappers; all "
        "definitions are registered before operands are remapped; attribute dictionaries are copied. Equivalence of the "
        "copy as a whole is not decided."
    )


def _def_texts(cfg: CFG, e: ast.AST | None, at: int) -> set[str]:
    if e is None:
        return set()
    if isinstance(e, ast.Name):
        out = set()
        for nid, val in reaching_defs(cfg, e.id, at):
            out.add(unparse(val) if val is not None else f"<{e.id}>")
        return out
    return {unparse(e)}


def _origin(fr: Fresh, cfg: CFG, e: ast.AST, at: int) -> str:
    if isinstance(e, ast.Name):
        defs = reaching_defs(cfg, e.id, at)
        parts = []
        for nid, val in defs:
            n = cfg.nodes[nid]
            if val is not None:
                parts.append(unparse(val))
            elif n.kind == "for":
                comp = fr._for_component(n.ast, e.id)  # type: ignore[arg-type]
                parts.append(unparse(comp) if comp is not None else unparse(n.ast.iter))  # type: ignore[union-attr]
            elif nid == cfg.entry:
                parts.append(f"parameter {e.id}")
        return ", ".join(parts) or e.id
    return unparse(e)
