"""C04 — generic textual form round-trips: name-hint languages vs lexer languages, injectivity of the
printer's naming scheme, identifier-or-string decision, section order, ordered iteration, scoping."""

from __future__ import annotations

import ast
import re

from .. import regexlang as rx
from ..astutil import norm_facts, text_facts, call_attr, calls_in, guard_facts, unparse, walk_local
from ..dataflow import resolved_text
from ..cfg import CFG
from ..report import Finding, Report
from ..rx_extract import class_regex, module_regex
from ..srcindex import AnalysisError, Index

CORE = "xdsl/ir/core.py"
LEXER = "xdsl/utils/mlir_lexer.py"
PRINTER = "xdsl/printer.py"
PARSER = "xdsl/parser/core.py"


def _eps() -> rx.NFA:
    n = rx.NFA()
    n.final = {n.start}
    return n


def rx_balanced(t: str) -> bool:
    """parentheses of a regex fragment are balanced and never close below depth 0 (escapes skipped)"""
    d, i = 0, 0
    while i < len(t):
        if t[i] == "\\":
            i += 2
            continue
        if t[i] == "(":
            d += 1
        elif t[i] == ")":
            d -= 1
            if d < 0:
                return False
        i += 1
    return d == 0


def check_names(idx: Index, rep: Report) -> None:
    name_pat, name_fl = module_regex(idx, CORE, "_VALUE_NAME_PATTERN")
    suf_pat, suf_fl = module_regex(idx, CORE, "_VALUE_NAME_SUFFIX_PATTERN")
    sid_pat, sid_fl = class_regex(idx, LEXER, "MLIRLexer", "_suffix_id")
    L = rx.from_regex(name_pat, name_fl)
    SID = rx.from_regex(sid_pat, sid_fl)

    r = rep.rule("C04.R1", "every name hint the IR API accepts is a suffix-id the lexer accepts: L(_VALUE_NAME_PATTERN) ⊆ L(MLIRLexer._suffix_id)", floor=1)
    # the validity predicate and the setter must use that pattern with fullmatch
    ev = idx.func(CORE, "IRWithName.extract_valid_name")
    methods = {c.func.attr for q_ in ("IRWithName.extract_valid_name", "IRWithName.is_valid_name") for c in calls_in(idx.func(CORE, q_).node) if isinstance(c.func, ast.Attribute) and unparse(c.func.value) == "_VALUE_NAME_PATTERN"}
    if not methods or not methods <= {"fullmatch", "match"}:
        raise AnalysisError(f"{ev.fq}: validity is decided by _VALUE_NAME_PATTERN.{sorted(methods)}; only fullmatch / match are modelled")
    # the set of whole strings the predicate accepts (for `match`: Python's `$` also matches before a trailing line feed,
    # and without a trailing anchor every extension of a matching prefix is accepted)
    try:
        L = rx.union(*[rx.match_language(name_pat, name_fl, m_) for m_ in sorted(methods)]) if len(methods) > 1 else rx.match_language(name_pat, name_fl, next(iter(methods)))
    except NotImplementedError as e:
        raise AnalysisError(f"{ev.fq}: {e}")
    setter = idx.func(CORE, "IRWithName.name_hint.setter")
    if not any(call_attr(c) == "extract_valid_name" for c in calls_in(setter.node)):
        r.fail(setter.fq, Finding("C04.R1", setter.fq, "setter-unvalidated", "the name_hint setter no longer passes the name through extract_valid_name: arbitrary text can become an SSA name", setter.loc))
    w = rx.included(L, SID)
    inst = f"{name_pat!r} ⊆ {sid_pat!r}"
    if w is None:
        r.ok(inst, f"L({name_pat!r}, flags={name_fl}) ⊆ L({sid_pat!r})")
    else:
        r.fail(inst, Finding("C04.R1", "xdsl.ir.core._VALUE_NAME_PATTERN", "hint-not-lexable", f"the hint `{rx.show(w)}` is accepted by {name_pat!r} (flags={name_fl}: \\w is Unicode-wide) but is not a suffix-id of the lexer {sid_pat!r}: the printed `%{rx.show(w)}` cannot be parsed back", "xdsl/ir/core.py"))

    # ---- R2: injectivity of the naming scheme
    r = rep.rule("C04.R2", "names printed for distinct values / blocks cannot collide: stored hints never look like '<hint>_<n>', a number, or an automatic block name", floor=3)
    # model of extract_valid_name
    evcfg = CFG(ev.node)
    strip_stmts = [n for n in walk_local(ev.node) if isinstance(n, (ast.If, ast.While)) and "_VALUE_NAME_SUFFIX_PATTERN.search" in unparse(n.test)]
    strip_rets = [n for n in walk_local(ev.node) if isinstance(n, ast.Return) and n.value is not None and re.search(r"\[:.*_VALUE_NAME_SUFFIX_PATTERN\.search\(.*\)\.start\(\)\]", resolved_text(evcfg, n.value, evcfg.node_of(n)))]
    # `prefix, sep, suffix = name.rpartition("_"); if sep and suffix.isdigit(): return prefix` strips ONE `_<digits>` group
    rpart = None
    for n_ in walk_local(ev.node):
        if isinstance(n_, ast.Assign) and isinstance(n_.value, ast.Call) and call_attr(n_.value) in ("rpartition", "rsplit") and n_.value.args and isinstance(n_.value.args[0], ast.Constant) and n_.value.args[0].value == "_" and isinstance(n_.targets[0], ast.Tuple):
            names_ = [unparse(e_) for e_ in n_.targets[0].elts]
            sfx = names_[-1]
            pre = names_[0]
            if any(isinstance(r_, ast.Return) and unparse(r_.value) == pre and any(p_ and unparse(t_) in (f"{sfx}.isdigit()", f"{sfx}.isdecimal()", f"{sfx}.isnumeric()") for t_, p_ in guard_facts(ev.node, r_)) for r_ in walk_local(ev.node) if isinstance(r_, ast.Return) and r_.value is not None):
                rpart = n_
    if not strip_stmts and not strip_rets and rpart is None:
        raise AnalysisError(f"{ev.fq}: suffix stripping via _VALUE_NAME_SUFFIX_PATTERN.search not found")
    if rpart is not None and not strip_stmts and not strip_rets:
        in_loop = any(isinstance(w_, ast.While) and any(x is rpart for x in ast.walk(w_)) for w_ in walk_local(ev.node))
        suf_pat, suf_fl = (r"((?:_\d+)+)$" if in_loop else r"(_\d+)$"), re.ASCII
    fixpoint = any(isinstance(n, ast.While) and "_VALUE_NAME_SUFFIX_PATTERN.search" in resolved_text(evcfg, n.test, evcfg.node_of(n.test)) for n in walk_local(ev.node))
    sp = suf_pat
    if not sp.endswith("$"):
        raise AnalysisError(f"suffix pattern {sp!r} is not anchored at the end")
    core_sp = sp[:-1]
    # strip one outer capturing group, then recognise `(X)+` / `(?:X)+`: all trailing X's are removed at once
    m = re.fullmatch(r"\(((?:\?:)?.*)\)", core_sp)
    if m and rx_balanced(m.group(1)):
        core_sp = m.group(1)
    m = re.fullmatch(r"\((?:\?:)?(.*)\)\+", core_sp)
    if m and rx_balanced(m.group(1)):
        fixpoint = True
        core_sp = m.group(1)
    S = rx.from_regex(core_sp, suf_fl)
    if rx.intersect_witness(S, _eps()) is not None:
        raise AnalysisError("suffix language contains the empty word")
    H = rx.strip_suffix_image(L, S, fixpoint=fixpoint)
    Hne = rx._minus_suffix(H, _eps())
    # printer scheme: the shapes of the names stored for values / blocks, derived from the code (xsa.strlang)
    from ..strlang import StrLang, show as show_alt

    def scheme(q: str, table: str, int_names: set[str]):
        fi = idx.func(PRINTER, q)
        methods = {nm: d[0].as_raw().node for nm, d in fi.cls.methods.items()} if fi.cls is not None else {}
        sl = StrLang(fi.node, CFG(fi.node), methods, int_names)
        alts = []
        for st in walk_local(fi.node):
            if isinstance(st, ast.Assign) and isinstance(st.targets[0], ast.Subscript) and unparse(st.targets[0].value) == table:
                for a_ in sl.alts(st.value, sl.cfg.node_of(st)):
                    if a_ not in alts:
                        alts.append(a_)
        if not alts:
            raise AnalysisError(f"{fi.fq}: no store of a generated name into {table} found")
        return fi, alts

    def lang_of(alt, fi):
        n = None
        kinds = []
        for atom in alt:
            if atom[0] == "lit":
                piece = rx.from_regex(re.escape(atom[1]))
                kinds.append("lit")
            elif atom[0] == "str" and atom[1].endswith(".name_hint"):
                piece = Hne
                kinds.append("hint")
            elif atom[0] == "int":
                piece = rx.from_regex(r"[1-9][0-9]*" if atom[2] else r"[0-9]+")
                kinds.append("int")
            else:
                raise AnalysisError(f"{fi.fq}: generated name `{show_alt(alt)}` contains a piece whose language is unknown")
            n = piece if n is None else rx.concat(n, piece)
        if n is None:
            raise AnalysisError(f"{fi.fq}: an empty name can be generated")
        return n, tuple(kinds)

    pv, valts = scheme("Printer.print_ssa_value", "self._ssa_values", set())
    vl = [(a_, *lang_of(a_, pv)) for a_ in valts]
    if not any(k and k[0] == "hint" for _, _, k in vl) or not any(k == ("int",) for _, _, k in vl):
        raise AnalysisError(f"{pv.fq}: naming scheme `<hint>` / `<hint>_<n>` / `<number>` not recognised (found {[show_alt(a_) for a_ in valts]})")
    for i_, (a1, l1, k1) in enumerate(vl):
        for a2, l2, k2 in vl[i_ + 1:]:
            w = rx.intersect_witness(l1, l2)
            numeric = ("int",) in (k1, k2)
            inst = "values: hint vs number" if numeric else "values: hint vs hint_<n>"
            if w is None:
                r.ok(inst, f"names `{show_alt(a1)}` and `{show_alt(a2)}` are disjoint ({'fixpoint' if fixpoint else 'single'} suffix stripping of stored hints)")
            elif numeric:
                r.fail(inst, Finding("C04.R2", ev.fq, "numeric-collision", f"the name `{rx.show(w)}` can be generated both as `{show_alt(a1)}` and as `{show_alt(a2)}`: a stored hint collides with an automatically numbered value", ev.loc))
            else:
                ws = rx.show(w)
                base = ws[: ws.rfind("_")] if "_" in ws else ws
                r.fail(inst, Finding("C04.R2", ev.fq, "suffix-collision", f"the name `{ws}` can be generated both as `{show_alt(a1)}` and as `{show_alt(a2)}`: a hint stored as `{ws}` (only one `_<n>` suffix is removed, or the repeat counter can print 0) equals the name the printer generates for a repeat of hint `{base}`: two values print the same name", ev.loc))
    pb, balts = scheme("Printer._populate_block_name", "self._blocks", {"block_index"})
    bl = [(a_, *lang_of(a_, pb)) for a_ in balts]
    if not any(k == ("lit", "int") for _, _, k in bl):
        raise AnalysisError(f"{pb.fq}: automatic block names `bb<n>` not recognised (found {[show_alt(a_) for a_ in balts]})")
    consults = False
    for n in walk_local(pb.node):
        # does the automatic branch consult / register the taken names?
        if isinstance(n, ast.Assign) and "f'bb{" in unparse(n.value):
            from ..astutil import parent_map

            pm = parent_map(pb.node)
            par = pm[id(n)]
            body_txt = " ".join(unparse(s_) for s_ in getattr(par, "body", []) + getattr(par, "orelse", []))
            if "self.block_names" in body_txt and ("while" in unparse(par) or "in self.block_names" in unparse(par)):
                consults = True
    reported = set()
    for i_, (a1, l1, k1) in enumerate(bl):
        for a2, l2, k2 in bl[i_ + 1:]:
            if ("hint" in k1) == ("hint" in k2) and ("lit", "int") in (k1, k2):
                continue
            if "hint" not in k1 + k2 or (k1 == ("lit", "int") and k2 == ("lit", "int")):
                continue
            auto = ("lit", "int") in (k1, k2)
            w = rx.intersect_witness(l1, l2)
            inst = "blocks: hint vs bb<n>" if auto else "blocks: hint vs hint_<n>"
            if w is None or (auto and consults):
                r.ok(inst, f"block names `{show_alt(a1)}` and `{show_alt(a2)}` cannot collide (or the printer checks)")
            elif auto and inst in reported:
                continue
            elif auto:
                reported.add(inst)
                r.fail(inst, Finding("C04.R2", pb.fq, "block-name-collision", f"a block with hint `{rx.show(w)}` prints as `^{rx.show(w)}`, the same label the printer gives to an unnamed block with that index, and the automatic branch does not consult block_names", pb.loc))
            else:
                r.fail(inst, Finding("C04.R2", pb.fq, "suffix-collision", f"the block label `{rx.show(w)}` can be generated both as `{show_alt(a1)}` and as `{show_alt(a2)}`", pb.loc))


def check_ident_or_string(idx: Index, rep: Report) -> None:
    r = rep.rule("C04.R3", "the printer decides 'bare identifier or string literal' with the lexer's own bare-identifier regex, and that regex is what the lexer lexes as one BARE_IDENT", floor=2)
    f = idx.func(PRINTER, "Printer.print_identifier_or_string_literal")
    s = f.node.args.args[1].arg
    tests = [c for c in calls_in(f.node) if call_attr(c) in ("fullmatch", "match", "search") and isinstance(c.func, ast.Attribute) and c.args and unparse(c.args[0]) == s]
    if len(tests) != 1:
        raise AnalysisError(f"{f.fq}: expected one regex test of `{s}`, found {[unparse(t) for t in tests]}")
    tcall = tests[0]
    from ..rx_extract import regex_of_expr

    try:
        p_pat, p_fl = regex_of_expr(idx, f.module, tcall.func.value, f.cls)
        printed = rx.match_language(p_pat, p_fl, call_attr(tcall))
    except NotImplementedError as e:
        raise AnalysisError(f"{f.fq}: `{unparse(tcall)}`: {e}")
    bi_pat, bi_fl = class_regex(idx, LEXER, "MLIRLexer", "bare_identifier_regex")
    sx_pat, sx_fl = class_regex(idx, LEXER, "MLIRLexer", "bare_identifier_suffix_regex")
    # the lexer: first char isalpha() or '_', then the suffix regex
    lex = idx.func(LEXER, "MLIRLexer.lex")
    first = None
    for n in walk_local(lex.node):
        if isinstance(n, ast.If) and any(call_attr(c) == "_lex_bare_identifier" for c in calls_in(n)) and n.body and isinstance(n.body[0], ast.Return):
            first = unparse(n.test)
    if first is None:
        raise AnalysisError(f"{lex.fq}: bare identifier dispatch not found")
    letters = frozenset(ord(c) for c in "abcdefghijklmnopqrstuvwxyzABCDEFGHIJKLMNOPQRSTUVWXYZ")
    if "isalpha()" in first and "isascii()" not in first:
        fc = letters | {ord("_"), rx.NA_WORD}
    else:
        fc = letters | {ord("_")}
    if "'_'" not in first:
        fc = fc - {ord("_")}
    lexed = rx.concat(rx.from_classes([frozenset(fc)]), rx.from_regex(sx_pat, sx_fl))
    wp = rx.included(printed, lexed)
    if wp is None:
        r.ok(f.fq, f"{f.loc} strings accepted by `{unparse(tcall)}` ({p_pat!r}) are all lexed as one BARE_IDENT")
    else:
        r.fail(f.fq, Finding("C04.R3", f.fq, "own-identifier-test", f"`{unparse(tcall)}` succeeds on {rx.show(wp)!r} (pattern {p_pat!r} with .{call_attr(tcall)}), so that string is printed unquoted, but the lexer does not read it back as one bare identifier", f.loc))
    w = rx.included(rx.from_regex(bi_pat, bi_fl), lexed)
    if w is None:
        r.ok("bare_identifier_regex ⊆ lexed BARE_IDENT", f"L({bi_pat!r}) ⊆ [{first}]·L({sx_pat!r})")
    else:
        r.fail("bare_identifier_regex ⊆ lexed BARE_IDENT", Finding("C04.R3", "xdsl.utils.mlir_lexer.MLIRLexer.bare_identifier_regex", "ident-not-one-token", f"`{rx.show(w)}` matches bare_identifier_regex (so it is printed unquoted) but the lexer does not lex it as a single BARE_IDENT", lex.loc))


SECTIONS_PRINT = [("print_operands", "operands"), ("print_successors", "successors"), ("_print_op_properties", "properties"), ("print_regions", "regions"), ("print_op_attributes", "attributes"), ("print_operation_type", "type")]
SECTIONS_PARSE = [("parse_op_args_list", "operands"), ("parse_optional_successors", "successors"), ("parse_optional_properties_dict", "properties"), ("parse_region_list", "regions"), ("parse_optional_attr_dict", "attributes"), ("parse_function_type", "type"), ("parse_optional_location", "location")]


def _section_order(fn: ast.AST, table) -> list[str]:
    names = dict(table)
    seq = []
    calls = sorted((c for c in calls_in(fn) if call_attr(c) in names), key=lambda c: (c.lineno, c.col_offset))
    for c in calls:
        s = names[call_attr(c)]
        if s not in seq:
            seq.append(s)
    return seq


def check_sections(idx: Index, rep: Report) -> None:
    r = rep.rule("C04.R4", "the generic printer emits and the generic parser consumes the same sections in the same order", floor=1)
    pf = idx.func(PRINTER, "Printer.print_op_with_default_format")
    qf = idx.func(PARSER, "Parser._parse_generic_operation")
    po, qo = _section_order(pf.node, SECTIONS_PRINT), _section_order(qf.node, SECTIONS_PARSE)
    qo_cmp = [s for s in qo if s != "location"]
    colon_p = any(isinstance(n, ast.Constant) and n.value == " : " for n in ast.walk(pf.node))
    colon_q = any(call_attr(c) == "parse_punctuation" and c.args and isinstance(c.args[0], ast.Constant) and c.args[0].value == ":" for c in calls_in(qf.node))
    if po == qo_cmp and len(po) == 6 and colon_p and colon_q:
        r.ok("generic op sections", f"{pf.loc} / {qf.loc}: {' -> '.join(po)}")
    else:
        r.fail("generic op sections", Finding("C04.R4", pf.fq, "section-order", f"printer emits {po} but the parser consumes {qo_cmp}", pf.loc))
    # the properties section is printed iff not print_properties_as_attributes, and then attributes include them
    t = unparse(pf.node)
    stmts = [unparse(s_) for s_ in pf.node.body]
    if "op.attributes | op.properties" in t and "if not self.print_properties_as_attributes:\n    self._print_op_properties(op.properties)" in stmts:
        r.ok("properties-as-attributes", f"{pf.loc} properties printed once (own section or merged into attributes)")
    else:
        r.fail("properties-as-attributes", Finding("C04.R4", pf.fq, "properties-dropped", "properties must be printed either in their own section or merged into the attribute dictionary", pf.loc))


POSITIVE_SET_ITER = '''
class P:
    def print_thing(self, xs):
        for x in set(xs):
            self.print_string(x)
        for k in a.keys() & b.keys():
            self.print_attribute(k)
'''


def _set_iterations(tree: ast.AST) -> list[ast.AST]:
    def is_set(e: ast.AST) -> bool:
        if isinstance(e, (ast.Set, ast.SetComp)):
            return True
        if isinstance(e, ast.Call) and call_attr(e) in ("set", "frozenset") and isinstance(e.func, ast.Name):
            return True
        if isinstance(e, ast.BinOp) and isinstance(e.op, (ast.BitAnd, ast.BitOr, ast.Sub, ast.BitXor)):
            return any(isinstance(x, ast.Call) and call_attr(x) == "keys" for x in (e.left, e.right)) or is_set(e.left) or is_set(e.right)
        return False

    out = []
    for n in ast.walk(tree):
        if isinstance(n, ast.For) and is_set(n.iter):
            if any(call_attr(c) and call_attr(c).startswith("print") for c in calls_in(n, local=False)):  # type: ignore[union-attr]
                out.append(n)
        if isinstance(n, (ast.GeneratorExp, ast.ListComp)) and any(is_set(g.iter) for g in n.generators):
            if any(call_attr(c) and call_attr(c).startswith("print") for c in calls_in(n, local=False)):  # type: ignore[union-attr]
                out.append(n)
    return out


def check_order_and_scope(idx: Index, rep: Report) -> None:
    r = rep.rule("C04.R5", "printing never iterates an unordered collection (set / keys-intersection) while emitting text", floor=2)
    if len(_set_iterations(ast.parse(POSITIVE_SET_ITER))) != 2:
        raise AnalysisError("self-check of the unordered-iteration detector failed")
    r.ok("positive-example", "detector matches the built-in positive example (2 sites)")
    mi = idx.module(PRINTER)
    hits = _set_iterations(mi.tree)
    if hits:
        for h in hits:
            r.fail(f"{PRINTER}:{h.lineno}", Finding("C04.R5", "xdsl.printer", f"set-iteration:{unparse(h)[:60]}", f"`{unparse(h)[:80]}` emits text while iterating a set: printing the same IR twice may give different text", f"{PRINTER}:{h.lineno}"))
    else:
        r.ok(PRINTER, f"{mi.relpath}: no print-emitting iteration over a set")

    r = rep.rule("C04.R6", "results of an isolated-from-above op are named in the enclosing scope; every enter_scope is matched by exit_scope on every path", floor=2)
    f = idx.func(PRINTER, "Printer.print_op")
    cfg = CFG(f.node)
    res = [c for c in calls_in(f.node) if unparse(c.func) == "self._print_results"]
    ent = [c for c in calls_in(f.node) if unparse(c.func) == "self.enter_scope"]
    ext = [c for c in calls_in(f.node) if unparse(c.func) == "self.exit_scope"]
    if len(res) != 1 or len(ent) != 1 or len(ext) != 1:
        raise AnalysisError(f"{f.fq}: expected one _print_results, enter_scope and exit_scope")
    nr, ne, nx = cfg.node_of(res[0]), cfg.node_of(ent[0]), cfg.node_of(ext[0])
    if cfg.path_avoiding(cfg.entry, ne, lambda n: n.id == nr) is None:
        r.ok(f.fq + ":results-outside", f"{f.loc} results are printed (named) before the inner scope is entered")
    else:
        r.fail(f.fq + ":results-outside", Finding("C04.R6", f.fq, "results-in-inner-scope", "the results of an IsolatedFromAbove operation are named after enter_scope(): exit_scope() forgets their names and counters, so the next value of the enclosing block gets the same name", f.loc))
    # pairing under the same condition
    from ..astutil import guard_facts

    ge = sorted((unparse(t), p) for t, p in guard_facts(f.node, ent[0]))
    gx = sorted((unparse(t), p) for t, p in guard_facts(f.node, ext[0]))
    # same guard variable, not reassigned in between, and no early exit between the two
    xtests = {cfg.node_of(n.test) for n in walk_local(f.node) if isinstance(n, ast.If) and any(x is ext[0] for x in ast.walk(n))}
    reassigned = any(isinstance(n, ast.Assign) and any(unparse(t_) == "scope" for t_ in n.targets) and cfg.node_of(n) in cfg.reachable(ne) for n in walk_local(f.node))
    from ..astutil import conjuncts as _cj

    held = set(ge)  # what is known when enter_scope runs; it still holds afterwards (the guard variable is not re-assigned)

    def _consistent(a_: int, b_: int, lab) -> bool:
        e_ = cfg.nodes[a_].ast
        if e_ is None or lab not in ("T", "F") or not isinstance(e_, ast.expr):
            return True
        return not any((unparse(atom), not truth) in held for atom, truth in _cj(e_, lab == "T"))

    if ge == gx and ge and not reassigned and cfg.path_avoiding(ne, cfg.exit, lambda n: n.id == nx, follow_exc=False, edge_ok=_consistent) is None:
        r.ok(f.fq + ":paired", f"{f.loc} enter_scope/exit_scope under the same condition {ge}")
    else:
        r.fail(f.fq + ":paired", Finding("C04.R6", f.fq, "scope-unbalanced", f"enter_scope (under {ge}) is not matched by exit_scope (under {gx}) on every path", f.loc))
    # the scope snapshot copies all four naming tables
    e_ = idx.func(PRINTER, "Printer.enter_scope")
    x_ = idx.func(PRINTER, "Printer.exit_scope")
    pushed = sorted(unparse(c.func.value) for c in calls_in(e_.node) if call_attr(c) == "append")  # type: ignore[attr-defined]
    popped = sorted(unparse(c.func.value) for c in calls_in(x_.node) if call_attr(c) == "pop")  # type: ignore[attr-defined]
    if pushed == popped and len(pushed) >= 4:
        r.ok(e_.fq, f"{e_.loc} push/pop the same {len(pushed)} naming tables")
    else:
        r.fail(e_.fq, Finding("C04.R6", e_.fq, "scope-tables", f"enter_scope pushes {pushed} but exit_scope pops {popped}", e_.loc))
    # the parser keeps every enclosing name visible inside an isolated region, so the inner scope must continue from
    # the enclosing scope's state (counter value, name tables) rather than restart
    for c in calls_in(e_.node):
        if call_attr(c) != "append" or len(c.args) != 1:
            continue
        tbl = unparse(c.func.value)  # type: ignore[attr-defined]
        a = c.args[0]
        base = a.func.value if isinstance(a, ast.Call) and call_attr(a) == "copy" and isinstance(a.func, ast.Attribute) else (a.args[0] if isinstance(a, ast.Call) and unparse(a.func) in ("dict", "set", "list") and len(a.args) == 1 else a)
        inst = f"{e_.fq}:{tbl}"
        if unparse(base) == f"{tbl}[-1]":
            r.ok(inst, None)
        else:
            r.fail(inst, Finding("C04.R6", e_.fq, f"scope-restarts:{tbl}", f"enter_scope pushes `{unparse(a)}` on {tbl} instead of the enclosing scope's state `{tbl}[-1]`: names / numbers already used outside are handed out again inside the isolated region, where the parser still sees the outer definitions (`SSA value %0 is already defined`)", f"{e_.module.relpath}:{c.lineno}"))


def check_forward_refs(idx: Index, rep: Report) -> None:
    """A value used before its textual definition is represented by ONE placeholder per (name, index) that
    the definition later replaces; a second placeholder for the same key orphans the first (its users keep a
    dangling operand).  Same for forward-referenced blocks."""
    r = rep.rule("C04.R7", "a fresh forward-reference placeholder is stored only when none is registered for the same (name, index): the store is dominated by the absence test, or done with setdefault", floor=2)
    f = idx.func(PARSER, "Parser.resolve_operand")
    fn = f.node
    stores = []
    for st in walk_local(fn):
        if isinstance(st, ast.Assign) and isinstance(st.targets[0], ast.Subscript):
            cfg = CFG(fn)
            val = resolved_text(cfg, st.value, cfg.node_of(st))
            if "ForwardDeclaredValue(" in val:
                stores.append(st)
    sd = [c for c in calls_in(fn) if call_attr(c) == "setdefault" and len(c.args) == 2 and "ForwardDeclaredValue(" in unparse(c.args[1])]
    if not stores and not sd:
        raise AnalysisError(f"{f.fq}: no store of a ForwardDeclaredValue placeholder found")
    for st in stores:
        key = unparse(st.targets[0].slice)  # type: ignore[attr-defined]
        ok = False
        for t, pol in guard_facts(fn, st):
            if pol:
                continue
            atoms = t.values if isinstance(t, ast.BoolOp) and isinstance(t.op, ast.And) else [t]
            base_t = unparse(st.targets[0].value)  # type: ignore[attr-defined]
            base_r = resolved_text(cfg, st.targets[0].value, cfg.node_of(st))  # type: ignore[attr-defined]

            def is_table(x: ast.AST) -> bool:
                tx = unparse(x)
                return "forward_ssa_references" in tx or tx == base_t or "forward_ssa_references" in resolved_text(cfg, x, cfg.node_of(st))

            has_idx = any(isinstance(a, ast.Compare) and isinstance(a.ops[0], ast.In) and unparse(a.left) == key and is_table(a.comparators[0]) for a in atoms)
            others_ok = all((isinstance(a, ast.Compare) and isinstance(a.ops[0], ast.In) and is_table(a.comparators[0])) or unparse(a) in (f"{base_t} is not None", base_t) for a in atoms)
            if has_idx and others_ok:
                ok = True
        if ok:
            r.ok(f.fq, f"{f.module.relpath}:{st.lineno} placeholder stored only when `{key}` is not yet a forward reference")
        else:
            r.fail(f.fq, Finding("C04.R7", f.fq, "placeholder-overwrite", f"`{unparse(st)}` stores a fresh placeholder without first testing whether `{key}` is already a forward reference of this name: a value used twice before its definition gets two placeholders, only the last one is replaced at the definition, and the first use keeps a dangling operand", f"{f.module.relpath}:{st.lineno}"))
    for c in sd:
        r.ok(f.fq, f"{f.module.relpath}:{c.lineno} placeholder registered with setdefault")
    # forward SSA references resolve across regions (a use inside a nested region may precede the definition in an
    # enclosing one): the table is never replaced while regions are being parsed
    mi = idx.module(PARSER)
    from ..srcindex import raw_funcs

    n_reb = 0
    for g_ in raw_funcs(mi):
        for st in walk_local(g_.node):
            tg = st.targets if isinstance(st, ast.Assign) else [st.target] if isinstance(st, (ast.AnnAssign, ast.AugAssign)) else []
            for t in tg:
                if isinstance(t, ast.Attribute) and t.attr == "forward_ssa_references" and unparse(t.value) == "self":
                    n_reb += 1
                    scoped = g_.name != "__init__" and any(isinstance(x, ast.Assign) and any(isinstance(tt, ast.Attribute) and tt.attr in ("ssa_values", "blocks", "forward_block_references") for tt in x.targets) for x in walk_local(g_.node))
                    inst = f"{g_.fq}:forward_ssa_references"
                    if scoped:
                        r.fail(inst, Finding("C04.R7", g_.fq, "forward-refs-scoped", f"`{unparse(st)[:80]}` replaces the table of forward SSA references inside the function that opens / closes a region scope: a value used in a nested region before its definition in an enclosing region is registered in a table that is dropped, so the definition never replaces the placeholder", f"{g_.module.relpath}:{st.lineno}"))
                    else:
                        r.ok(inst, None)
    if n_reb == 0:
        raise AnalysisError("no assignment of Parser.forward_ssa_references found (expected in __init__)")
    # blocks: a forward-referenced block is created once per name
    g = idx.func(PARSER, "Parser._get_block_from_name")
    gfn = g.node
    bstores = [st for st in walk_local(gfn) if isinstance(st, ast.Assign) and isinstance(st.targets[0], ast.Subscript) and "blocks" in unparse(st.targets[0].value)]
    if not bstores:
        raise AnalysisError(f"{g.fq}: store into the block table not found")
    for st in bstores:
        key = unparse(st.targets[0].slice)  # type: ignore[attr-defined]
        tbl = unparse(st.targets[0].value)  # type: ignore[attr-defined]
        nf = norm_facts(text_facts(gfn, st))
        gcfg = CFG(gfn)
        keys = {key, resolved_text(gcfg, st.targets[0].slice, gcfg.node_of(st))}  # type: ignore[attr-defined]
        ok = any((f"{k} in {tbl}", False) in nf or (f"{tbl}.get({k}) is None", True) in nf or (f"{tbl}.get({k})", False) in nf for k in keys)
        if ok:
            r.ok(g.fq, f"{g.module.relpath}:{st.lineno} block created only when `{key}` is not in the table")
        else:
            r.fail(g.fq, Finding("C04.R7", g.fq, "block-overwrite", f"`{unparse(st)}` replaces the block registered for `{key}`: earlier successors keep pointing at an orphaned block", f"{g.module.relpath}:{st.lineno}"))


def _hint_leak(mi, fn, cfg, start: int, b: str, label: str, depth: int):
    """A path from `start` to the exit of fn on which `b.name_hint = label` is not stored although the label is a valid,
    non-default name -- or None.  The store may sit in a helper that is handed both the block and the label."""
    hint: set[int] = set()
    for st in walk_local(fn):
        if isinstance(st, ast.Assign) and isinstance(st.targets[0], ast.Attribute) and st.targets[0].attr == "name_hint" and unparse(st.targets[0].value) == b and unparse(st.value) == label:
            hint.add(cfg.node_of(st))
    if depth < 2:
        for c in calls_in(fn):
            args = [unparse(a) for a in c.args]
            if b in args and label in args:
                nm = call_attr(c) or unparse(c.func)
                cands = [g for g in mi.functions.values() if g.name == nm]
                for g in cands:
                    gn = g.raw_node
                    ps = [a.arg for a in gn.args.args if a.arg not in ("self", "cls")]
                    if len(ps) < len(c.args):
                        continue
                    m = dict(zip(ps, args))
                    gb = next((k for k, v in m.items() if v == b), None)
                    gl = next((k for k, v in m.items() if v == label), None)
                    if gb is None or gl is None:
                        continue
                    gcfg = CFG(gn)
                    if _hint_leak(mi, gn, gcfg, gcfg.entry, gb, gl, depth + 1) is None:
                        hint.add(cfg.node_of(c))
    valid, default = f"Block.is_valid_name({label})", f"Block.is_default_block_name({label})"
    skip: set[tuple[int, str]] = set()  # edges that are taken only for a label that must not become a hint
    for nd in cfg.nodes:
        if nd.kind != "test" or nd.ast is None:
            continue
        t = nd.ast
        atoms = t.values if isinstance(t, ast.BoolOp) and isinstance(t.op, ast.And) else [t]
        texts = [unparse(a) for a in atoms]
        if all(x in (valid, f"not {default}") for x in texts):
            skip.add((nd.id, "F"))
        if isinstance(t, ast.BoolOp) and isinstance(t.op, ast.Or) and all(unparse(a) in (f"not {valid}", default) for a in t.values):
            skip.add((nd.id, "T"))
        if len(atoms) == 1 and texts[0] in (f"not {valid}", default):
            skip.add((nd.id, "T"))
    return cfg.path_avoiding(start, cfg.exit, lambda x: x.id in hint, follow_exc=False, edge_ok=lambda a_, b_, lab: (a_, lab) not in skip)


def check_label_hints(idx: Index, rep: Report) -> None:
    """A block label other than the automatic `bb<n>` is part of the text: the printer writes the name hint.  Every
    block the parser creates for a label -- at its definition or as a forward reference -- must therefore receive the label
    as its hint (under the validity / not-default guard only), whichever mention comes first."""
    r = rep.rule("C04.R9", "every Block the parser creates for a label receives that label as its name hint, guarded only by the validity and not-the-default-pattern tests", floor=2)
    mi = idx.module(PARSER)
    n = 0
    for f in mi.functions.values():
        if f.cls is None or f.cls.name != "Parser":
            continue
        fn = f.node
        made = [st for st in walk_local(fn) if isinstance(st, ast.Assign) and len(st.targets) == 1 and isinstance(st.targets[0], ast.Name) and isinstance(st.value, ast.Call) and unparse(st.value.func) == "Block" and not st.value.args]
        if not made:
            continue
        cfg = CFG(fn)
        for mk in made:
            b = st_name = mk.targets[0].id  # type: ignore[attr-defined]
            regs = [st for st in walk_local(fn) if isinstance(st, ast.Assign) and isinstance(st.targets[0], ast.Subscript) and unparse(st.targets[0].value) == "self.blocks" and isinstance(st.value, ast.Tuple) and st.value.elts and unparse(st.value.elts[0]) == b]
            others = {cfg.node_of(st) for st in walk_local(fn) if st is not mk and isinstance(st, (ast.Assign, ast.AnnAssign)) and any(isinstance(t, ast.Name) and t.id == b for t in (st.targets if isinstance(st, ast.Assign) else [st.target]))}
            regs = [st for st in regs if cfg.path_avoiding(cfg.node_of(mk), cfg.node_of(st), lambda x: x.id in others, follow_exc=False) is not None]
            if not regs:
                continue  # not a block registered under a label
            if not (f.raw_node.lineno <= mk.lineno <= (f.raw_node.end_lineno or 0)):
                continue  # a helper's construction seen through inlining: judged in the helper itself
            n += 1
            label = unparse(regs[0].targets[0].slice)  # type: ignore[attr-defined]
            inst = f"{f.fq}:{b}"
            p = _hint_leak(mi, fn, cfg, cfg.node_of(mk), b, label, 0)
            if p is None:
                r.ok(inst, f"{f.loc} `{b}` registered for `{label}` gets the label as hint on every path")
            else:
                r.fail(inst, Finding("C04.R9", f.fq, "label-not-kept", f"`{unparse(mk)}` creates the block registered under the label `{label}`, and a path to the end of the function never stores `{b}.name_hint = {label}`: a custom label whose first mention takes this path is printed back as an automatic `^bb<n>` (" + " -> ".join(cfg.describe(p)[-3:]) + ")", f"{PARSER}:{mk.lineno}"))
    if n < 2:
        raise AnalysisError(f"{PARSER}: {n} label-registered Block() constructions found in Parser (definition and forward reference expected)")


def check_scope_restore(idx: Index, rep: Report) -> None:
    """The parser keeps the tables of the region being parsed in its own fields and swaps them when it enters a nested
    region: the enclosing tables are saved in locals and put back before the function returns.  A return that skips the
    restore leaves the enclosing region with the (empty) tables of the nested one: labels seen before are forgotten, a
    forward-referenced block is created twice, a later back edge is 'missing'."""
    r = rep.rule("C04.R10", "a parser function that saves one of the parser's tables in a local and puts it back restores it on every path to a normal return", floor=2)
    from ..srcindex import raw_funcs

    n = 0
    for f in raw_funcs(idx.module(PARSER)):
        fn = f.node
        saves: dict[str, tuple[str, ast.AST]] = {}
        for st in walk_local(fn):
            if isinstance(st, ast.Assign) and len(st.targets) == 1 and isinstance(st.targets[0], ast.Name):
                v = st.value
                if isinstance(v, ast.Call) and isinstance(v.func, ast.Attribute) and v.func.attr == "copy" and not v.args:
                    v = v.func.value
                if isinstance(v, ast.Attribute) and isinstance(v.value, ast.Name) and v.value.id == "self":
                    saves.setdefault(st.targets[0].id, (v.attr, st))
        if not saves:
            continue
        cfg = None
        for local, (fld, save_st) in saves.items():
            restores = [st for st in walk_local(fn) if isinstance(st, ast.Assign) and len(st.targets) == 1 and unparse(st.targets[0]) == f"self.{fld}" and isinstance(st.value, ast.Name) and st.value.id == local]
            if not restores:
                continue
            n += 1
            if cfg is None:
                cfg = CFG(fn)
            rn = {cfg.node_of(x) for x in restores}
            inst = f"{f.fq}:{fld}"
            leak = cfg.path_avoiding(cfg.node_of(save_st), cfg.exit, lambda x: x.id in rn, follow_exc=False)
            if leak is None:
                r.ok(inst, f"{f.loc} self.{fld} saved in `{local}` and restored on every path to a return")
            else:
                r.fail(inst, Finding("C04.R10", f.fq, f"scope-not-restored:{fld}", f"`{unparse(save_st)[:60]}` saves the enclosing table and `self.{fld} = {local}` puts it back, but a path returns without the restore (" + " -> ".join(cfg.describe(leak)[-3:]) + "): the caller goes on with the tables of the nested scope, so labels / values of the enclosing region seen before are forgotten and text that the printer produced is rejected or mis-wired", f"{PARSER}:{save_st.lineno}"))
    if n < 2:
        raise AnalysisError(f"{PARSER}: {n} save / restore pairs of parser tables found (ssa_values, blocks, forward_block_references expected in parse_optional_region)")


def check(idx: Index, rep: Report, tier: str) -> str:
    rep.run(check_names, idx, rep)
    rep.run(check_ident_or_string, idx, rep)
    rep.run(check_sections, idx, rep)
    rep.run(check_order_and_scope, idx, rep)
    rep.run(check_forward_refs, idx, rep)
    rep.run(check_label_hints, idx, rep)
    rep.run(check_scope_restore, idx, rep)
    return (
        "Regular-language analysis (inclusion / intersection-emptiness with shortest witness, right quotient) between "
        "the name-hint pattern of xdsl/ir/core.py, the image of extract_valid_name, the printer's naming scheme and the "
        "lexer's identifier regexes; sibling-table agreement between the generic printer's and parser's section order; "
        "unordered-iteration and scope-pairing rules on printer.py. Round-trip of arbitrary verified modules is not decided."
    )
