"""C29 — symbol lookup: sibling agreement of the nested-reference resolvers (table check and
private refusal per step), nearest-table walk, direct vs cached presence predicate, duplicate check."""

from __future__ import annotations

import ast
import re

from ..astutil import call_attr, calls_in, guard_facts, unparse, walk_local, text_facts
from ..cfg import CFG
from ..dataflow import reaching_defs, resolved_text
from ..report import Finding, Report
from ..srcindex import AnalysisError, Index

UT = "xdsl/utils/symbol_table.py"
TR = "xdsl/traits.py"


def _returns_none(body: list[ast.stmt]) -> bool:
    return bool(body) and isinstance(body[-1], ast.Return) and (body[-1].value is None or (isinstance(body[-1].value, ast.Constant) and body[-1].value.value is None))


def _is_none_return(rt: ast.Return) -> bool:
    return rt.value is None or (isinstance(rt.value, ast.Constant) and rt.value.value is None)


def check_nested(idx: Index, rep: Report) -> None:
    r = rep.rule("C29.R1", "every resolver of nested references checks, for each step, that the intermediate op is a symbol table and refuses a private symbol reached through nesting", floor=2)
    # (a) shared resolver of the direct and the cached form
    f = idx.func(UT, "_lookup_symbol_ref_in")
    loops = [w for w in walk_local(f.node) if isinstance(w, ast.For) and "nested_references" in unparse(w.iter)]
    if len(loops) != 1:
        raise AnalysisError(f"{f.fq}: loop over nested references not found")
    w = loops[0]
    lookups = [c for c in calls_in(w) if call_attr(c) == "lookup_symbol" or unparse(c.func) == f.node.args.args[2].arg]
    if not lookups:
        raise AnalysisError(f"{f.fq}: per-step lookup not found")
    # the root component is looked up in the table the reference is resolved from: its visibility is irrelevant (a private
    # symbol is visible inside its own table); only symbols reached *through nesting* are refused
    priv_nodes = [n_ for n_ in ast.walk(w) if isinstance(n_, ast.Attribute) and unparse(n_) == "Visibility.PRIVATE"]
    if "root_reference" in unparse(w.iter) and priv_nodes:
        # a test that exempts the first component (position, identity with the root, non-empty result list) is not read here
        exempt = [unparse(t_) for pn_ in priv_nodes for t_, _p in guard_facts(f.node, pn_) if re.search(r"root_reference|\b(i|idx|index|pos|position|depth|level|n)\b|symbols|first", unparse(t_)) and "Visibility" not in unparse(t_)]
        if exempt:
            raise AnalysisError(f"{f.fq}: the root component is resolved inside the loop and the visibility test is guarded by {exempt[:2]}: whether the root is exempt was not decided")
        r.fail(f.fq + ":root", Finding("C29.R1", f.fq, "private-root-refused", f"the loop `for {unparse(w.target)} in {unparse(w.iter)[:60]}` resolves the root component together with the nested ones and applies the private-symbol refusal to it: `@helper` naming a private symbol of the table itself resolves to nothing through a SymbolRefAttr, while the plain string form finds it", f"{UT}:{w.lineno}"))
    else:
        r.ok(f.fq + ":root", f"{f.loc} the visibility test applies to nested components only")
    cur = unparse(lookups[0].args[0])
    cfg = CFG(f.node)
    from ..dataflow import resolved_text

    def rfacts(node):
        out = []
        for t, pol in guard_facts(f.node, node):
            try:
                out.append((resolved_text(cfg, t, cfg.node_of(node)), pol))
            except AnalysisError:
                out.append((unparse(t), pol))
        return out

    # (table) each per-step lookup is control-dependent on the SymbolTable trait of the op it descends into
    ok_table = all(any(pol and f"{unparse(c.args[0])}.has_trait(traits.SymbolTable" in t for t, pol in rfacts(c)) for c in lookups)
    if ok_table:
        r.ok(f.fq + ":table", f"{f.loc} intermediate op checked for the SymbolTable trait before each descent")
    else:
        r.fail(f.fq + ":table", Finding("C29.R1", f.fq, "descent-without-table-check", "a nested reference is followed into an operation that was not checked to be a symbol table", f.loc))
    # (private) inside the loop, a `return None` is taken when the symbol found at this step is private
    looked = None
    for s_ in walk_local(w):
        if isinstance(s_, ast.Assign) and any(x is lookups[0] for x in ast.walk(s_)) and isinstance(s_.targets[0], ast.Name):
            looked = s_.targets[0].id
    if looked is None:
        raise AnalysisError(f"{f.fq}: the symbol found at each step is not bound to a name")
    lk_fn = unparse(lookups[0].func)

    def priv_test(t: str) -> bool | None:
        """True: `<looked> is PRIVATE`; False: `<looked> is not PRIVATE`; None: not a visibility test of the step's symbol"""
        import re as _re

        m = _re.fullmatch(r"SymbolTable\.get_symbol_visibility\((.+)\) (is not|is|==|!=) Visibility\.PRIVATE", t)
        if not m or not (m.group(1) == looked or m.group(1).startswith(lk_fn + "(")):
            return None
        return m.group(2) in ("is", "==")

    PRIV = (f"SymbolTable.get_symbol_visibility({looked}) is Visibility.PRIVATE", f"SymbolTable.get_symbol_visibility({looked}) == Visibility.PRIVATE")
    in_loop = any(_is_none_return(rt) and any(priv_test(t) is not None and priv_test(t) == pol for t, pol in rfacts(rt)) for rt in [n for n in walk_local(w) if isinstance(n, ast.Return)])
    # disjunction form: `if x is None or <private>: return None`
    if not in_loop:
        for rt in [n for n in walk_local(w) if isinstance(n, ast.Return) and _is_none_return(n)]:
            for t, pol in guard_facts(f.node, rt):
                if pol and isinstance(t, ast.BoolOp) and isinstance(t.op, ast.Or) and any(unparse(d) in PRIV for d in t.values):
                    in_loop = True
    if in_loop:
        r.ok(f.fq + ":private", f"{f.loc} private symbols refused at every nested step")
    else:
        anywhere = [n for n in walk_local(f.node) if isinstance(n, (ast.If, ast.Assign)) and "Visibility.PRIVATE" in unparse(n) and not any(x is n for x in ast.walk(w))]
        wrong = [n for n in walk_local(w) if "Visibility.PRIVATE" in (unparse(n) if isinstance(n, (ast.If, ast.Assign)) else "")]
        if wrong:
            r.fail(f.fq + ":private", Finding("C29.R1", f.fq, "private-check-wrong-op", "the visibility test inside the loop does not concern the symbol found at this step", f.loc))
        else:
            r.fail(f.fq + ":private", Finding("C29.R1", f.fq, "private-check-not-per-step", "private visibility is " + ("tested only once after the loop (on the leaf)" if anywhere else "not tested") + ": `@outer::@hidden::@leaf` resolves through a private intermediate table", f.loc))
    # (b) the trait's own resolver
    g = idx.func(TR, "SymbolTable.lookup_symbol")
    delegates = any(call_attr(c) in ("_lookup_symbol_ref_in", "lookup_symbol_in", "lookup_nearest_symbol_from") for c in calls_in(g.node))
    rec = [c for c in calls_in(g.node) if unparse(c.func) in ("SymbolTable.lookup_symbol", "cls.lookup_symbol", "lookup_symbol")]
    if delegates and not rec:
        r.ok(g.fq, f"{g.loc} delegates nested resolution to the shared resolver")
    elif not rec:
        raise AnalysisError(f"{g.fq}: nested resolution neither recursive nor delegated")
    else:
        for c in rec:
            o = unparse(c.args[0])
            facts = text_facts(g.node, c)
            has_table = any(p and f"{o}.has_trait(SymbolTable" in t for t, p in facts)
            has_priv = any("PRIVATE" in t or "sym_visibility" in t or "get_symbol_visibility" in t for t, p in facts)
            if has_table:
                r.ok(g.fq + ":table", f"{g.loc} recursion only into symbol tables")
            else:
                r.fail(g.fq + ":table", Finding("C29.R1", g.fq, "recursion-without-table-check", f"`{unparse(c)}` recurses into `{o}` without checking that it is a symbol table; the callee then climbs to the nearest enclosing table, so `@f::@g` resolves `@g` in the *parent* table when `@f` is not a table (the shared resolver in utils/symbol_table.py returns None)", f"{TR}:{c.lineno}"))
            if has_priv:
                r.ok(g.fq + ":private", f"{g.loc} private symbols refused through nesting")
            else:
                r.fail(g.fq + ":private", Finding("C29.R1", g.fq, "private-not-refused", f"`{unparse(c)}` follows nested references without refusing private symbols: `@inner::@priv` resolves (the shared resolver refuses it)", f"{TR}:{c.lineno}"))


def check_nearest(idx: Index, rep: Report) -> None:
    r = rep.rule("C29.R2", "'nearest symbol table' is the first operation with the trait on the parent chain, starting with the operation itself", floor=2)
    for mod, q, var in ((UT, "SymbolTable.get_nearest_symbol_table", None), (TR, "SymbolTable.lookup_symbol", None)):
        f = idx.func(mod, q)
        cfg = CFG(f.node)
        ws = [w for w in walk_local(f.node) if isinstance(w, ast.While)]
        if len(ws) != 1:
            # `for x in <chain generator>(start): if x has the trait: return x` - the generator is checked instead
            done = False
            for lp in [w for w in walk_local(f.node) if isinstance(w, ast.For) and isinstance(w.iter, ast.Call) and isinstance(w.iter.func, ast.Name) and len(w.iter.args) == 1]:
                h = idx.try_func(mod, lp.iter.func.id)
                if h is None:
                    continue
                hp = h.raw_node.args.args[0].arg
                hw = [w_ for w_ in walk_local(h.as_raw().node) if isinstance(w_, ast.While)]
                ys = [y_ for y_ in ast.walk(h.as_raw().node) if isinstance(y_, ast.Yield)]
                if len(hw) == 1 and len(ys) == 1 and isinstance(ys[0].value, ast.Name):
                    cv = ys[0].value.id
                    inits = [unparse(s_.value) for s_ in h.as_raw().node.body if isinstance(s_, (ast.Assign, ast.AnnAssign)) and unparse(s_.targets[0] if isinstance(s_, ast.Assign) else s_.target) == cv]
                    advs = [unparse(s_.value) for s_ in walk_local(hw[0]) if isinstance(s_, ast.Assign) and unparse(s_.targets[0]) == cv]
                    first_is_yield = isinstance(hw[0].body[0], ast.Expr) and hw[0].body[0].value is ys[0]
                    test_ok = unparse(hw[0].test) in (f"{cv} is not None", cv)
                    start_arg = unparse(lp.iter.args[0])
                    start_param = f.node.args.args[0].arg
                    tv = unparse(lp.target)
                    body_txt = unparse(lp)
                    if inits == [hp] and advs == [f"{cv}.parent_op()"] and first_is_yield and test_ok and start_arg == start_param and (f"{tv}.has_trait(traits.SymbolTable" in body_txt or f"{tv}.has_trait(SymbolTable" in body_txt):
                        r.ok(f.fq, f"{f.loc} for {tv} in {h.name}({start_arg}): the operation itself, then parent_op() while not None")
                        done = True
            if done:
                continue
            raise AnalysisError(f"{f.fq}: parent walk not found")
        w = ws[0]
        # the walking variable: the local the loop re-binds (and tests)
        rebound = [s_.targets[0].id for s_ in walk_local(w) if isinstance(s_, ast.Assign) and len(s_.targets) == 1 and isinstance(s_.targets[0], ast.Name)]
        names = [n.id for n in ast.walk(w.test) if isinstance(n, ast.Name) and n.id not in ("SymbolTable", "traits")]
        v = var or next((n_ for n_ in names if n_ in rebound), names[0])
        start = f.node.args.args[0].arg
        init = [val for nid, val in reaching_defs(cfg, v, cfg.node_of(w.test)) if val is not None and nid not in {cfg.node_of(s) for s in ast.walk(w) if isinstance(s, ast.stmt) and s is not w}]
        adv = [s for s in walk_local(w) if isinstance(s, ast.Assign) and unparse(s.targets[0]) == v]
        problems = []
        if [unparse(x) for x in init] != [start]:
            problems.append(("start", f"the walk starts from `{[unparse(x) for x in init]}`, not from the operation itself"))
        if not adv or any(resolved_text(cfg, a.value, cfg.node_of(a)) != f"{v}.parent_op()" and unparse(a.value) != f"{v}.parent_op()" for a in adv):
            problems.append(("advance", "the walk does not advance with parent_op()"))
        t = unparse(f.node)
        if f"{v}.has_trait(traits.SymbolTable" not in t and f"{v}.has_trait(SymbolTable" not in t:
            problems.append(("trait", "the walk does not stop at the SymbolTable trait"))
        if problems:
            for k, m in problems:
                r.fail(f.fq, Finding("C29.R2", f.fq, k, m, f.loc))
        else:
            r.ok(f.fq, f"{f.loc} {v} := {start}; while …: {v} = {v}.parent_op()")
    for q in ("SymbolTable.lookup_nearest_symbol_from", "SymbolTableCollection.lookup_nearest_symbol_from"):
        f = idx.func(UT, q)
        cfg = CFG(f.node)
        params = [a.arg for a in f.node.args.args if a.arg not in ("self", "cls")]
        a0, a1 = params[0], params[1]
        lk = [c for c in calls_in(f.node) if call_attr(c) == "lookup_symbol_in"]
        if not lk:
            raise AnalysisError(f"{f.fq}: call to lookup_symbol_in not found")
        for c in lk:
            tab = c.args[0]
            srcs: list[str] = []
            if isinstance(tab, ast.Name):
                for nid, val in reaching_defs(cfg, tab.id, cfg.node_of(c)):
                    srcs.append(unparse(val) if val is not None else f"<{cfg.nodes[nid].text()}>")
            else:
                srcs.append(unparse(tab))
            good = {f"SymbolTable.get_nearest_symbol_table({a0})", f"traits.SymbolTable.get_nearest_symbol_table({a0})"}
            sym_ok = len(c.args) > 1 and unparse(c.args[1]) == a1
            if srcs and all(x in good for x in srcs) and sym_ok:
                r.ok(f.fq, f"{f.loc} looks `{a1}` up in get_nearest_symbol_table({a0})")
            else:
                bad = [x for x in srcs if x not in good]
                r.fail(f.fq, Finding("C29.R2", f.fq, "nearest-lookup", f"the table passed to lookup_symbol_in can come from `{(bad or srcs)[0][:90]}` instead of get_nearest_symbol_table({a0}) computed for this very operation: a table remembered under another key (e.g. the parent block) is wrong for a nested symbol-table operation, whose nearest table is itself", f"{f.module.relpath}:{c.lineno}"))

def check_direct_vs_cached(idx: Index, rep: Report) -> None:
    r = rep.rule("C29.R3", "the cached table and the direct scan decide 'is a symbol with this name' identically (name is not None; same block; same name accessor) and duplicates are rejected by the verifier", floor=4)
    init = idx.func(UT, "SymbolTable.__init__")
    direct = idx.func(UT, "_lookup_symbol_in_direct_children")
    # same scope
    def _scopes(fi) -> list[str]:
        """what `<X>.ops` iterations of the function range over, with local names resolved"""
        c_ = CFG(fi.node)
        out_ = []
        iters_ = [(w_.iter, w_) for w_ in walk_local(fi.node) if isinstance(w_, ast.For)]
        iters_ += [(g_.iter, n_) for n_ in ast.walk(fi.node) if isinstance(n_, (ast.GeneratorExp, ast.ListComp, ast.SetComp, ast.DictComp)) for g_ in n_.generators]
        for it_, owner_ in iters_:
            if isinstance(it_, ast.Attribute) and it_.attr == "ops":
                try:
                    at_ = c_.node_of(owner_)
                except AnalysisError:
                    continue
                out_.append(resolved_text(c_, it_.value, at_))
        return out_

    scope_i = _scopes(init)
    scope_d = _scopes(direct)
    norm = lambda s: s.replace("self._symbol_table_op", "OP").replace(direct.node.args.args[0].arg, "OP")
    if scope_i and scope_d and norm(scope_i[0]) == norm(scope_d[0]) == "OP.regions[0].blocks[0]":
        r.ok("scope", f"{init.loc} / {direct.loc}: both scan regions[0].blocks[0]")
    else:
        r.fail("scope", Finding("C29.R3", init.fq, "scope-mismatch", f"cached table scans `{scope_i}` but the direct lookup scans `{scope_d}`", init.loc))
    # same accessor
    if any(call_attr(c) == "get_name_if_symbol" for c in calls_in(init.node, local=False)) and any(call_attr(c) == "get_name_if_symbol" for c in calls_in(direct.node)):
        r.ok("accessor", "both use get_name_if_symbol")
    else:
        r.fail("accessor", Finding("C29.R3", init.fq, "accessor-mismatch", "cached and direct lookup no longer obtain symbol names through the same accessor", init.loc))
    # presence predicate in the cache construction: `is not None`, never truthiness
    conds: list[ast.AST] = []
    # locals bound to the accessor's result (`name = get_name_if_symbol(op)` followed by `if name is not None`)
    acc_names = {s_.targets[0].id for s_ in ast.walk(init.node) if isinstance(s_, ast.Assign) and len(s_.targets) == 1 and isinstance(s_.targets[0], ast.Name) and isinstance(s_.value, ast.Call) and call_attr(s_.value) == "get_name_if_symbol"}
    for n in ast.walk(init.node):
        if isinstance(n, ast.If) and (any(call_attr(c) == "get_name_if_symbol" for c in calls_in(n.test, local=False)) or any(isinstance(x, ast.Name) and x.id in acc_names for x in ast.walk(n.test))):
            conds.append(n.test)
        if isinstance(n, ast.comprehension):
            for c in n.ifs:
                if any(call_attr(x) == "get_name_if_symbol" for x in calls_in(c, local=False)) or "name" in unparse(c):
                    conds.append(c)
    if not conds:
        raise AnalysisError(f"{init.fq}: filter on get_name_if_symbol not found")
    for c in conds:
        c0 = c
        while isinstance(c0, ast.UnaryOp) and isinstance(c0.op, ast.Not):
            c0 = c0.operand
        is_none_test = isinstance(c0, ast.Compare) and len(c0.ops) == 1 and isinstance(c0.ops[0], (ast.IsNot, ast.Is)) and isinstance(c0.comparators[0], ast.Constant) and c0.comparators[0].value is None
        truthy = isinstance(c0, (ast.Name, ast.NamedExpr, ast.Call))
        if not is_none_test and not truthy:
            raise AnalysisError(f"{init.fq}: presence test `{unparse(c)}` of the cached table not understood")
        if is_none_test:
            r.ok("presence", f"{init.loc} entries kept iff name is not None")
        else:
            r.fail("presence", Finding("C29.R3", init.fq, "empty-name-dropped", f"`{unparse(c)}` keeps a symbol only when its name is truthy: a symbol named `@\"\"` is missing from the cached table while the direct scan (`get_name_if_symbol(op) == name`) finds it", init.loc))
    # direct: first match by equality
    eq = [n for n in walk_local(direct.node) if isinstance(n, ast.Compare) and "get_name_if_symbol" in unparse(n.left) and isinstance(n.ops[0], ast.Eq)]
    if eq:
        r.ok("direct-match", f"{direct.loc} direct scan matches by name equality")
    else:
        r.fail("direct-match", Finding("C29.R3", direct.fq, "direct-match", "direct scan no longer matches `get_name_if_symbol(op) == name`", direct.loc))
    # duplicates rejected (first-match == last-wins)
    v = idx.func(TR, "SymbolTable.verify")
    # a set local that collects the names met so far: `if name in S: raise` and `S.add(name)` on the same S
    adds_ = [c for c in calls_in(v.node) if call_attr(c) == "add" and isinstance(c.func.value, ast.Name) and len(c.args) == 1]  # type: ignore[attr-defined]
    dup = add = []
    for c in adds_:
        sn, el = c.func.value.id, unparse(c.args[0])  # type: ignore[attr-defined]
        d_ = [n for n in walk_local(v.node) if isinstance(n, ast.If) and unparse(n.test) == f"{el} in {sn}" and isinstance(n.body[0], ast.Raise)]
        if d_:
            dup, add = d_, [c]
    if dup and add:
        r.ok("duplicates", f"{v.loc} SymbolTable.verify rejects redefinitions")
    else:
        r.fail("duplicates", Finding("C29.R3", v.fq, "duplicates-accepted", "the SymbolTable verifier no longer rejects two symbols with the same name: first-match (direct) and last-wins (cached) lookups disagree", v.loc))
    # cached lookup keys by the plain string
    lk = idx.func(UT, "SymbolTable.lookup")
    from ..paths import enum_paths

    prm = lk.node.args.args[1].arg
    verdicts = []
    for pth in enum_paths(lk.node):
        if not pth.feasible():
            continue
        for k, e_ in enumerate(pth.effects):
            holder = e_[1] if isinstance(e_, tuple) and len(e_) == 2 and isinstance(e_[1], ast.AST) else e_
            if not isinstance(holder, ast.AST):
                continue
            for n_ in ast.walk(holder):
                key = None
                if isinstance(n_, ast.Call) and call_attr(n_) == "get" and unparse(n_.func.value) == "self._symbol_table" and n_.args:  # type: ignore[attr-defined]
                    key = n_.args[0]
                elif isinstance(n_, ast.Subscript) and unparse(n_.value) == "self._symbol_table" and isinstance(n_.ctx, ast.Load):
                    key = n_.slice
                if key is None:
                    continue
                kt = pth.res(key, k)
                isattr = next((p_ for t_, p_ in pth.nfacts() if t_ == f"isinstance({prm}, StringAttr)"), None)
                verdicts.append((kt, isattr))
        if pth.end == "return" and pth.value is not None:
            for n_ in ast.walk(pth.value):
                key = None
                if isinstance(n_, ast.Call) and call_attr(n_) == "get" and unparse(n_.func.value) == "self._symbol_table" and n_.args:  # type: ignore[attr-defined]
                    key = n_.args[0]
                elif isinstance(n_, ast.Subscript) and unparse(n_.value) == "self._symbol_table":
                    key = n_.slice
                if key is None:
                    continue
                kt = pth.res(key)
                isattr = next((p_ for t_, p_ in pth.nfacts() if t_ == f"isinstance({prm}, StringAttr)"), None)
                verdicts.append((kt, isattr))
    both = f"{prm}.data if isinstance({prm}, StringAttr) else {prm}"
    bad_key = [(kt, ia) for kt, ia in verdicts if (ia is True and kt == prm) or (ia is None and kt == prm) or (ia is False and kt == f"{prm}.data")]
    good = [(kt, ia) for kt, ia in verdicts if (ia is True and kt == f"{prm}.data") or (ia is False and kt == prm) or kt == both]
    if not verdicts:
        raise AnalysisError(f"{lk.fq}: no read of self._symbol_table found")
    if bad_key:
        kt, ia = bad_key[0]
        r.fail("cached-key", Finding("C29.R3", lk.fq, "cached-key", f"cached lookup does not key by the plain symbol name: the table is read with `{kt}` on a path where isinstance({prm}, StringAttr) is {ia} (the table is keyed by str)", lk.loc))
    elif len(good) == len(verdicts):
        r.ok("cached-key", f"{lk.loc} lookup by plain name")
    else:
        raise AnalysisError(f"{lk.fq}: key of the cached lookup not understood: {[v for v in verdicts if v not in good][:2]}")


def check_symbol_predicate(idx: Index, rep: Report) -> None:
    """Every resolver decides 'this operation is the symbol called N' through the symbol interface
    (SymbolOpInterface.get_sym_attr_name / get_name_if_symbol).  Matching on a raw `sym_name` attribute also selects
    operations that merely carry such an attribute without being symbols (symref.declare, csl.func, fsm.instance ...)."""
    r = rep.rule("C29.R4", "the three resolvers match an operation against a symbol name only through SymbolOpInterface (never on a raw sym_name attribute)", floor=2)
    sites = [(TR, "SymbolTable.lookup_symbol"), (UT, "_lookup_symbol_in_direct_children"), (UT, "SymbolTable.__init__")]
    for mod, q in sites:
        f = idx.func(mod, q)
        t = unparse(f.as_raw().node)
        via_iface = bool(re.search(r"get_trait\(SymbolOpInterface\)|has_trait\(SymbolOpInterface\)|get_name_if_symbol\(|get_sym_attr_name\(", t))
        raw = [n for n in ast.walk(f.as_raw().node) if (isinstance(n, ast.Call) and call_attr(n) in ("get_attr_or_prop", "get") and n.args and isinstance(n.args[0], ast.Constant) and n.args[0].value == "sym_name") or (isinstance(n, ast.Subscript) and isinstance(n.slice, ast.Constant) and n.slice.value == "sym_name")]
        # `verify` style duplicate checks read the raw attribute; only comparisons against the looked-up name count
        raw_match = [n for n in raw if any(isinstance(c_, ast.Compare) and any(y is n for y in ast.walk(c_)) for c_ in ast.walk(f.as_raw().node))]
        if raw_match and not via_iface:
            r.fail(f.fq, Finding("C29.R4", f.fq, "raw-sym-name-match", f"`{unparse(raw_match[0])}` is compared with the looked-up name without the SymbolOpInterface test: an operation that only carries a `sym_name` attribute but is not a symbol is returned, and this resolver disagrees with the other two on the same module", f"{f.module.relpath}:{raw_match[0].lineno}"))
        elif via_iface:
            r.ok(f.fq, f"{f.loc} symbol name obtained through the symbol interface")
        else:
            raise AnalysisError(f"{f.fq}: how an operation is matched against the symbol name was not understood")


def check(idx: Index, rep: Report, tier: str) -> str:
    rep.run(check_nested, idx, rep)
    rep.run(check_nearest, idx, rep)
    rep.run(check_direct_vs_cached, idx, rep)
    rep.run(check_symbol_predicate, idx, rep)
    return (
        "Sibling-agreement rules over the three implementations of symbol resolution (utils.symbol_table direct and cached "
        "forms sharing _lookup_symbol_ref_in, and traits.SymbolTable.lookup_symbol): per-step table check and private "
        "refusal, nearest-table walk starting at the operation itself, identical presence predicate and scope for cached and "
        "direct lookup, duplicate rejection by the verifier. Behaviour on generated module trees is not decided."
    )
