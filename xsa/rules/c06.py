"""C06 — builtin attributes round-trip bit-exactly: byte-escape partition, string token
classification, float literal forms vs readers, bool spelling, splat on bytes, element stride,
location sections, float-keyed caches, optional-int elision."""

from __future__ import annotations

import ast
import re

from .. import regexlang as rx
from ..astutil import call_attr, dispatch_tables, calls_in, guard_facts, names_in, unparse, walk_local
from ..cfg import CFG
from ..dataflow import resolved_text
from ..report import Finding, Report
from ..rx_extract import class_regex, escape_table
from ..srcindex import AnalysisError, Index, raw_funcs

PRINTER = "xdsl/printer.py"
LEXER = "xdsl/utils/mlir_lexer.py"
BUILTIN = "xdsl/dialects/builtin.py"
AP = "xdsl/parser/attribute_parser.py"
BP = "xdsl/parser/base_parser.py"


def _eval_int_guard(e: ast.AST, env: dict[str, int]) -> bool | int:
    """Evaluate a comparison / boolean expression over ints bound in env (finite-partition evaluation)."""
    if isinstance(e, ast.Constant):
        return e.value
    if isinstance(e, ast.Name):
        return env[e.id]
    if isinstance(e, ast.BoolOp):
        vals = [_eval_int_guard(v, env) for v in e.values]
        return all(vals) if isinstance(e.op, ast.And) else any(vals)
    if isinstance(e, ast.UnaryOp) and isinstance(e.op, ast.Not):
        return not _eval_int_guard(e.operand, env)
    if isinstance(e, ast.Compare):
        left = _eval_int_guard(e.left, env)
        for op, c in zip(e.ops, e.comparators):
            right = _eval_int_guard(c, env)
            ok = {ast.Lt: left < right, ast.LtE: left <= right, ast.Gt: left > right, ast.GtE: left >= right, ast.Eq: left == right, ast.NotEq: left != right}.get(type(op))
            if ok is None:
                raise AnalysisError(f"unsupported comparison in byte guard: {unparse(e)}")
            if not ok:
                return False
            left = right
        return True
    raise AnalysisError(f"unsupported expression in byte guard: {unparse(e)}")


class _Unsupported(Exception):
    pass


_STR_PREDICATES = {"isprintable", "isascii", "isalnum", "isalpha", "isdigit", "isspace", "isupper", "islower", "isidentifier", "isdecimal", "isnumeric"}


def _eval_pure(e: ast.AST, env: dict[str, object]):
    """Value of a side-effect-free expression over ints / strings / bytes bound in env (exhaustive evaluation of the byte
    escaper over its finite domain).  Only total, deterministic builtins are interpreted; anything else is _Unsupported."""
    if isinstance(e, ast.Constant):
        return e.value
    if isinstance(e, ast.Name):
        if e.id in env:
            return env[e.id]
        raise _Unsupported(unparse(e))
    if isinstance(e, ast.NamedExpr):
        env[e.target.id] = _eval_pure(e.value, env)
        return env[e.target.id]
    if isinstance(e, ast.BoolOp):
        v = None
        for x in e.values:
            v = _eval_pure(x, env)
            if isinstance(e.op, ast.And) and not v:
                return v
            if isinstance(e.op, ast.Or) and v:
                return v
        return v
    if isinstance(e, ast.UnaryOp) and isinstance(e.op, ast.Not):
        return not _eval_pure(e.operand, env)
    if isinstance(e, ast.UnaryOp) and isinstance(e.op, ast.USub):
        return -_eval_pure(e.operand, env)
    if isinstance(e, ast.BinOp) and isinstance(e.op, (ast.Add, ast.Sub, ast.BitAnd, ast.BitOr, ast.RShift, ast.LShift, ast.Mod, ast.FloorDiv)):
        a, b = _eval_pure(e.left, env), _eval_pure(e.right, env)
        if isinstance(e.op, ast.Mod) and isinstance(a, str):
            return a % b
        return {ast.Add: lambda: a + b, ast.Sub: lambda: a - b, ast.BitAnd: lambda: a & b, ast.BitOr: lambda: a | b, ast.RShift: lambda: a >> b, ast.LShift: lambda: a << b, ast.Mod: lambda: a % b, ast.FloorDiv: lambda: a // b}[type(e.op)]()
    if isinstance(e, ast.Compare):
        left = _eval_pure(e.left, env)
        for op, c in zip(e.ops, e.comparators):
            right = _eval_pure(c, env)
            fn = {ast.Lt: lambda: left < right, ast.LtE: lambda: left <= right, ast.Gt: lambda: left > right, ast.GtE: lambda: left >= right, ast.Eq: lambda: left == right, ast.NotEq: lambda: left != right, ast.In: lambda: left in right, ast.NotIn: lambda: left not in right}.get(type(op))
            if fn is None:
                raise _Unsupported(unparse(e))
            if not fn():
                return False
            left = right
        return True
    if isinstance(e, (ast.Tuple, ast.List, ast.Set)):
        vals = [_eval_pure(x, env) for x in e.elts]
        return tuple(vals) if not isinstance(e, ast.Set) else frozenset(vals)
    if isinstance(e, ast.IfExp):
        return _eval_pure(e.body, env) if _eval_pure(e.test, env) else _eval_pure(e.orelse, env)
    if isinstance(e, ast.JoinedStr):
        out = ""
        for part in e.values:
            if isinstance(part, ast.Constant):
                out += part.value
            elif isinstance(part, ast.FormattedValue) and part.conversion == -1:
                spec = _eval_pure(part.format_spec, env) if part.format_spec is not None else ""
                out += format(_eval_pure(part.value, env), spec)
            else:
                raise _Unsupported(unparse(e))
        return out
    if isinstance(e, ast.Call) and not e.keywords:
        fn = unparse(e.func)
        if fn in ("chr", "ord", "len", "hex", "bytes", "range", "int", "str") and all(not isinstance(a, ast.Starred) for a in e.args):
            args = [_eval_pure(a, env) for a in e.args]
            try:
                return {"chr": chr, "ord": ord, "len": len, "hex": hex, "bytes": bytes, "range": range, "int": int, "str": str}[fn](*args)
            except (ValueError, TypeError) as x:
                raise _Unsupported(f"{unparse(e)}: {x}")
        if isinstance(e.func, ast.Attribute) and e.func.attr in _STR_PREDICATES and not e.args:
            v = _eval_pure(e.func.value, env)
            if isinstance(v, str):
                return getattr(v, e.func.attr)()
        if isinstance(e.func, ast.Attribute) and e.func.attr in ("upper", "lower", "format", "rjust", "zfill") :
            v = _eval_pure(e.func.value, env)
            if isinstance(v, str):
                return getattr(v, e.func.attr)(*[_eval_pure(a, env) for a in e.args])
    raise _Unsupported(unparse(e))


def _exec_escaper(stmts: list[ast.stmt], env: dict[str, object], out: list[str]) -> str:
    """Run the body of the byte loop for one byte; printed pieces are appended to out.  Returns 'next' | 'continue'."""
    for st in stmts:
        if isinstance(st, ast.Pass):
            continue
        if isinstance(st, ast.Continue):
            return "continue"
        if isinstance(st, ast.If):
            k = _exec_escaper(st.body if _eval_pure(st.test, env) else st.orelse, env, out)
            if k != "next":
                return k
            continue
        if isinstance(st, ast.Match):
            subj = _eval_pure(st.subject, env)
            for case in st.cases:
                pat = case.pattern
                if isinstance(pat, ast.MatchValue):
                    hit = _eval_pure(pat.value, env) == subj
                elif isinstance(pat, ast.MatchOr) and all(isinstance(q, ast.MatchValue) for q in pat.patterns):
                    hit = any(_eval_pure(q.value, env) == subj for q in pat.patterns)
                elif isinstance(pat, ast.MatchAs) and pat.pattern is None:
                    hit = True
                    if pat.name:
                        env[pat.name] = subj
                else:
                    raise _Unsupported(f"case {unparse(pat)}")
                if hit and case.guard is not None:
                    hit = bool(_eval_pure(case.guard, env))
                if hit:
                    k = _exec_escaper(case.body, env, out)
                    if k != "next":
                        return k
                    break
            continue
        if isinstance(st, (ast.Assign, ast.AnnAssign)) and (st.value is not None):
            tg = st.targets[0] if isinstance(st, ast.Assign) else st.target
            if isinstance(tg, ast.Name):
                env[tg.id] = _eval_pure(st.value, env)
                continue
        if isinstance(st, ast.Expr) and isinstance(st.value, ast.Call) and unparse(st.value.func) in ("self.print_string", "self._print", "self.print") and len(st.value.args) == 1:
            v = _eval_pure(st.value.args[0], env)
            if not isinstance(v, str):
                raise _Unsupported(unparse(st))
            out.append(v)
            continue
        raise _Unsupported(unparse(st)[:60])
    return "next"


def byte_forms(idx: Index) -> dict[int, str]:
    """Form printed by Printer.print_bytes_literal for each byte: 'raw', 'esc:<text>' or 'hex:<fmt>' -- obtained by evaluating
    the body of its byte loop for each of the 256 values (if / match / conditional expressions over total str / int builtins)."""
    f = idx.func(PRINTER, "Printer.print_bytes_literal")
    loops = [w for w in walk_local(f.node) if isinstance(w, ast.For)]
    if len(loops) != 1 or not isinstance(loops[0].target, ast.Name):
        raise AnalysisError(f"{f.fq}: expected one `for <byte> in ...:` loop")
    var = loops[0].target.id
    out: dict[int, str] = {}
    for b in range(256):
        pieces: list[str] = []
        try:
            _exec_escaper(loops[0].body, {var: b}, pieces)
        except _Unsupported as x:
            raise AnalysisError(f"{f.fq}: the byte escaper uses a construct the evaluator does not interpret: {x}")
        if not pieces:
            raise AnalysisError(f"{f.fq}: byte {b} is not printed by any branch")
        text = "".join(pieces)
        if text == chr(b):
            out[b] = "raw"
        elif text == "\\%02X" % b and text != "\\%02x" % b:
            out[b] = "hex:f'\\\\{byte:02X}'"
        elif text == "\\%02x" % b and text != "\\%02X" % b:
            out[b] = "hex:f'\\\\{byte:02x}'"
        elif text == "\\%02X" % b:
            out[b] = "hex:f'\\\\{byte:02X}'"
        else:
            out[b] = "esc:" + text
    return out


def check_bytes(idx: Index, rep: Report) -> dict[int, str]:
    r = rep.rule("C06.R1", "for every byte 0..255 the form print_bytes_literal emits is accepted by the string-literal regex and decoded back to the same byte", floor=256)
    forms = byte_forms(idx)
    pat, fl = class_regex(idx, LEXER, "MLIRLexer", "_unescaped_characters_regex")
    nfa = rx.from_regex(pat, fl)
    bc = idx.func(LEXER, "StringLiteral.bytes_contents")
    mapping = escape_table(bc)
    # the hex decoder: int(<text>[<bs> + lo:<bs> + hi], base) where <bs> is the index of the backslash
    hexdec = None
    bcfg = CFG(bc.node)
    for c in calls_in(bc.node):
        if unparse(c.func) == "int" and len(c.args) == 2 and isinstance(c.args[1], ast.Constant):
            e = ast.parse(resolved_text(bcfg, c.args[0]), mode="eval").body
            sl = e.slice if isinstance(e, ast.Subscript) and isinstance(e.slice, ast.Slice) else None
            lo, hi = (sl.lower, sl.upper) if sl is not None else (None, None)

            def _lin(x):
                """x as (base expression text, integer offset): constants added on the right are peeled off"""
                off = 0
                while isinstance(x, ast.BinOp) and isinstance(x.op, ast.Add) and isinstance(x.right, ast.Constant) and isinstance(x.right.value, int):
                    off += x.right.value
                    x = x.left
                return (unparse(x), off) if x is not None else (None, 0)

            (lb, lo_off), (hb, hi_off) = _lin(lo), _lin(hi)
            if lo is None or hi is None or lb != hb or ".find('\\\\'" not in lb:
                raise AnalysisError(f"{bc.fq}: the digits handed to {unparse(c)} were not resolved to a slice after the backslash")
            hexdec = (lo_off, hi_off, c.args[1].value)
    if hexdec is None:
        raise AnalysisError(f"{bc.fq}: no int(<digits>, <base>) decoder of hex escapes found")
    bad: dict[str, list[int]] = {}
    for b, form in forms.items():
        if form == "raw":
            text = chr(b)
            decoded = bytes([b]) if b < 128 else None
        elif form.startswith("esc:"):
            text = form[4:]
            decoded = mapping.get(text)
        else:
            fmt = form[4:]
            if fmt not in ("f'\\\\{byte:02X}'", "f'\\\\{byte:02x}'"):
                raise AnalysisError(f"hex escape format {fmt} not recognised")
            text = "\\" + f"{b:02X}"
            try:
                decoded = bytes([int(text[hexdec[0] : hexdec[1]], hexdec[2])])
            except ValueError:
                decoded = None
        word = [ord('"')] + [ord(c) if ord(c) < 128 else rx.NA_OTHER for c in text] + [ord('"')]
        S = nfa.init()
        for a in word:
            S = nfa.step(S, a)
        accepted = nfa.accepts(S)
        if not accepted:
            bad.setdefault("not-lexed", []).append(b)
        elif decoded != bytes([b]):
            bad.setdefault("decoded-differently", []).append(b)
        else:
            r.ok(f"byte 0x{b:02X}", None)
    for k, bs in bad.items():
        r.fail(f"bytes:{k}", Finding("C06.R1", "xdsl.printer.Printer.print_bytes_literal", f"{k}:{_ranges(bs)}", f"bytes {_ranges(bs)} are printed in a form that is {'not accepted by the string-literal regex' if k == 'not-lexed' else 'decoded to a different byte by StringLiteral.bytes_contents'}", PRINTER))
    r.samples.append("0x41 -> raw 'A'; 0x5C -> '\\\\\\\\'; 0x22 -> '\\\\22'; 0x0A -> '\\\\0A'; 0xC3 -> '\\\\C3'")
    return forms


def _ranges(bs: list[int]) -> str:
    bs = sorted(bs)
    out, i = [], 0
    while i < len(bs):
        j = i
        while j + 1 < len(bs) and bs[j + 1] == bs[j] + 1:
            j += 1
        out.append(f"0x{bs[i]:02X}" if i == j else f"0x{bs[i]:02X}-0x{bs[j]:02X}")
        i = j + 1
    return ",".join(out)


# byte classes excluded by the predicates a fast path may test on the Python string
NEEDS_ESCAPE_CLASSES = {"quote": {0x22}, "backslash": {0x5C}, "control": set(range(0x20)) | {0x7F}, "non-ascii": set(range(0x80, 0x100))}


def check_string_literal(idx: Index, rep: Report, forms: dict[int, str]) -> None:
    r = rep.rule("C06.R2", "a string payload reaches the output only through the byte escaper (or under a guard that excludes every byte needing an escape), and the lexer classifies what the escaper emits for any Unicode string as STRING_LIT", floor=2)
    f = idx.func(PRINTER, "Printer.print_string_literal")
    s = f.node.args.args[1].arg
    needs = {b for b, fm in forms.items() if fm != "raw"}
    prints = [c for c in calls_in(f.node) if unparse(c.func) in ("self.print_string", "self.print_bytes_literal")]
    if not any(unparse(c) == f"self.print_bytes_literal({s}.encode('utf-8'))" or unparse(c) == f"self.print_bytes_literal({s}.encode())" for c in prints):
        r.fail(f.fq, Finding("C06.R2", f.fq, "not-via-escaper", "print_string_literal no longer routes the UTF-8 encoding of the string through print_bytes_literal", f.loc))
    for c in prints:
        if unparse(c.func) == "self.print_string" and s in {n.id for n in ast.walk(c) if isinstance(n, ast.Name)}:
            # raw emission of the payload: the guard must exclude every class that needs escaping
            excluded: set[int] = set()
            for t, pol in guard_facts(f.node, c):
                tt = unparse(t)
                if pol and tt == f"{s}.isascii()":
                    excluded |= NEEDS_ESCAPE_CLASSES["non-ascii"]
                elif pol and tt == f"{s}.isprintable()":
                    excluded |= NEEDS_ESCAPE_CLASSES["control"]
                elif isinstance(t, ast.Compare) and isinstance(t.ops[0], ast.NotIn) and pol and unparse(t.comparators[0]) == s and isinstance(t.left, ast.Constant) and isinstance(t.left.value, str) and len(t.left.value) == 1:
                    excluded.add(ord(t.left.value))
                elif isinstance(t, ast.Compare) and isinstance(t.ops[0], ast.In) and not pol and unparse(t.comparators[0]) == s and isinstance(t.left, ast.Constant) and isinstance(t.left.value, str) and len(t.left.value) == 1:
                    excluded.add(ord(t.left.value))
            missing = needs - excluded
            inst = f"{f.fq}:raw-print"
            if missing:
                names = [k for k, v in NEEDS_ESCAPE_CLASSES.items() if v & missing]
                r.fail(inst, Finding("C06.R2", f.fq, "raw-payload:" + ",".join(names), f"`{unparse(c)[:70]}` writes the string unescaped under a guard that does not exclude {names} (bytes {_ranges(sorted(missing))[:60]}): such characters are re-read as escape sequences or end the literal", f"{PRINTER}:{c.lineno}"))
            else:
                r.ok(inst, f"{PRINTER}:{c.lineno} raw emission only of escape-free strings")
    if not r.findings:
        r.ok(f.fq, f"{f.loc} payload only through print_bytes_literal(utf-8)")
    # lexer classification
    lx = idx.func(LEXER, "MLIRLexer._lex_string_literal")
    hex_non_ascii = all(forms[b].startswith("hex:") for b in range(0x80, 0x100))
    tests = [unparse(t) for n in walk_local(lx.node) if isinstance(n, ast.If) for t in [n.test] if any(isinstance(x, ast.Return) and "STRING_LIT" in unparse(x) for x in n.body)]
    uses_isascii = any("isascii()" in t for t in tests)
    tries_decode = any(isinstance(n, ast.Try) and any(call_attr(c) == "decode" for c in calls_in(n)) for n in walk_local(lx.node)) or any("decode" in t or "is_utf8" in t or "isvalid" in t for t in tests)
    inst = f"{lx.fq}:classification"
    if hex_non_ascii and uses_isascii and not tries_decode:
        r.fail(inst, Finding("C06.R2", lx.fq, "utf8-string-lexed-as-bytes", "print_bytes_literal escapes every byte above 0x7E as \\XX, so the UTF-8 encoding of a non-ASCII string contains escapes with non-ASCII values; _lex_string_literal returns STRING_LIT only when the decoded bytes are ASCII (`isascii()`), hence StringAttr(\"é\") is re-read as BYTES_LIT / BytesAttr (its docstring says: STRING_LIT when the payload decodes as UTF-8)", lx.loc))
    else:
        r.ok(inst, f"{lx.loc} STRING_LIT decided by UTF-8 decodability")


FLOAT_READERS = [
    (AP, "AttrParser.parse_optional_builtin_int_or_float_attr", "typed scalar float attribute"),
    (AP, "AttrParser._TensorLiteralElement.to_float", "dense elements"),
    (BP, "BaseParser.parse_optional_float", "dense array elements (parse_float)"),
]


def _type_facts(nf, tparam: str) -> list[str]:
    """Element types the path's facts leave possible for `tparam`: positive isinstance facts (a union `A | B` or tuple
    `(A, B)` is split), minus the alternatives refuted by negative isinstance facts."""
    pos: list[list[str]] = []
    neg: set[str] = set()
    for t_, p_ in nf:
        m_ = re.fullmatch(rf"isinstance\({re.escape(tparam)}, \(?([\w.]+(?:(?: \| |, )[\w.]+)*)\)?\)", t_)
        if m_:
            alts = re.split(r" \| |, ", m_.group(1))
            if p_:
                pos.append(alts)
            else:
                neg.update(alts)
        m_ = re.fullmatch(rf"{re.escape(tparam)} == '([\w.]+)\(\)'", t_)  # match type: case Float32Type():
        if m_ and p_:
            pos.append([m_.group(1)])
    if not pos:
        return []
    cur = [a for a in pos[0] if a not in neg]
    for alts in pos[1:]:
        cur = [a for a in cur if a in alts]
    return cur


def check_float_forms(idx: Index, rep: Report) -> None:
    r = rep.rule("C06.R3", "every literal form print_float can emit is read bit-exactly by every reader of floats: decimal forms are FLOAT_LIT, and each reader turns a 0x… INTEGER_LIT into the value by bit-cast", floor=4)
    pf = idx.func(PRINTER, "Printer.print_float")
    txt = unparse(pf.node)
    emits_hex = "f'0x{" in txt
    if not emits_hex:
        raise AnalysisError(f"{pf.fq}: hex bit-pattern form not found (writer forms changed)")
    # decimal forms: .5e with inserted 0 ; .9g / .17g only when "." present; repr
    dec = rx.from_regex(r"-?[0-9]+\.[0-9]*(?:[eE][+-]?[0-9]+)?")
    fl_pat, fl_fl = class_regex(idx, LEXER, "MLIRLexer", "_fractional_suffix_regex")
    dg_pat, dg_fl = class_regex(idx, LEXER, "MLIRLexer", "_digits_star_regex")
    lexed = rx.concat(rx.from_regex(r"-?[0-9]"), rx.concat(rx.from_regex(dg_pat, dg_fl), rx.from_regex(fl_pat, fl_fl)))
    # Python's output language for '{:.5e}' with a 0 inserted before 'e', and for 'g' formats that contain '.'
    py_e = rx.from_regex(r"-?[0-9]\.[0-9]{5}0e[-+][0-9]{2,3}")
    py_g = rx.from_regex(r"-?(?:[0-9]+\.[0-9]+|[0-9]\.[0-9]+e[-+][0-9]{2,3})")
    for name, lang in (("'.5e' + inserted 0", py_e), ("'.9g' / '.17g' / repr containing '.'", py_g)):
        w = rx.included(lang, lexed)
        if w is None:
            r.ok(f"decimal form {name}", f"{name} ⊆ FLOAT_LIT ({dg_pat!r}{fl_pat!r})")
        else:
            r.fail(f"decimal form {name}", Finding("C06.R3", pf.fq, f"decimal-not-float-lit:{name}", f"print_float can emit `{rx.show(w)}`, which the lexer does not lex as one FLOAT_LIT", pf.loc))
    # every printed form, per path (helpers inlined, locals resolved along the path): which literal form is printed
    # under which facts
    from ..paths import enum_paths, expand_predicates

    n_forms = {"bits": 0, "g": 0, "e5": 0, "repr": 0}
    bad_g, bad_e, bad_nf, bad_bits = [], [], [], []
    for pth in expand_predicates(enum_paths(pf.node), {}):
        if not pth.feasible():
            continue
        nf = pth.nfacts()
        nan = next((p_ for t_, p_ in nf if t_ == "math.isnan(value)"), None)
        inf = next((p_ for t_, p_ in nf if t_ == "math.isinf(value)"), None)
        fin = next((p_ for t_, p_ in nf if t_ == "math.isfinite(value)"), None)
        finite_known = (nan is False and inf is False) or fin is True
        nonfinite = nan is True or inf is True or fin is False
        for k, e_ in enumerate(pth.effects):
            if not (isinstance(e_, ast.Expr) and isinstance(e_.value, ast.Call) and unparse(e_.value.func) == "self.print_string" and e_.value.args):
                continue
            T = pth.res(e_.value.args[0], k)
            mg = re.fullmatch(r"f'\{value:\.(\d+)g\}'", T)
            mb = re.search(r"convert_f(32|64)_to_u(32|64)\(value\):X", T)
            if (".hex()" in T and "pack(" in T) or mb:
                n_forms["bits"] += 1
                if mb:
                    tys = _type_facts(nf, pf.node.args.args[2].arg)
                    want_w = {"Float32Type": "32", "Float64Type": "64"}
                    wrong = [t_ for t_ in tys if want_w.get(t_.split(".")[-1]) not in (None, mb.group(1))] or ([] if tys else ["<any>"])
                    if mb.group(1) != mb.group(2) or wrong:
                        bad_bits.append((T, wrong, e_.lineno))
                continue
            if mg:
                kind = "g"
                if (f"'.' in {T}", True) not in nf:
                    bad_g.append(T)
            elif "f'{value:.5e}'" in T and "'0'" in T:
                kind = "e5"
                ok_e = any(p_ and re.fullmatch(r"type\.unpack\(type\.pack\(\[float\((.*)\)\]\), 1\)\[0\] == value|value == type\.unpack\(type\.pack\(\[float\((.*)\)\]\), 1\)\[0\]", t_) and (T in t_) for t_, p_ in nf)
                if not ok_e:
                    bad_e.append(T[:60])
            elif T in ("f'{value!r}'", "repr(value)", "str(value)", "f'{value}'"):
                kind = "repr"
            else:
                raise AnalysisError(f"{pf.fq}: printed literal form `{T[:80]}` not recognised")
            n_forms[kind] += 1
            if not finite_known:
                bad_nf.append(f"`{T[:50]}` can be printed for a value not known to be finite")
        if nonfinite and not any(isinstance(e_, ast.Expr) and isinstance(e_.value, ast.Call) and unparse(e_.value.func) == "self.print_string" for e_ in pth.effects):
            bad_nf.append("a NaN / Inf value is not printed at all")
    if n_forms["g"] and not bad_g:
        r.ok("g-forms guarded", f"{pf.loc} {n_forms['g']} 'g' forms printed only when they contain '.' (else hex bit pattern)")
    elif bad_g:
        r.fail("g-forms guarded", Finding("C06.R3", pf.fq, "g-form-unguarded", f"the '%g' form {bad_g[0]} is printed without the `'.' in <text>` test: forms like `1e+20` are not FLOAT_LIT", pf.loc))
    if n_forms["e5"] and not bad_e:
        r.ok("lossless-check", f"{pf.loc} '.5e' form printed only after re-packing it gives the same value")
    elif bad_e:
        r.fail("lossless-check", Finding("C06.R3", pf.fq, "lossless-check-missing", f"the short scientific form `{bad_e[0]}` is printed without verifying that it re-parses to the same value in the element type", pf.loc))
    if bad_bits:
        T_, wrong_, ln_ = bad_bits[0]
        r.fail("bits-width", Finding("C06.R3", pf.fq, "bits-width-mismatch", f"`{T_[:70]}` prints the bit pattern of a fixed width on a path where the element type can be {wrong_}: the reader interprets a hex literal as a pattern of the element type's own width, so the value comes back as a different number", f"{pf.module.relpath}:{ln_}"))
    elif n_forms["bits"]:
        r.ok("bits-width", f"{pf.loc} fixed-width bit patterns are printed only for the element type of that width")
    if n_forms["bits"] and not bad_nf:
        r.ok("nan-inf-hex", f"{pf.loc} NaN/Inf printed as the bit pattern of the packed value; decimal forms only for finite values")
    else:
        r.fail("nan-inf-hex", Finding("C06.R3", pf.fq, "nan-inf-form", "NaN / Inf are not always printed as their packed bit pattern: " + (bad_nf[0] if bad_nf else "no bit-pattern form found"), pf.loc))
    # readers
    for mod, q, what in FLOAT_READERS:
        f = idx.func(mod, q)
        closure = unparse(f.node)
        # one level of callees inside the same class
        for c in calls_in(f.node):
            nm = call_attr(c)
            if nm and f.cls is not None and f.cls.method(nm) is not None and nm != f.name:
                closure += unparse(f.cls.method(nm).node)  # type: ignore[union-attr]
        bitcast = any(k in closure for k in ("to_bytes(", "iter_unpack(", ".unpack(", "convert_u32_to_f32", "convert_u64_to_f64", "struct.unpack"))
        inst = f"{f.fq}:hex"
        # the number of bytes of the pattern is the packed size of the type (ceil(bitwidth / 8)), never a floor
        for c_ in calls_in(f.node):
            if call_attr(c_) == "to_bytes" and c_.args:
                szt = unparse(c_.args[0])
                if re.search(r"bitwidth\)? *// *8|bitwidth\)? *>> *3", szt) and not re.search(r"\+ *7", szt):
                    r.fail(inst + ":size", Finding("C06.R3", f.fq, f"byte-size-floor:{szt}", f"`{unparse(c_)[:70]}` sizes the bit pattern with `{szt}`, the bitwidth divided by 8 rounded DOWN: for a type whose width is not a multiple of 8 (tf32: 19 bits, printed as 3 bytes) the printed pattern does not fit and the literal the printer emitted is rejected", f"{f.module.relpath}:{c_.lineno}"))
        if bitcast:
            r.ok(inst, f"{f.loc} {what}: 0x… literal bit-cast to the element type")
        else:
            r.fail(inst, Finding("C06.R3", f.fq, "hex-float-not-bitcast", f"{what}: print_float emits NaN, ±Inf (and values whose decimal form has no '.') as `0x<bit pattern>`, but this reader has no bit-cast branch for an INTEGER_LIT with 0x prefix: the text is rejected or read as the integer value", f.loc))


# round-trip decimal digits per IEEE binary format: ceil(1 + p*log10(2)) with p = significand bits
# (IEEE 754-2019 §5.12.2: 5, 9, 17, 36 for binary16/32/64/128; bfloat16 p=8 -> 4; x87 80-bit p=64 -> 21)
ROUNDTRIP_DIGITS = {"Float16Type": 5, "BFloat16Type": 4, "Float32Type": 9, "Float64Type": 17, "Float80Type": 21, "Float128Type": 36}


def check_float_digits(idx: Index, rep: Report) -> None:
    """A decimal form that is printed without being re-packed and compared must carry enough significant digits
    to identify every value of the element type."""
    r = rep.rule("C06.R3b", "a decimal float form printed without a run-time re-pack check has at least the round-trip number of significant digits of its element type (f32: 9, f64: 17)", floor=2)
    pf = idx.func(PRINTER, "Printer.print_float")
    fn = pf.node
    value = fn.args.args[1].arg
    tparam = fn.args.args[2].arg
    from ..paths import enum_paths, expand_predicates

    n = 0
    seen_inst = set()
    for pth in expand_predicates(enum_paths(fn), {}):
        if not pth.feasible():
            continue
        nf = pth.nfacts()
        types = _type_facts(nf, tparam)
        for k, e_ in enumerate(pth.effects):
            if not (isinstance(e_, ast.Expr) and isinstance(e_.value, ast.Call) and unparse(e_.value.func) == "self.print_string" and e_.value.args):
                continue
            T = pth.res(e_.value.args[0], k)
            for spec_m in re.finditer(r"\{" + re.escape(value) + r"(!r)?(?::([^}]*))?\}", T):
                if "0x{" in T and ":X" in T:
                    continue
                conv, spec = spec_m.group(1), spec_m.group(2) or ""
                if conv == "!r" or spec == "":
                    n += 1
                    if "repr" not in seen_inst:
                        seen_inst.add("repr")
                        r.ok(f"{pf.fq}:repr", f"{pf.loc} repr(value): shortest round-trip form of the double")
                    break
                m = re.fullmatch(r"\.(\d+)([eg])", spec)
                if m is None:
                    raise AnalysisError(f"{pf.fq}: float format spec `{spec}` not recognised")
                digits = int(m.group(1)) + (1 if m.group(2) == "e" else 0)
                verified = any(p_ and re.search(rf"{tparam}\.unpack\({tparam}\.pack\(\[float\(", t_) and re.search(rf"== {value}$|^{value} ==", t_) and T in t_ for t_, p_ in nf)
                n += 1
                inst = f"{pf.fq}:.{m.group(1)}{m.group(2)}"
                loc = f"{pf.module.relpath}:{e_.lineno}"
                if verified:
                    if inst not in seen_inst:
                        seen_inst.add(inst)
                        r.ok(inst, f"{loc} '{spec}' printed only after re-packing it reproduces the value")
                    break
                if not types:
                    r.fail(inst, Finding("C06.R3b", pf.fq, f"unverified-digits:{spec}", f"`f'{{{value}:{spec}}}'` is printed without a re-pack check and without a test of the element type: {digits} significant digits do not identify every float", loc))
                    break
                for t in types:
                    need = ROUNDTRIP_DIGITS.get(t.split(".")[-1])
                    if need is None:
                        raise AnalysisError(f"{pf.fq}: float type `{t}` has no entry in the round-trip digit table")
                    if digits >= need:
                        if (inst, t) not in seen_inst:
                            seen_inst.add((inst, t))
                            r.ok(inst, f"{loc} {t}: {digits} significant digits >= {need}")
                    else:
                        r.fail(inst, Finding("C06.R3b", pf.fq, f"too-few-digits:{t.split('.')[-1]}", f"`f'{{{value}:{spec}}}'` prints a {t} with {digits} significant digits without a re-pack check; {need} are needed to identify every value (e.g. 0.1 + 0.2, or the largest finite value, come back as a different bit pattern)", loc))
                break
    if n == 0:
        raise AnalysisError(f"{pf.fq}: no float format found")


def check_function_type_parens(idx: Index, rep: Report) -> None:
    """`(a) -> (b) -> c` is read as `(a) -> ((b) -> c)`... only when the inner function type is parenthesised by the writer:
    every printer of a function type may drop the result parentheses only for a single result that is not itself a function type."""
    r = rep.rule("C06.R11", "every function-type printer keeps the parentheses around a single result that is itself a function type (sibling agreement of the two printers with the type grammar)", floor=2)
    for mod, q in ((PRINTER, "Printer.print_function_type"), (BUILTIN, "FunctionType.print_builtin")):
        f = idx.func(mod, q)
        fn = f.node
        arrow = [c for c in calls_in(fn) if call_attr(c) == "print_string" and c.args and isinstance(c.args[0], ast.Constant) and "->" in str(c.args[0].value)]
        if not arrow:
            raise AnalysisError(f"{f.fq}: the ` -> ` separator is no longer printed here")
        after = arrow[0].lineno
        withs = [w for w in walk_local(fn) if isinstance(w, ast.With) and any("in_parens" in unparse(i.context_expr) for i in w.items)]
        bare = [c for c in calls_in(fn) if call_attr(c) == "print_attribute" and c.lineno > after and len(c.args) == 1 and not any(any(x is c for x in ast.walk(w)) for w in withs)]
        if not bare:
            r.ok(f.fq, f"{f.loc} results are always parenthesised")
            continue
        for c in bare:
            arg = unparse(c.args[0])
            ok = any((not pol) and isinstance(t, ast.Call) and call_attr(t) == "isinstance" and len(t.args) == 2 and unparse(t.args[0]) == arg and "FunctionType" in unparse(t.args[1]) for t, pol in guard_facts(fn, c))
            if ok:
                r.ok(f.fq, f"{f.module.relpath}:{c.lineno} bare result `{arg}` only when it is not a FunctionType")
            else:
                r.fail(f.fq, Finding("C06.R11", f.fq, "bare-function-result", f"`{unparse(c)}` prints a single result without parentheses and without excluding a FunctionType result: `() -> (() -> i32)` is printed as `() -> () -> i32`, which is read back as a different type (or rejected inside a list)", f"{f.module.relpath}:{c.lineno}"))


def check_bool_spelling(idx: Index, rep: Report) -> None:
    r = rep.rule("C06.R4", "`true`/`false` is printed only for i1 and every integer reader reached for i1 accepts booleans", floor=3)
    pi = idx.func(PRINTER, "Printer.print_int")
    from ..paths import enum_paths

    bad_pi = []
    seen_pi = set()
    for pth in enum_paths(pi.node):
        if not pth.feasible():
            continue
        nf = pth.nfacts()
        is_i1 = next((p_ for t_, p_ in nf if t_ in ("type == i1", "type is i1", "i1 == type")), None)
        truthy = next((p_ for t_, p_ in nf if t_ == "value"), None)
        for k, e_ in enumerate(pth.effects):
            if not (isinstance(e_, ast.Expr) and isinstance(e_.value, ast.Call) and unparse(e_.value.func) == "self.print_string" and e_.value.args):
                continue
            T = pth.res(e_.value.args[0], k)
            if is_i1 is True:
                ok_ = T in ("'true' if value else 'false'", "'false' if not value else 'true'") or (T == "'true'" and truthy is True) or (T == "'false'" and truthy is False)
                seen_pi.add("bool")
            elif is_i1 is False:
                ok_ = T in ("f'{value:d}'", "str(value)", "f'{value}'", "f'{value!s}'", "repr(value)")
                seen_pi.add("int")
            else:
                ok_ = False
            if not ok_:
                bad_pi.append(f"`{T}` is printed under type == i1: {is_i1}, value truthy: {truthy}")
    if not bad_pi and seen_pi == {"bool", "int"}:
        r.ok(pi.fq, f"{pi.loc} true/false iff type == i1, else decimal")
    else:
        r.fail(pi.fq, Finding("C06.R4", pi.fq, "bool-spelling", "print_int must print true/false exactly for i1 and `{value:d}` otherwise: " + (bad_pi[0] if bad_pi else f"forms seen {sorted(seen_pi)}"), pi.loc))
    g = idx.func(AP, "AttrParser._parse_builtin_densearray_attr")
    calls = [c for c in calls_in(g.node, local=False) if call_attr(c) == "_parse_typed_integer"]
    if calls and all({k.arg: unparse(k.value) for k in c.keywords}.get("allow_boolean", "True") == "True" for c in calls):
        r.ok(g.fq, f"{g.loc} dense array integers accept booleans")
    else:
        r.fail(g.fq, Finding("C06.R4", g.fq, "i1-array-reader", "array<i1: true, false> is printed with booleans but the reader does not accept them", g.loc))
    t = idx.func(AP, "AttrParser._TensorLiteralElement.to_type")
    tc = [c for c in calls_in(t.node) if call_attr(c) == "to_int"]
    ok = any(len(c.args) >= 3 and unparse(c.args[2]) == "type.width.data == 1" or {k.arg: unparse(k.value) for k in c.keywords}.get("allow_booleans") == "type.width.data == 1" for c in tc)
    (r.ok(t.fq, f"{t.loc} dense elements accept booleans exactly for i1") if ok else r.fail(t.fq, Finding("C06.R4", t.fq, "i1-dense-reader", "dense<true> : tensor<..xi1> is printed with booleans but to_int is not called with allow_booleans for width 1", t.loc)))


def check_packed(idx: Index, rep: Report) -> None:
    r7 = rep.rule("C06.R7", "the decision to print one representative for many elements (splat) is taken on the packed bytes, not on unpacked Python values (== merges 0.0 / -0.0)", floor=1)
    f = idx.func(BUILTIN, "DenseIntOrFPElementsAttr.is_splat")
    txt = unparse(f.node)
    on_values = "get_values()" in txt or "iter_values()" in txt
    on_bytes = "self.data.data" in txt
    if on_values and not on_bytes:
        r7.fail(f.fq, Finding("C06.R7", f.fq, "splat-on-values", "is_splat compares unpacked Python values (`values.count(values[0]) == len(values)`): 0.0 == -0.0 (and True == 1), so `dense<[0.0, -0.0]>` is printed as the splat `dense<0.0>` and the sign bit of the second element is lost", f.loc))
    elif on_bytes:
        r7.ok(f.fq, f"{f.loc} splat decided on self.data.data")
    else:
        raise AnalysisError(f"{f.fq}: splat decision not recognised")

    # the same decision anywhere else in the class (e.g. a "uniform data" fast path when packing)
    cls_ = idx.cls(BUILTIN, "DenseIntOrFPElementsAttr")
    for nm, defs in cls_.methods.items():
        for d in defs:
            if d.name == "is_splat":
                continue
            for x in walk_local(d.node):
                if isinstance(x, ast.Compare) and len(x.ops) == 1 and isinstance(x.ops[0], ast.Eq):
                    sides = [unparse(x.left), unparse(x.comparators[0])]
                    cnt = [s_ for s_ in sides if re.fullmatch(r"(\w+)\.count\(\1\[0\]\)", s_)]
                    if cnt and any(s_.startswith("len(") for s_ in sides):
                        r7.fail(f"{d.fq}:uniformity", Finding("C06.R7", d.fq, "uniformity-on-values", f"`{unparse(x)}` decides that all elements are the same with Python `==` on unpacked values: 0.0 == -0.0, so a list of zeros with mixed signs is packed / printed as one repeated element and sign bits are lost", f"{BUILTIN}:{x.lineno}"))

    r8 = rep.rule("C06.R8", "containers of packed elements count elements with the packer's stride (compile_time_size = struct.calcsize(format)), not with FixedBitwidthType.size (= ceil(bits/8))", floor=3)
    for cname in ("DenseArrayBase", "DenseIntOrFPElementsAttr"):
        cls = idx.cls(BUILTIN, cname)
        n = 0
        for nm, defs in cls.methods.items():
            for d in defs:
                for x in walk_local(d.node):
                    stride = None
                    if isinstance(x, ast.BinOp) and isinstance(x.op, (ast.FloorDiv, ast.Mod, ast.Mult)):
                        for side in (x.left, x.right):
                            if isinstance(side, ast.Attribute) and side.attr in ("size", "compile_time_size") and "type" in unparse(side.value):
                                stride = side
                    if isinstance(x, ast.Assign) and isinstance(x.value, ast.Attribute) and x.value.attr in ("size", "compile_time_size") and "type" in unparse(x.value.value):
                        stride = x.value
                    if stride is None:
                        continue
                    n += 1
                    inst = f"{d.fq}:{unparse(stride)}"
                    if stride.attr == "size":
                        r8.fail(inst, Finding("C06.R8", d.fq, f"stride:{unparse(stride)}", f"`{unparse(x)[:70]}` uses `.size` (ceil(bitwidth/8), e.g. 3 for i24) while elements are packed with struct format stride `.compile_time_size` (4 for i24): lengths and divisibility checks are wrong for widths that are not a power of two", f"{BUILTIN}:{x.lineno}"))
                    else:
                        r8.ok(inst, f"{BUILTIN}:{x.lineno} stride = compile_time_size")
        if n == 0:
            raise AnalysisError(f"{cname}: no stride computation found")


def check_locations(idx: Index, rep: Report) -> None:
    r = rep.rule("C06.R9", "each location kind is parsed section by section as printed (every literal token the printer emits has a consumer in the parser branch of that kind)", floor=4)
    pl = idx.func(AP, "AttrParser._parse_location")
    # parser branches
    branches: dict[str, str] = {}
    plcfg = CFG(pl.node)
    for _subj, tbl_, _dflt, _n in dispatch_tables(pl.node):  # `match identifier:` or the same dispatch as an if-chain
        for key_, body_ in tbl_.items():
            try:
                kv = ast.literal_eval(key_)
            except (ValueError, SyntaxError):
                continue
            if isinstance(kv, str):
                branches[kv] = "\n".join(unparse(s) for s in body_)
    for n in walk_local(pl.node):
        if isinstance(n, ast.If):
            tt = resolved_text(plcfg, n.test)  # the test with locals replaced by what they hold (`x = self.parse_...(); if x is not None`)
            if "parse_optional_str_literal" in tt:
                branches["<str>"] = "\n".join(unparse(s) for s in n.body)
            if "parse_optional_keyword('unknown')" in tt:
                branches["unknown"] = "\n".join(unparse(s) for s in n.body)
    kinds = {"UnknownLoc": "unknown", "FileLineColLoc": "<str>", "NameLoc": "<str>", "CallSiteLoc": "callsite", "FusedLoc": "fused"}
    consumers = {
        "<": ("'<'", "in_angle_brackets", "Delimiter.ANGLE"),
        ">": ("'>'", "in_angle_brackets", "Delimiter.ANGLE"),
        "(": ("'('", "in_parens", "L_PAREN", "Delimiter.PAREN"),
        ")": ("')'", "in_parens", "Delimiter.PAREN"),
        ":": ("':'",),
        "[": ("'['", "Delimiter.SQUARE"),
        "]": ("']'", "Delimiter.SQUARE"),
    }
    for cname, key in kinds.items():
        cls = idx.cls(BUILTIN, cname)
        pb = cls.method("print_builtin")
        if pb is None:
            raise AnalysisError(f"{cname}.print_builtin not found")
        if key not in branches:
            r.fail(cname, Finding("C06.R9", cls.fq, "no-parser-branch", f"no branch of _parse_location recognises `{key}`", cls.loc))
            continue
        lits = []
        for c in calls_in(pb.node):
            if unparse(c.func) == "printer.print_string" and isinstance(c.args[0], ast.Constant):
                lits.append(c.args[0].value)
        missing = []
        for lit in lits:
            for ch in lit.strip():
                if ch in consumers and not any(k in branches[key] for k in consumers[ch]):
                    missing.append(ch)
            word = lit.strip()
            if word.isalpha() and word not in (key,) and f"'{word}'" not in branches[key] and f"'{word}'" not in unparse(pl.node):
                missing.append(word)
        # every printed sub-attribute is constructed from parsed data (not a constant default)
        params = [n for n, _, _ in cls.ann_fields()]
        ctor = re.search(rf"{cname}\((.*)\)", branches[key])
        const_args = []
        if ctor:
            try:
                call = ast.parse(ctor.group(0), mode="eval").body
                for pname, a in zip(params, call.args):  # type: ignore[union-attr]
                    printed_param = any(f"self.{pname}" in unparse(c) for c in calls_in(pb.node))
                    if printed_param and isinstance(a, ast.Call) and call_attr(a) == "NoneAttr" and not a.args:
                        const_args.append(pname)
            except SyntaxError:
                pass
        if missing or const_args:
            r.fail(cname, Finding("C06.R9", pb.fq, f"section-unparsed:{''.join(sorted(set(missing)))}{'+' + ','.join(const_args) if const_args else ''}", f"{cname}.print_builtin emits {sorted(set(missing))} {'and prints `' + ','.join(const_args) + '`' if const_args else ''} but the `{key}` branch of _parse_location has no consumer for it{' and always builds ' + ','.join(const_args) + '=NoneAttr()' if const_args else ''}: `loc(fused<\"meta\">[unknown])` is printed but cannot be parsed", pb.loc))
        else:
            r.ok(cname, f"{pb.loc} literals {lits} all consumed by the `{key}` branch")


POSITIVE_CACHE = '''
from functools import lru_cache
@lru_cache
def _float_literal(value: float, type): ...
'''


def _float_keyed_caches(tree: ast.AST) -> list[ast.FunctionDef]:
    out = []
    for n in ast.walk(tree):
        if isinstance(n, ast.FunctionDef) and any(("cache" in unparse(d)) for d in n.decorator_list):
            for a in n.args.args + n.args.kwonlyargs:
                if a.annotation is not None and re.search(r"\bfloat\b", unparse(a.annotation)):
                    out.append(n)
                    break
    return out


POSITIVE_TRUTHY = '''
class A:
    def get_offset(self) -> int | None: ...
    def print_builtin(self, printer):
        if self.get_offset():
            printer.print_string(", offset: ")
'''


def _truthy_optional_int(tree: ast.Module) -> list[tuple[ast.AST, str]]:
    """`if <call>:` inside print* methods where <call> resolves (same class) to a method returning `int | None`."""
    out = []
    for cls in [n for n in ast.walk(tree) if isinstance(n, ast.ClassDef)]:
        rets = {m.name: unparse(m.returns) for m in cls.body if isinstance(m, ast.FunctionDef) and m.returns is not None}
        for m in cls.body:
            if isinstance(m, ast.FunctionDef) and m.name.startswith("print"):
                for n in ast.walk(m):
                    if isinstance(n, (ast.If, ast.IfExp)):
                        t = n.test
                        if isinstance(t, ast.UnaryOp) and isinstance(t.op, ast.Not):
                            t = t.operand
                        if isinstance(t, ast.Call) and isinstance(t.func, ast.Attribute) and unparse(t.func.value) == "self" and rets.get(t.func.attr, "").replace(" ", "") in ("int|None", "None|int"):
                            out.append((n, t.func.attr))
    return out


def check_misc(idx: Index, rep: Report) -> None:
    r = rep.rule("C06.R6", "no memoisation keyed on Python floats in the printing path (0.0 == -0.0 share one cache entry)", floor=1)
    if len(_float_keyed_caches(ast.parse(POSITIVE_CACHE))) != 1:
        raise AnalysisError("float-keyed cache detector self-check failed")
    r.ok("positive-example", "detector matches the built-in positive example")
    for m in (PRINTER, BUILTIN, "xdsl/utils/comparisons.py"):
        mi = idx.module(m)
        for fn in _float_keyed_caches(mi.tree):
            r.fail(f"{m}:{fn.name}", Finding("C06.R6", f"{mi.name}.{fn.name}", "float-keyed-cache", f"`{fn.name}` is memoised on a float parameter: 0.0 and -0.0 (equal, same hash) share one entry, so whichever zero is printed first decides the text of both", f"{m}:{fn.lineno}"))
        else:
            r.ok(m, f"{m}: no cache keyed on a float parameter")
    r = rep.rule("C06.R10", "an optional printed section is not elided by the truthiness of an `int | None` value (0 and None/dynamic are different payloads)", floor=1)
    if len(_truthy_optional_int(ast.parse(POSITIVE_TRUTHY))) != 1:
        raise AnalysisError("optional-int truthiness detector self-check failed")
    r.ok("positive-example", "detector matches the built-in positive example")
    mi = idx.module(BUILTIN)
    hits = _truthy_optional_int(mi.tree)
    for n, meth in hits:
        r.fail(f"{BUILTIN}:{n.lineno}", Finding("C06.R10", f"{mi.name}:{meth}", f"truthy-optional-int:{meth}", f"`{unparse(n.test)}` elides a printed section when `{meth}()` is 0 *or* None: a dynamic (None) payload is dropped and re-parsed as the default 0", f"{BUILTIN}:{n.lineno}"))
    if not hits:
        r.ok(BUILTIN, "no print method branches on the truthiness of an `int | None` accessor")


def check_hex_blob(idx: Index, rep: Report) -> None:
    """Large dense attributes are printed as "0x<HEX of the packed bytes>"; the reader must remove exactly that
    two-character prefix before bytes.fromhex (str.lstrip / strip take a character set: they also eat leading zero
    nibbles of the payload)."""
    r = rep.rule("C06.R12", "the hex-blob form of dense elements is read by removing exactly the `0x` prefix the printer writes", floor=1)
    w = [c for f in raw_funcs(idx.module("xdsl/dialects/builtin.py")) for c in ast.walk(f.node) if isinstance(c, ast.JoinedStr) and unparse(c).startswith("f'\"0x{") and ".hex()" in unparse(c)]
    if not w:
        raise AnalysisError("builtin.py: the writer of the hex-blob form (f'\"0x{...hex()...}\"') was not found")
    f = idx.func("xdsl/parser/attribute_parser.py", "AttrParser.parse_dense_int_or_fp_elements_attr")
    calls = [c for c in calls_in(f.node) if unparse(c.func) == "bytes.fromhex" and c.args]
    if not calls:
        raise AnalysisError(f"{f.fq}: bytes.fromhex reader of the hex-blob form not found")
    for c in calls:
        a = c.args[0]
        txt = unparse(a)
        inst = f"{f.fq}:{txt[:40]}"
        strip_calls = [x for x in ast.walk(a) if isinstance(x, ast.Call) and call_attr(x) in ("lstrip", "strip", "rstrip") and x.args]
        if strip_calls:
            r.fail(inst, Finding("C06.R12", f.fq, "hex-prefix-charset-strip", f"`{txt}`: str.{call_attr(strip_calls[0])} removes every leading character of the given set, not the prefix: a payload whose first byte is below 0x10 (`0x0A…`) loses its leading zero nibbles and no longer decodes to the printed bytes", f"{f.module.relpath}:{c.lineno}"))
        elif (isinstance(a, ast.Subscript) and isinstance(a.slice, ast.Slice) and a.slice.upper is None and a.slice.step is None and unparse(a.slice.lower) == "2") or (isinstance(a, ast.Call) and call_attr(a) == "removeprefix" and a.args and unparse(a.args[0]).lower() in ("'0x'",)):
            r.ok(inst, f"{f.module.relpath}:{c.lineno} `{txt}` removes exactly the 2-character prefix")
        else:
            raise AnalysisError(f"{f.fq}: `{txt}`: how the 0x prefix is removed was not recognised")


def check_dense_nesting(idx: Index, rep: Report) -> None:
    """The printer turns the flat value array into nested lists: at a level with dimensions (d0, d1, ..., dn) the array
    is cut into d0 blocks of d1*...*dn values each."""
    r = rep.rule("C06.R13", "nested printing of dense elements cuts the flat array into blocks of prod(shape[1:]) values (= len(array) // shape[0]) at every level", floor=1)
    f = idx.func("xdsl/dialects/builtin.py", "DenseIntOrFPElementsAttr._print_dense_list")
    arr, shp = f.node.args.args[1].arg, f.node.args.args[2].arg
    steps = []
    for c in calls_in(f.node, local=False):
        if unparse(c.func) == "range" and len(c.args) == 3:
            steps.append((c, c.args[2]))
    for n_ in ast.walk(f.node):
        if isinstance(n_, ast.Subscript) and isinstance(n_.slice, ast.Slice) and n_.slice.lower is not None and n_.slice.upper is not None and isinstance(n_.slice.upper, ast.BinOp) and isinstance(n_.slice.upper.op, ast.Add) and unparse(n_.slice.upper.left) == unparse(n_.slice.lower):
            steps.append((n_, n_.slice.upper.right))
    if not steps:
        raise AnalysisError(f"{f.fq}: block size of the nested printing not found")
    from ..astutil import guard_facts as _gf13

    steps = [(site, st) for site, st in steps if any(p_ and unparse(t_) == f"len({shp}) > 1" for t_, p_ in _gf13(f.node, site))] or steps
    OK = {f"len({arr}) // {shp}[0]", f"prod({shp}[1:])", f"math.prod({shp}[1:])"}
    for site, st in steps:
        txt = unparse(st)
        if isinstance(st, ast.Name):
            ds = {unparse(v_) for n2 in ast.walk(f.node) if isinstance(n2, ast.Assign) and len(n2.targets) == 1 and unparse(n2.targets[0]) == st.id for v_ in [n2.value]}
            if len(ds) == 1:
                txt = next(iter(ds))
        inst = f"{f.fq}:{unparse(site)[:40]}"
        if txt in OK:
            r.ok(inst, f"{f.loc} block size `{txt}`")
        elif re.fullmatch(rf"{shp}\[-?\d+\]", txt):
            r.fail(inst, Finding("C06.R13", f.fq, f"block-size:{txt}", f"the flat array is cut into blocks of `{txt}` values - one dimension - while the recursion continues with `{shp}[1:]`: for rank >= 3 the blocks of the outer level must hold prod({shp}[1:]) values, so later blocks start at the wrong offset and the printed literal (of the right shape) parses back to other elements", f.loc))
        else:
            raise AnalysisError(f"{f.fq}: block size `{txt}` of the nested printing not understood")


def check_dense_empty(idx: Index, rep: Report) -> None:
    """The nested printer divides the array length by the leading extent and steps through the array by the block size.
    For an attribute without elements (`tensor<0x3xi32>`, `tensor<3x0xi32>`) one of the two is zero, so the empty case
    has to be printed before the nested printer is reached (`dense<>`, which the parser reads back for any shape)."""
    r = rep.rule("C06.R14", "the nested dense-elements printer (division by the leading extent, range step = block size) is entered only for an attribute with at least one element", floor=1)
    B = "xdsl/dialects/builtin.py"
    g = idx.func(B, "DenseIntOrFPElementsAttr._print_dense_list")
    shp = g.node.args.args[2].arg
    arr = g.node.args.args[1].arg
    divides = [n_ for n_ in ast.walk(g.node) if isinstance(n_, ast.BinOp) and isinstance(n_.op, (ast.FloorDiv, ast.Div, ast.Mod)) and unparse(n_.right).startswith(f"{shp}[")]
    steps = [c for c in calls_in(g.node, local=False) if unparse(c.func) == "range" and len(c.args) == 3 and not isinstance(c.args[2], ast.Constant)]
    f = idx.func(B, "DenseIntOrFPElementsAttr.print_without_type")
    calls = [c for c in calls_in(f.node) if call_attr(c) == "_print_dense_list"]
    if not calls:
        raise AnalysisError(f"{f.fq}: call of _print_dense_list not found")
    if not divides and not steps:
        r.ok(g.fq, f"{g.loc} no division by an extent and no computed range step")
        return
    own_guard = [t for t in ast.walk(g.node) if isinstance(t, (ast.If, ast.IfExp)) and re.search(rf"\b({re.escape(arr)}|{re.escape(shp)})\b", unparse(t.test)) and unparse(t.test) != f"len({shp}) > 1"]
    cfg = CFG(f.node)
    for c in calls:
        inst = f"{f.fq}:{c.lineno - f.node.lineno}"
        nonempty = False
        for t, pol in guard_facts(f.node, c):
            e = t
            while isinstance(e, ast.UnaryOp) and isinstance(e.op, ast.Not):
                e, pol = e.operand, not pol
            if isinstance(e, ast.Compare) and len(e.ops) == 1:
                l, rr = resolved_text(cfg, e.left, cfg.node_of(c)), e.comparators[0]
                if l in ("len(self)", "len(self.get_values())", "len(self.data.data)", "len(self.data)") and isinstance(rr, ast.Constant) and isinstance(rr.value, int):
                    v = {ast.Eq: 0 == rr.value, ast.NotEq: 0 != rr.value, ast.Lt: 0 < rr.value, ast.LtE: 0 <= rr.value, ast.Gt: 0 > rr.value, ast.GtE: 0 >= rr.value}.get(type(e.ops[0]))
                    if v is not None and v != pol:
                        nonempty = True  # this fact is false for length 0
            elif resolved_text(cfg, e, cfg.node_of(c)) in ("len(self)", "self.get_values()", "self.data.data") and pol:
                nonempty = True
        if nonempty:
            r.ok(inst, f"{B}:{c.lineno} reached only when the attribute has elements")
        elif own_guard:
            raise AnalysisError(f"{g.fq}: the nested printer tests `{unparse(own_guard[0].test)[:60]}` itself; whether that covers the empty attribute is not decided")
        else:
            what = f"`{unparse(divides[0])}`" if divides else f"`{unparse(steps[0])}`"
            r.fail(inst, Finding("C06.R14", f.fq, "empty-reaches-nested-printer", f"`{unparse(c)[:70]}` can be reached with no elements (no fact about the length excludes 0 here), and the nested printer evaluates {what}: for `tensor<0x3xi32>` the leading extent is 0 (ZeroDivisionError), for `tensor<3x0xi32>` the block size is 0 (range() step 0); such an attribute can no longer be printed", f"{B}:{c.lineno}"))


def check(idx: Index, rep: Report, tier: str) -> str:
    forms = check_bytes(idx, rep)
    rep.run(check_misc, idx, rep)
    rep.run(check_string_literal, idx, rep, forms)
    rep.run(check_float_forms, idx, rep)
    rep.run(check_float_digits, idx, rep)
    rep.run(check_function_type_parens, idx, rep)
    rep.run(check_bool_spelling, idx, rep)
    rep.run(check_packed, idx, rep)
    rep.run(check_locations, idx, rep)
    rep.run(check_hex_blob, idx, rep)
    rep.run(check_dense_nesting, idx, rep)
    rep.run(check_dense_empty, idx, rep)
    return (
        "Finite-partition evaluation of the byte escaper over all 256 bytes against the lexer's string regex and decoder "
        "table; guard-exclusion analysis of raw string emission; regular-language inclusion of Python's float format "
        "languages in FLOAT_LIT; reader/writer form agreement for hex bit patterns, booleans, splat, element stride and "
        "location sections; float-keyed cache and optional-int truthiness lints. Shortest-digits correctness of '.5e/.9g/.17g' "
        "is not decided (the printer re-packs at run time; only the presence of that check on every path is)."
    )
